"""Batch runner: many seeded simulated runs across worker processes, aggregated into evidence."""
from __future__ import annotations

import concurrent.futures as cf
import faulthandler
import hashlib
import importlib
import json
import multiprocessing as mp
import os
import sys
import time
import traceback
import warnings

VERIF_DIR = os.path.dirname(os.path.dirname(os.path.abspath(__file__)))
PY = '/venv/bin/python'
EXIT_OK, EXIT_VIOLATION, EXIT_HARNESS = 0, 1, 2


def derive_seed(verif_seed, prop, config_name, i) -> int:
    m = hashlib.blake2b(f'{verif_seed}|{prop}|{config_name}|{i}'.encode(), digest_size=8).digest()
    return int.from_bytes(m, 'big')


def nworkers() -> int:
    try:
        return max(1, int(os.environ.get('VERIF_WORKERS', '0')) or min(16, os.cpu_count() or 1))
    except ValueError:
        return 16


class Agg:
    """Mergeable statistics of a set of runs."""

    def __init__(self):
        self.runs = 0
        self.counters = {}
        self.sets = {}
        self.samples = []
        self.violations = []
        self.digests = {}
        self.harness_errors = []
        self.extra = []

    def count(self, name, n=1):
        self.counters[name] = self.counters.get(name, 0) + n

    def add_to_set(self, name, item):
        self.sets.setdefault(name, set()).add(item)

    def merge(self, other):
        self.runs += other.runs
        for k, v in other.counters.items():
            self.counters[k] = self.counters.get(k, 0) + v
        for k, v in other.sets.items():
            self.sets.setdefault(k, set()).update(v)
        if len(self.samples) < 6:
            self.samples.extend(other.samples[:6 - len(self.samples)])
        self.violations.extend(other.violations)
        self.digests.update(other.digests)
        self.harness_errors.extend(other.harness_errors)
        self.extra.extend(other.extra)


def _worker_init():
    warnings.simplefilter('ignore')
    sys.setswitchinterval(1e-4)
    os.environ.pop('COVERAGE_PROCESS_START', None)


def work(task):
    """Run one chunk in a worker process.  Returns an Agg."""

    _worker_init()
    if VERIF_DIR not in sys.path:
        sys.path.insert(0, VERIF_DIR)
    faulthandler.enable()
    faulthandler.dump_traceback_later(task.get('hang_s', 300), exit=True)
    agg = Agg()
    try:
        mod = importlib.import_module(task['module'])
        mod.run_chunk(task, agg)
    except Exception:  # noqa: BLE001
        agg.harness_errors.append({'task': {k: task[k] for k in ('module', 'config', 'indices') if k in task},
                                   'trace': traceback.format_exc()})
    finally:
        faulthandler.cancel_dump_traceback_later()
    return agg


def run_tasks(tasks, budget_s, workers=None, stop_on_violation=False, progress=None):
    """Execute tasks on a process pool within a wall-clock budget.  Returns (Agg, info)."""

    workers = workers or nworkers()
    agg = Agg()
    t0 = time.time()
    done_tasks = 0
    cancelled = 0
    t_first = None
    ctx = mp.get_context('fork')
    broken = None
    with cf.ProcessPoolExecutor(max_workers=workers, mp_context=ctx) as ex:
        pending = set()
        # 'priority' chunks (the systematic sweeps) go first, but only while less than half of the budget is used: on a
        # tree where every sweep point happens to be slow they must not starve the seeded sampling altogether
        prio = [t for t in tasks if (t.get('config') or {}).get('priority')]
        rest = [t for t in tasks if not (t.get('config') or {}).get('priority')]
        flip = [False]
        exhausted = False

        def next_task():
            if prio and (not rest or (time.time() - t0) < budget_s * 0.5):
                return prio.pop(0)
            if rest and (not prio or flip[0]):
                flip[0] = False
                return rest.pop(0)
            flip[0] = True
            if prio:
                return prio.pop(0)
            return rest.pop(0) if rest else None

        def top_up():
            nonlocal exhausted
            while not exhausted and len(pending) < workers * 3:
                t = next_task()
                if t is None:
                    exhausted = True
                else:
                    pending.add(ex.submit(work, t))

        top_up()
        while pending:
            done, _ = cf.wait(pending, timeout=1.0, return_when=cf.FIRST_COMPLETED)
            for f in done:
                pending.discard(f)
                try:
                    agg.merge(f.result())
                    done_tasks += 1
                except cf.process.BrokenProcessPool as e:
                    broken = f'worker process died: {e!r}'
                except Exception as e:  # noqa: BLE001
                    broken = f'worker failed: {e!r}'
            if broken:
                break
            over = (time.time() - t0) > budget_s
            if stop_on_violation and agg.violations and t_first is None:
                t_first = time.time()
            # after the first violation the batch goes on for a short while: a handful of candidates (some failures
            # depend on object addresses and do not replay exactly; see driver) is worth more than the seconds saved
            enough = t_first is not None and (len(agg.violations) >= 8 or time.time() - t_first > 12.0)
            if over or enough:
                exhausted = True
                for f in list(pending):
                    if f.cancel():
                        pending.discard(f)
                        cancelled += 1
            else:
                top_up()
            if progress and done:
                progress(agg, time.time() - t0)
    if broken:
        agg.harness_errors.append({'trace': broken})
    info = {'wall_s': time.time() - t0, 'tasks_done': done_tasks, 'tasks_cancelled': cancelled, 'workers': workers}
    return agg, info


def rerun_in_fresh_interpreter(module, task, hashseed='12345', timeout=600):
    """Re-execute a chunk in a fresh interpreter under another PYTHONHASHSEED; return {index: digest}."""

    import subprocess
    env = dict(os.environ)
    env['PYTHONHASHSEED'] = str(hashseed)
    env.pop('COVERAGE_PROCESS_START', None)
    code = (
        'import sys, json; sys.path.insert(0, %r); from sim import runner; '
        't = json.loads(sys.stdin.read()); a = runner.work(t); '
        'print("@@" + json.dumps({"d": {str(k): v for k, v in a.digests.items()}, "h": a.harness_errors}))'
    ) % VERIF_DIR
    p = subprocess.run([PY, '-c', code], input=json.dumps(task), capture_output=True, text=True, env=env,
                       timeout=timeout, cwd=VERIF_DIR)
    for line in p.stdout.splitlines():
        if line.startswith('@@'):
            d = json.loads(line[2:])
            if d['h']:
                raise RuntimeError('fresh-interpreter rerun harness error: ' + d['h'][0].get('trace', '')[-2000:])
            return d['d']
    raise RuntimeError(f'fresh-interpreter rerun produced no result (rc={p.returncode}): {p.stderr[-2000:]}')


class IsolatedTimeout(RuntimeError):
    """The forked run did not finish within its deadline and was killed (it was stuck in C code)."""


def isolated(fn, *args, hang_s=300):
    """Run ``fn(*args)`` in a forked child and return its (picklable) result.

    Every simulated run starts from the same pristine process state: the library freshly imported
    and never used.  Whatever a run leaves behind in module-level state of the tree under test
    (which the harness cannot know about or reset), in caches or in the allocator dies with the
    child, so a run never depends on the runs that preceded it in the worker - and a replay in a
    fresh interpreter starts from the same state.

    The parent enforces the deadline with SIGKILL: a child stuck inside C code that does not poll
    for signals (catastrophic regex backtracking - property C07's subject - does exactly that) can
    neither run a Python-level signal handler nor be reached by a watchdog thread.
    """

    import pickle
    import select
    import signal
    r, w = os.pipe()
    sys.stdout.flush()
    sys.stderr.flush()
    pid = os.fork()
    if pid == 0:
        code = 0
        try:
            os.close(r)
            try:
                import ctypes
                ctypes.CDLL(None).prctl(1, signal.SIGKILL)   # PR_SET_PDEATHSIG: never outlive the worker
            except Exception:  # noqa: BLE001
                pass
            # do not keep the pool's pipes / sentinels of the worker alive
            for fd in range(3, 128):
                if fd != w:
                    try:
                        os.close(fd)
                    except OSError:
                        pass
            # NB: faulthandler's watchdog must not be touched here: its thread does not exist in the child and
            # cancelling it would wait for it forever.
            from sim import env as _env
            _env.set_outer_deadline(hang_s + 30)
            try:
                out = ('ok', fn(*args))
            except BaseException:  # noqa: BLE001
                out = ('error', traceback.format_exc())
            data = pickle.dumps(out, protocol=pickle.HIGHEST_PROTOCOL)
            with os.fdopen(w, 'wb') as f:
                f.write(data)
        except BaseException:  # noqa: BLE001
            code = 3
        finally:
            os._exit(code)
    os.close(w)
    chunks = []
    deadline = time.monotonic() + hang_s
    killed = False
    with os.fdopen(r, 'rb', buffering=0) as f:
        while True:
            left = deadline - time.monotonic()
            if left <= 0:
                try:
                    os.kill(pid, signal.SIGKILL)
                except ProcessLookupError:
                    pass
                killed = True
                break
            ready, _, _ = select.select([f], [], [], min(left, 5.0))
            if not ready:
                continue
            b = f.read(1 << 16)
            if not b:
                break
            chunks.append(b)
    _, status = os.waitpid(pid, 0)
    if killed:
        raise IsolatedTimeout(f'isolated run exceeded {hang_s}s and was killed')
    data = b''.join(chunks)
    if not data:
        sig = os.WTERMSIG(status) if os.WIFSIGNALED(status) else None
        raise RuntimeError(f'isolated run died without a result (status={status}, signal={sig})')
    kind, val = pickle.loads(data)
    if kind == 'error':
        raise RuntimeError('exception inside isolated run:\n' + val)
    return val


def merge_isolated(agg, digest_key, fn, *args, hang_s=90):
    """Run one seeded run in a forked child and merge its Agg; a run killed at its deadline is counted, not fatal."""

    try:
        agg.merge(isolated(fn, *args, hang_s=hang_s))
    except IsolatedTimeout:
        agg.count('discarded:killed-at-deadline(stuck-in-C-code)')
        agg.digests[digest_key] = 'discarded'
