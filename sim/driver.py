"""Generic check driver: plan -> seeded batches -> minimise -> replay file -> evidence -> exit code."""
from __future__ import annotations

import importlib
import json
import os
import sys
import time

from . import runner

VERIF_DIR = runner.VERIF_DIR
REPLAY_DIR = os.path.join(VERIF_DIR, 'replays')
EVIDENCE_DIR = os.path.join(VERIF_DIR, 'evidence')
KNOWN_FILE = os.path.join(VERIF_DIR, 'known_findings.json')

MODULES = {'C04': 'props.c04', 'C14': 'props.c14', 'C15': 'props.c15', 'C16': 'props.c16'}


def load_known():
    try:
        with open(KNOWN_FILE) as f:
            d = json.load(f)
    except FileNotFoundError:
        return {'known': [], 'fixed': []}
    d.setdefault('known', [])
    d.setdefault('fixed', [])
    return d


def match_known(prop, sig, known):
    for k in known['known']:
        if k.get('property') == prop and k.get('signature') == sig:
            return k
    return None


def make_tasks(mod, plan, verif_seed):
    """Interleave chunks of all configs so that a deadline cut starves none of them."""

    per = []
    for cfg in plan['configs']:
        chunks = []
        n = cfg['nruns']
        c = cfg['chunk']
        for a in range(0, n, c):
            chunks.append({
                'module': mod.__name__, 'kind': 'runs', 'config': cfg, 'indices': list(range(a, min(n, a + c))),
                'verif_seed': verif_seed, 'hang_s': plan.get('hang_s', 3600),
            })
        per.append(chunks)
    out = []
    # systematic sweeps ('priority' configs) are dispatched before the random sampling: a deadline cut then only
    # shortens the sampling, never the enumerated sub-space
    prio = [chunks for chunks in per if chunks and chunks[0]['config'].get('priority')]
    per = [chunks for chunks in per if not (chunks and chunks[0]['config'].get('priority'))]
    j = 0
    while any(j < len(c) for c in prio):
        for chunks in prio:
            if j < len(chunks):
                out.append(chunks[j])
        j += 1
    i = 0
    while any(per):
        for chunks in per:
            if i < len(chunks):
                out.append(chunks[i])
        i += 1
        if all(i >= len(c) for c in per):
            break
    return out


def write_json(path, obj):
    tmp = path + '.tmp'
    with open(tmp, 'w') as f:
        json.dump(obj, f, indent=1, sort_keys=False, default=_default)
        f.write('\n')
    os.replace(tmp, path)


def _default(o):
    if isinstance(o, (set, frozenset)):
        return sorted(o)
    if isinstance(o, tuple):
        return list(o)
    if isinstance(o, bytes):
        return o.decode('utf8', 'backslashreplace')
    return repr(o)


def check(prop, tier, verif_seed, budget_override=None):
    t0 = time.time()
    mod = importlib.import_module(MODULES[prop])
    plan = mod.plan(tier)
    if budget_override:
        plan['budget_s'] = budget_override
    os.makedirs(REPLAY_DIR, exist_ok=True)
    os.makedirs(EVIDENCE_DIR, exist_ok=True)
    print(f'[{prop}] tier={tier} VERIF_SEED={verif_seed} repo={os.environ.get("VERIF_REPO", "/repo")} '
          f'budget={plan["budget_s"]}s workers={runner.nworkers()}', flush=True)

    tasks = make_tasks(mod, plan, verif_seed)
    stop_early = not any(k.get('property') == prop for k in load_known()['known'])
    agg, info = runner.run_tasks(tasks, plan['budget_s'], stop_on_violation=stop_early)
    if hasattr(mod, 'post_batch'):
        mod.post_batch(agg)
    print(f'[{prop}] runs={agg.runs} wall={info["wall_s"]:.1f}s tasks={info["tasks_done"]} '
          f'cancelled={info["tasks_cancelled"]} violations(raw)={len(agg.violations)}', flush=True)

    exit_code = runner.EXIT_OK
    known = load_known()
    reported = []
    known_lines = []
    unstable = []

    discarded = sum(v for k, v in agg.counters.items() if k.startswith('discarded:'))
    if discarded > max(5, (agg.runs + discarded) // 100):
        agg.harness_errors.append({'trace': f'{discarded} of {agg.runs + discarded} runs were discarded (slow or stuck in C '
                                            'code): the workload generator needs attention'})
    if agg.harness_errors:
        for hrr in agg.harness_errors[:3]:
            print('HARNESS-ERROR ' + prop + '\n' + hrr.get('trace', '')[-3000:], flush=True)
        exit_code = runner.EXIT_HARNESS

    # ---- violations: group by signature, minimise one per signature, write replay files
    if agg.violations and exit_code != runner.EXIT_HARNESS:
        groups = {}
        for v in agg.violations:
            groups.setdefault(mod.signature(v), []).append(v)
        todo = []
        for sig, vs in sorted(groups.items())[:plan.get('max_reports', 4)]:
            vs.sort(key=lambda r: r.get('cost', 0))
            todo.append({'module': mod.__name__, 'kind': 'minimise', 'rec': vs[0], 'hang_s': 900,
                         'budget': plan.get('minimise_budget', 300)})
        magg, _ = runner.run_tasks(todo, 1200)
        if magg.harness_errors:
            for hrr in magg.harness_errors[:3]:
                print('HARNESS-ERROR (minimise) ' + prop + '\n' + hrr.get('trace', '')[-3000:], flush=True)
            exit_code = runner.EXIT_HARNESS
        for rec in magg.extra:
            sig = mod.signature(rec)
            rec['signature'] = sig
            k = match_known(prop, sig, known)
            path = os.path.join(REPLAY_DIR, f'{prop}-{rec["digest"]}.json')
            rec['replay_cmd'] = f'{runner.PY} {VERIF_DIR}/check.py {prop} --replay {path}'
            write_json(path, rec)
            # a replay in a fresh interpreter must reproduce it exactly.  Failures that depend on object addresses
            # (e.g. state keyed by id() of a dead node) also depend on the allocator's free lists, which differ between
            # a worker's child and a fresh interpreter: 'heap_salt' (number of junk instances allocated and partly
            # freed before the replay) makes that an explicit, recorded replay parameter.
            ok, msg = replay_file_fresh(prop, path)
            salt = 0
            while not ok and salt < 12 and 'NOT-REPRODUCED' in msg:
                salt += 1
                rec['heap_salt'] = salt
                write_json(path, rec)
                ok, msg = replay_file_fresh(prop, path)
            if not ok and 'differs from the recording' in msg:
                # the fresh interpreter violates the property on this record too, but not identically (address-
                # dependent state): let the fresh interpreter re-record its own outcome, then demand exactness
                ok2, _ = replay_file_fresh(prop, path, rewrite=True)
                if ok2:
                    ok, msg = replay_file_fresh(prop, path)
                    if ok:
                        with open(path) as f:
                            rec = json.load(f)
                        sig = rec.get('signature', sig)
                        k = match_known(prop, sig, known)
            if not ok:
                unstable.append((path, msg))
                continue
            if k is not None:
                known_lines.append(f'KNOWN-FINDING: property={prop} {k.get("what", sig)} [signature={sig}] replay={path}')
            else:
                reported.append((sig, path, rec))
        if unstable and not reported and not known_lines:
            # none of the minimised candidates replays exactly (address-dependent state): try the other raw violations
            # of the batch, unminimised, one at a time, until one does
            tried = {id(t['rec']) for t in todo}
            pool = list(agg.violations)
            if len(pool) - len(todo) < 6:
                # too few candidates: sample on (the part of the plan that was not reached yet) without stopping early
                agg2, _ = runner.run_tasks(tasks[::-1][:max(32, len(tasks) // 3)], 30, stop_on_violation=False)
                pool.extend(agg2.violations)
                print(f'[{prop}] no candidate replays exactly; sampled on: {len(agg2.violations)} more raw violation(s)',
                      flush=True)
            for v in sorted(pool, key=lambda r: r.get('cost', 0)):
                if id(v) in tried or len(tried) >= len(todo) + 10:
                    continue
                tried.add(id(v))
                rec = dict(v)
                sig = mod.signature(rec)
                rec['signature'] = sig
                path = os.path.join(REPLAY_DIR, f'{prop}-{rec["digest"]}.json')
                rec['replay_cmd'] = f'{runner.PY} {VERIF_DIR}/check.py {prop} --replay {path}'
                rec['minimised'] = {'skipped': 'taken unminimised after the minimised candidates did not replay exactly'}
                write_json(path, rec)
                ok, msg = replay_file_fresh(prop, path)
                salt = 0
                while not ok and salt < 6 and 'NOT-REPRODUCED' in msg:
                    salt += 1
                    rec['heap_salt'] = salt
                    write_json(path, rec)
                    ok, msg = replay_file_fresh(prop, path)
                if not ok and 'differs from the recording' in msg:
                    ok2, _ = replay_file_fresh(prop, path, rewrite=True)
                    if ok2:
                        ok, msg = replay_file_fresh(prop, path)
                        if ok:
                            with open(path) as f:
                                rec = json.load(f)
                            sig = rec.get('signature', sig)
                if ok:
                    k = match_known(prop, sig, known)
                    if k is not None:
                        known_lines.append(f'KNOWN-FINDING: property={prop} {k.get("what", sig)} [signature={sig}] replay={path}')
                    else:
                        reported.append((sig, path, rec))
                    break
                unstable.append((path, msg))
        for path, msg in unstable:
            print(f'UNSTABLE {prop}: a violation was observed but its replay file {path} does not reproduce in a fresh '
                  f'interpreter: {msg.strip()[:300]} ... {msg.strip()[-700:]}', flush=True)
        if unstable and not reported and not known_lines:
            # something is wrong, but nothing we can stand behind with an exact replay: never exit 0, never claim
            print(f'HARNESS-ERROR {prop}: {len(unstable)} violation(s) observed, none replayable', flush=True)
            exit_code = runner.EXIT_HARNESS
        for line in known_lines:
            print(line, flush=True)
        for sig, path, rec in reported:
            print(f'VIOLATION property={prop} replay={path}', flush=True)
            print(f'  signature: {sig}', flush=True)
            print('  ' + mod.describe(rec).replace('\n', '\n  '), flush=True)
        if reported and exit_code != runner.EXIT_HARNESS:
            exit_code = runner.EXIT_VIOLATION

    # ---- determinism sample: re-execute ~1% of the chunks in a fresh interpreter, other hash seed
    det = {'chunks': 0, 'runs': 0, 'mismatches': 0}
    if exit_code == runner.EXIT_OK and plan.get('determinism_sample', True):
        done = [t for t in tasks if all(f"{t['config']['name']}:{i}" in agg.digests for i in t['indices'])]
        if done:
            step = max(1, len(done) // plan.get('determinism_chunks', 3))
            picks = done[::step][:plan.get('determinism_chunks', 3)]
            import concurrent.futures as _cf
            picks = [dict(t, indices=t['indices'][:min(plan.get('determinism_runs_per_chunk', 25),
                                                       t['config'].get('det_runs', 25))]) for t in picks]

            def _rerun(t):
                try:
                    return runner.rerun_in_fresh_interpreter(mod.__name__, t)
                except Exception as e:  # noqa: BLE001
                    return e
            with _cf.ThreadPoolExecutor(max_workers=len(picks)) as ex:
                reruns = list(ex.map(_rerun, picks))
            for t, d in zip(picks, reruns):
                if isinstance(d, Exception):
                    print(f'HARNESS-ERROR {prop}: determinism re-run failed: {d}', flush=True)
                    exit_code = runner.EXIT_HARNESS
                    break
                det['chunks'] += 1
                for i in t['indices']:
                    key = f"{t['config']['name']}:{i}"
                    det['runs'] += 1
                    if d.get(key) != agg.digests.get(key):
                        det['mismatches'] += 1
                        print(f'HARNESS-ERROR {prop}: nondeterministic run {key}: {agg.digests.get(key)} vs {d.get(key)}',
                              flush=True)
            if det['mismatches']:
                exit_code = runner.EXIT_HARNESS

    wall = time.time() - t0
    ev = mod.evidence(agg, info, plan, tier)
    ev_doc = {
        'property_id': prop,
        'tier': tier,
        'seed': int(verif_seed),
        'level': 'exploration',
        'coverage': ev['coverage'],
        'assumptions': ev['assumptions'],
        'wall_s': round(wall, 2),
        'violations': len(reported),
    }
    ev_doc['coverage']['determinism_recheck'] = det
    ev_doc['coverage']['known_findings_seen'] = len(known_lines)
    ev_doc['coverage']['exit_code'] = exit_code
    ev_doc['coverage']['runs_per_hour'] = int(agg.runs / max(info['wall_s'], 1e-6) * 3600)
    write_json(os.path.join(EVIDENCE_DIR, f'{prop}.json'), ev_doc)
    print(f'[{prop}] exit={exit_code} runs={agg.runs} distinct_nontrivial={ev["coverage"].get("distinct_nontrivial")} '
          f'wall={wall:.1f}s evidence=evidence/{prop}.json', flush=True)
    return exit_code


def replay_file_fresh(prop, path, rewrite=False):
    """Replay a file in a fresh interpreter; it must reproduce the recorded digest and oracle."""

    import subprocess
    env = dict(os.environ)
    env['PYTHONHASHSEED'] = '0'
    if rewrite:
        env['VERIF_REPLAY_REWRITE'] = '1'
    else:
        env.pop('VERIF_REPLAY_REWRITE', None)
    p = subprocess.run([runner.PY, os.path.join(VERIF_DIR, 'check.py'), prop, '--replay', path, '--quiet'],
                       capture_output=True, text=True, env=env, timeout=900, cwd=VERIF_DIR)
    if rewrite:
        return ('RE-RECORDED' in p.stdout), p.stdout[-300:]
    if p.returncode == runner.EXIT_VIOLATION and '\nREPRODUCED' in ('\n' + p.stdout):
        return True, ''
    return False, f'rc={p.returncode} out={p.stdout[-500:]} err={p.stderr[-1500:]}'


def replay(prop, path, quiet=False):
    """Replay a file in this interpreter: exit 1 + VIOLATION line when it reproduces."""

    import warnings
    warnings.simplefilter('ignore')
    mod = importlib.import_module(MODULES[prop])
    with open(path) as f:
        rec = json.load(f)
    junk = _perturb_heap(rec.get('heap_salt', 0))  # noqa: F841 - kept alive during the replay
    res = mod.replay_record(rec)
    v = res.get('violation')
    same_oracle = bool(v) and mod.signature({**rec, 'violation': v}) == mod.signature(rec)
    same_digest = res.get('digest') == rec.get('digest')
    if v and same_oracle and same_digest:
        print(f'REPRODUCED digest={res["digest"]}')
        print(f'VIOLATION property={prop} replay={path}')
        if not quiet:
            print('  ' + mod.describe({**rec, 'violation': v}).replace('\n', '\n  '))
        return runner.EXIT_VIOLATION
    if v and os.environ.get('VERIF_REPLAY_REWRITE') == '1':
        rec['violation'] = v
        rec['digest'] = res.get('digest')
        rec['signature'] = mod.signature(rec)
        rec['re_recorded_in_fresh_interpreter'] = True
        write_json(path, rec)
        print(f'RE-RECORDED digest={rec["digest"]}')
        return runner.EXIT_VIOLATION
    if v:
        print(f'VIOLATION property={prop} replay={path}')
        print(f'  (replayed run violates, but differs from the recording: same_oracle={same_oracle} '
              f'same_digest={same_digest}; the tree may have changed)')
        if not quiet:
            print('  ' + mod.describe({**rec, 'violation': v}).replace('\n', '\n  '))
        return runner.EXIT_VIOLATION
    print(f'NOT-REPRODUCED property={prop} replay={path}: the recorded schedule now passes '
          f'(digest {res.get("digest")} vs recorded {rec.get("digest")})')
    return runner.EXIT_OK


class _Junk:
    pass


def _perturb_heap(salt):
    """Allocate ``13 * salt`` plain instances (the size class of bs4 nodes) and free every other one."""

    if not salt:
        return None
    junk = [_Junk() for _ in range(13 * salt)]
    for j in junk:
        j.x = salt
    del junk[::2]
    return junk
