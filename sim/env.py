"""Loading the code under test behind the simulator's seams.

Nothing in /repo is modified.  The seams are applied from here:

* cache-bound knob: while ``soupsieve`` is being imported ``functools.lru_cache``
  is wrapped so that a decorator call made from a ``soupsieve.*`` module with
  the shipped pattern-cache bound (500) receives ``maxsize=K``.  The object
  created is still the real C LRU cache.
* lock seam: while ``soupsieve`` is being imported ``sys.modules['threading']``
  is a proxy whose ``Lock/RLock/Condition/Semaphore/BoundedSemaphore/Event``
  are the simulator-aware classes of :mod:`sim.sched` (they behave like plain
  non-blocking primitives outside a simulation).  ``threading.local`` stays real.

``VERIF_REPO`` (default ``/repo``) selects the tree, so mutants can be checked
on scratch copies.
"""
from __future__ import annotations

import functools
import importlib
import os
import sys
import types
import warnings

REPO = os.path.abspath(os.environ.get('VERIF_REPO', '/repo'))
SHIPPED_BOUND = 500

_real_lru_cache = functools.lru_cache
_state = {'bound': None, 'bound_applied': 0}


def repo_pkg_dir() -> str:
    return os.path.join(REPO, 'soupsieve') + os.sep


def _purge_modules() -> None:
    for k in list(sys.modules):
        if k == 'soupsieve' or k.startswith('soupsieve.'):
            del sys.modules[k]


def _make_threading_proxy():
    import threading as real
    from . import sched

    proxy = types.ModuleType('threading')
    proxy.__dict__.update(real.__dict__)
    proxy.Lock = sched.SimLock
    proxy.RLock = sched.SimRLock
    proxy.Condition = sched.SimCondition
    proxy.Semaphore = sched.SimSemaphore
    proxy.BoundedSemaphore = sched.SimSemaphore
    proxy.Event = sched.SimEvent
    proxy.__verif_proxy__ = True
    return proxy


def load_soupsieve(cache_bound: int | None = None, sim_locks: bool = True):
    """(Re-)import soupsieve from REPO under the seams; returns the package."""

    _purge_modules()
    if not sys.path or sys.path[0] != REPO:
        sys.path.insert(0, REPO)
    importlib.invalidate_caches()

    _state['bound'] = cache_bound
    _state['bound_applied'] = 0

    def lru_cache_seam(maxsize=128, typed=False):
        caller = sys._getframe(1).f_globals.get('__name__', '')
        if (
            _state['bound'] is not None and caller.startswith('soupsieve') and
            isinstance(maxsize, int) and not isinstance(maxsize, bool) and maxsize == SHIPPED_BOUND
        ):
            _state['bound_applied'] += 1
            return _real_lru_cache(maxsize=_state['bound'], typed=typed)
        return _real_lru_cache(maxsize, typed)

    real_threading = sys.modules.get('threading')
    # bs4 and the parsers are imported by soupsieve's own import chain; make sure the
    # third-party modules that do not depend on soupsieve are already loaded with the
    # real primitives, so the proxies are seen by soupsieve only.
    for mod in ('lxml.etree', 'html5lib', 'copyreg', 're', 'unicodedata', 'datetime'):
        try:
            importlib.import_module(mod)
        except Exception:  # pragma: no cover - optional
            pass

    functools.lru_cache = lru_cache_seam
    if sim_locks:
        sys.modules['threading'] = _make_threading_proxy()
    bound_finder = _BoundFinder(cache_bound) if cache_bound is not None and cache_bound != SHIPPED_BOUND else None
    if bound_finder is not None:
        sys.meta_path.insert(0, bound_finder)
    try:
        with warnings.catch_warnings():
            warnings.simplefilter('ignore')
            sv = importlib.import_module('soupsieve')
    finally:
        functools.lru_cache = _real_lru_cache
        if sim_locks and real_threading is not None:
            sys.modules['threading'] = real_threading
        if bound_finder is not None:
            try:
                sys.meta_path.remove(bound_finder)
            except ValueError:  # pragma: no cover
                pass
            _state['bound_applied'] += bound_finder.applied

    f = os.path.abspath(sv.__file__)
    if not f.startswith(repo_pkg_dir()):
        raise RuntimeError(f'soupsieve imported from {f}, expected under {REPO}')

    # Beautiful Soup keeps a reference to the soupsieve module it saw first; point it at the instance under test so
    # that calls made through Tag.select / Tag.css reach the same code and the same caches
    try:
        import bs4.css as _bcss
        _bcss.soupsieve = sv
    except Exception:  # pragma: no cover
        pass
    # A hand-written cache in a changed tree would most likely consult this constant.
    cp = sys.modules.get('soupsieve.css_parser')
    if cache_bound is not None and cp is not None:
        v = getattr(cp, '_MAXCACHE', None)
        if isinstance(v, int) and v == SHIPPED_BOUND:
            cp._MAXCACHE = cache_bound
    return sv


class _BoundFinder:
    """Cache-bound knob, second half: load soupsieve.css_parser with the literal ``_MAXCACHE = 500`` read as
    ``_MAXCACHE = K``.  The file on disk is untouched, file name and line numbers are unchanged; this also reaches a
    hand-written cache that captures the constant at import time (which the lru_cache wrapper cannot)."""

    def __init__(self, bound):
        self.bound = bound
        self.applied = 0

    def find_spec(self, name, path=None, target=None):
        if name != 'soupsieve.css_parser':
            return None
        import importlib.machinery
        import importlib.util
        import re as _re
        spec = importlib.machinery.PathFinder.find_spec(name, path, target)
        if spec is None or not getattr(spec, 'origin', None) or not spec.origin.endswith('.py'):
            return spec
        finder = self

        class Loader(importlib.machinery.SourceFileLoader):
            def get_data(self, path):
                data = super().get_data(path)
                if path.endswith('.py'):
                    new, n = _re.subn(rb'(?m)^(_MAXCACHE\s*=\s*)500\b', lambda m: m.group(1) + str(finder.bound).encode(),
                                      data)
                    if n:
                        finder.applied += n
                        return new
                return data

            def get_code(self, fullname):
                # never use or write a cached .pyc for the transformed source
                source = self.get_data(self.get_filename(fullname))
                return compile(source, self.get_filename(fullname), 'exec', dont_inherit=True)

        spec.loader = Loader(name, spec.origin)
        return spec


def cache_handle(sv):
    """Return the process-wide pattern cache object if it is introspectable, else None."""

    cp = sys.modules.get('soupsieve.css_parser')
    c = getattr(cp, '_cached_css_compile', None)
    if c is not None and hasattr(c, 'cache_info') and hasattr(c, 'cache_clear'):
        return c
    return None


def canonical_state(sv) -> None:
    """Bring process-wide state to the canonical starting point of a run."""

    sv.purge()
    util = sys.modules.get('soupsieve.util')
    low = getattr(util, 'lower', None)
    if low is not None and hasattr(low, 'cache_clear'):
        low.cache_clear()


def versions() -> dict:
    import bs4
    out = {'python': sys.version.split()[0], 'bs4': getattr(bs4, '__version__', '?')}
    try:
        import lxml.etree as e
        out['lxml'] = '.'.join(map(str, e.LXML_VERSION))
    except Exception:  # pragma: no cover
        out['lxml'] = None
    try:
        import html5lib
        out['html5lib'] = html5lib.__version__
    except Exception:  # pragma: no cover
        out['html5lib'] = None
    return out


class SlowOperation(Exception):
    """An operation in the main thread exceeded the wall-clock guard (e.g. regex backtracking)."""


class wall_guard:
    """Wall-clock guard for main-thread work: raises SlowOperation after ``seconds``.

    Only a safety net against stalls inside the C regex engine (which polls for signals); the
    workload generators avoid the input shapes known to cause them, so it is not expected to fire.
    """

    def __init__(self, seconds):
        self.seconds = seconds

    def _handler(self, signum, frame):
        raise SlowOperation()

    def __enter__(self):
        import signal
        import threading
        self.active = threading.current_thread() is threading.main_thread()
        if self.active:
            self.old = signal.signal(signal.SIGALRM, self._handler)
            signal.setitimer(signal.ITIMER_REAL, self.seconds)
        return self

    def __exit__(self, *a):
        if self.active:
            import signal
            import time
            signal.setitimer(signal.ITIMER_REAL, 0)
            signal.signal(signal.SIGALRM, self.old)
            if _OUTER['deadline'] is not None:
                signal.setitimer(signal.ITIMER_REAL, max(0.05, _OUTER['deadline'] - time.monotonic()))
        return False


_OUTER = {'deadline': None}


def set_outer_deadline(seconds):
    """Process-level watchdog for a forked run: SIGALRM with its default action (terminate) after ``seconds``.

    Works even while the interpreter is stuck inside C code holding the GIL.  ``wall_guard`` shares the
    timer and re-arms the remaining time when it exits.
    """

    import signal
    import time
    _OUTER['deadline'] = time.monotonic() + seconds
    signal.signal(signal.SIGALRM, signal.SIG_DFL)
    signal.setitimer(signal.ITIMER_REAL, seconds)
