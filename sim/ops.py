"""Operations the simulated callers perform, as plain data, and their executor.

An operation is a dict, e.g. ``{'op': 'select', 'key': 3, 'doc': 0, 'target': 5, 'limit': 0,
'form': 'module'}``; ``key`` indexes the run's key pool, ``doc`` the run's documents, ``target``
an element by document-order index (-1 = the document object).  Results are identity-free
fingerprints so they can be compared across runs, copies of a document and processes.
"""
from __future__ import annotations

from . import fingerprint as fp
from . import gen
from . import sched

QUERY_OPS = ('select', 'select_one', 'iselect', 'match', 'filter', 'closest')


class Ctx:
    """Everything an operation needs at run time."""

    def __init__(self, sv, keys, docspecs=(), docs=None):
        self.sv = sv
        self.keys = keys
        self.docspecs = list(docspecs)
        self.docs = []
        self.els = []
        self.idx = []
        for i, spec in enumerate(self.docspecs):
            soup = docs[i] if docs is not None else gen.build_doc(spec)
            self.add_doc(soup)
        self.pre = {}

    def add_doc(self, soup):
        els, idx = fp.index_doc(soup)
        self.docs.append(soup)
        self.els.append(els)
        self.idx.append(idx)
        return len(self.docs) - 1

    def target(self, d, t):
        if isinstance(t, (list, tuple)):
            # ('inner', i): the i-th element that has element children (the one a 'detach' edit with index i extracts)
            import bs4
            els = self.els[d]
            if not els:
                return self.docs[d]
            inner = [e for e in els if any(isinstance(c, bs4.Tag) for c in e.contents)] or els
            return inner[t[1] % len(inner)]
        if t < 0 or not self.els[d]:
            return self.docs[d]
        return self.els[d][t % len(self.els[d])]

    def el_index(self, d, el):
        if el is None:
            return None
        return self.idx[d].get(id(el), 'foreign')

    def precompile(self, k):
        """Compile key k once (outside any simulated operation) for the 'precompiled' form."""

        if k not in self.pre:
            key = self.keys[k]
            try:
                self.pre[k] = ('ok', self.sv.compile(key['pattern'], **gen.key_args(key)))
            except Exception as e:  # noqa: BLE001
                self.pre[k] = ('exc', e)
        return self.pre[k]


def run_op(ctx, op):
    """Execute one operation; return its fingerprint.  Exceptions propagate to the caller."""

    sv = ctx.sv
    kind = op['op']
    if kind == 'purge':
        sv.purge()
        return ('purged',)
    key = ctx.keys[op['key']]
    if kind == 'compile':
        obj = sv.compile(key['pattern'], **gen.key_args(key))
        with sched.untraced():
            return fp.fp_compiled(obj)

    d = op['doc']
    tgt = ctx.target(d, op.get('target', -1))
    form = op.get('form', 'module')
    limit = op.get('limit', 0)
    if form == 'bs4' and not op.get('items'):
        # through Beautiful Soup's own API (Tag.select / Tag.css.*), the way most users reach the library
        ns = dict(key['ns']) if key.get('ns') is not None else None
        kw = {}
        if key.get('flags'):
            kw['flags'] = key['flags']
        if key.get('custom') is not None:
            kw['custom'] = dict(key['custom'])
        css = tgt.css
        if kind == 'select':
            r = tgt.select(key['pattern'], ns, limit, **kw)
        elif kind == 'iselect':
            r = list(css.iselect(key['pattern'], ns, limit, **kw))
        elif kind == 'select_one':
            r = tgt.select_one(key['pattern'], ns, **kw)
        elif kind == 'match':
            r = css.match(key['pattern'], ns, **kw)
        elif kind == 'closest':
            r = css.closest(key['pattern'], ns, **kw)
        elif kind == 'filter':
            r = css.filter(key['pattern'], ns, **kw)
        else:
            raise ValueError(kind)
    elif form == 'module' or form == 'bs4':
        ns = dict(key['ns']) if key.get('ns') is not None else None
        flags = key.get('flags', 0)
        kw = {}
        if key.get('custom') is not None:
            kw['custom'] = dict(key['custom'])
        if kind == 'select':
            r = sv.select(key['pattern'], tgt, ns, limit, flags, **kw)
        elif kind == 'iselect':
            r = list(sv.iselect(key['pattern'], tgt, ns, limit, flags, **kw))
        elif kind == 'select_one':
            r = sv.select_one(key['pattern'], tgt, ns, flags, **kw)
        elif kind == 'match':
            r = sv.match(key['pattern'], tgt, ns, flags, **kw)
        elif kind == 'closest':
            r = sv.closest(key['pattern'], tgt, ns, flags, **kw)
        elif kind == 'filter':
            r = sv.filter(key['pattern'], _filter_arg(ctx, op, tgt), ns, flags, **kw)
        else:
            raise ValueError(kind)
    else:
        if form == 'precompiled':
            st, obj = ctx.precompile(op['key'])
            if st == 'exc':
                raise obj
        else:
            obj = sv.compile(key['pattern'], **gen.key_args(key))
        if kind == 'select':
            r = obj.select(tgt, limit)
        elif kind == 'iselect':
            r = list(obj.iselect(tgt, limit))
        elif kind == 'select_one':
            r = obj.select_one(tgt)
        elif kind == 'match':
            r = obj.match(tgt)
        elif kind == 'closest':
            r = obj.closest(tgt)
        elif kind == 'filter':
            r = obj.filter(_filter_arg(ctx, op, tgt))
        else:
            raise ValueError(kind)
    return fp_result(ctx, d, kind, r)


def _filter_arg(ctx, op, tgt):
    items = op.get('items')
    if items is None:
        return tgt
    out = []
    for dd, tt in items:
        if dd < 0:
            out.append('a string')
        else:
            out.append(ctx.target(dd % len(ctx.docs), tt))
    return out


def fp_result(ctx, d, kind, r):
    if kind == 'match':
        return ('bool', bool(r), type(r).__name__)
    if kind in ('select_one', 'closest'):
        return ('el', _any_index(ctx, d, r))
    return ('els', tuple(_any_index(ctx, d, e) for e in r))


def _any_index(ctx, d, el):
    if el is None:
        return None
    i = ctx.idx[d].get(id(el))
    if i is not None:
        return i
    for dd in range(len(ctx.docs)):
        i = ctx.idx[dd].get(id(el))
        if i is not None:
            return ('doc', dd, i)
    return 'foreign'


def safe_run(ctx, op):
    """run_op with exceptions turned into data."""

    try:
        return run_op(ctx, op)
    except Exception as e:  # noqa: BLE001
        return fp.fp_exc(e)
