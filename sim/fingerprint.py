"""Fingerprints: structural, identity-free descriptions of results and of documents."""
from __future__ import annotations

import hashlib
import re
from collections.abc import Mapping

_PATTERN = type(re.compile(''))


def h(obj, size=8) -> str:
    return hashlib.blake2b(repr(obj).encode('utf8', 'backslashreplace'), digest_size=size).hexdigest()


def short(e, n=300) -> str:
    s = str(e)
    return s if len(s) <= n else s[:n] + '...'


def fp_value(v, depth=0):
    """Structural fingerprint of any part of a compiled selector."""

    if depth > 200:
        return ('deep',)
    if isinstance(v, bool):
        # True == 1: a key passed with flags=True is *equal* to one passed with flags=1 and may legitimately be
        # served the same cached object, so the fingerprint must not tell them apart
        return ('int', int(v))
    if v is None or isinstance(v, (int, str, float, bytes)):
        return (type(v).__name__, v)
    if isinstance(v, _PATTERN):
        return ('re', v.pattern, v.flags)
    if isinstance(v, tuple):
        return ('tuple',) + tuple(fp_value(x, depth + 1) for x in v)
    if isinstance(v, list):
        return ('list',) + tuple(fp_value(x, depth + 1) for x in v)
    if isinstance(v, Mapping):
        try:
            items = sorted((fp_value(k, depth + 1), fp_value(x, depth + 1)) for k, x in v.items())
        except Exception as e:  # noqa: BLE001
            items = ('unsortable', type(e).__name__)
        return ('map', type(v).__name__, tuple(items))
    slots = _slots(v)
    if slots is not None:
        out = [type(v).__name__]
        for s in slots:
            if s.startswith('_'):
                # private slots (the precomputed hash, a lazily filled memo) are not part of the value; what they
                # can break - equality, hashing, pickling, selecting - is checked through behaviour
                continue
            try:
                out.append((s, fp_value(getattr(v, s), depth + 1)))
            except AttributeError:
                out.append((s, ('MISSING',)))
        return tuple(out)
    return ('obj', type(v).__name__, repr(v))


def _slots(v):
    names = []
    seen = set()
    for klass in type(v).__mro__:
        sl = klass.__dict__.get('__slots__')
        if sl is None:
            continue
        if isinstance(sl, str):
            sl = (sl,)
        for s in sl:
            if s not in seen:
                seen.add(s)
                names.append(s)
    if not names:
        return None
    if type(v).__module__.split('.')[0] != 'soupsieve':
        return None
    return names


def fp_compiled(obj):
    """('ok', digest, pattern) for a compiled SoupSieve, structural and identity free."""

    return ('ok', h(fp_value(obj), 12))


def fp_exc(e):
    if isinstance(e, RecursionError):
        # where exactly the interpreter runs out of stack (and therefore the wording) depends on the caller's own depth
        return ('exc', 'RecursionError', '')
    return ('exc', type(e).__name__, short(e))


# ---------------------------------------------------------------------------
# Documents
# ---------------------------------------------------------------------------

def index_doc(soup):
    """Return (elements list in document order, {id(el): index}).  Index -1 is the document."""

    import bs4
    els = [el for el in soup.descendants if isinstance(el, bs4.Tag)]
    idx = {id(el): i for i, el in enumerate(els)}
    idx[id(soup)] = -1
    return els, idx


def _typed(v, depth=0):
    if depth > 8:
        return 'deep'
    if isinstance(v, (list, tuple)):
        return (type(v).__name__,) + tuple(_typed(x, depth + 1) for x in v)
    if isinstance(v, dict):
        return ('dict',) + tuple((_typed(k, depth + 1), _typed(x, depth + 1)) for k, x in v.items())
    return (type(v).__name__, str(v) if not isinstance(v, bytes) else v)


def doc_fingerprint(soup):
    """Content + identity fingerprint of a live document.

    Returns (content_digest, identity_tuple).  The identity tuple holds ``id()`` values and is
    only ever compared inside the process, never logged.
    """

    import bs4
    content = []
    ident = []
    nodes = [soup]
    nodes.extend(soup.descendants)
    for n in nodes:
        if isinstance(n, bs4.Tag):
            attrs = n.attrs
            content.append((
                type(n).__name__, n.name, n.prefix, n.namespace,
                tuple((_typed(k), _typed(v)) for k, v in attrs.items()),
                len(n.contents), bool(getattr(n, 'hidden', False)),
                tuple(sorted(k for k in vars(n))),
                getattr(n, 'can_be_empty_element', None), getattr(n, '_is_xml', None),
            ))
            ident.append((
                id(n), id(attrs), id(n.contents), tuple(id(c) for c in n.contents),
                tuple(id(v) for v in attrs.values()),
                id(n.parent), id(n.next_element), id(n.previous_element),
                id(n.next_sibling), id(n.previous_sibling),
            ))
        else:
            content.append((type(n).__name__, str(n), tuple(sorted(k for k in vars(n))) if hasattr(n, '__dict__') else ()))
            ident.append((
                id(n), id(n.parent), id(n.next_element), id(n.previous_element),
                id(n.next_sibling), id(n.previous_sibling),
            ))
    try:
        ser = soup.decode()
    except Exception as e:  # noqa: BLE001
        ser = 'decode-failed:' + type(e).__name__
    return h((ser, content), 12), tuple(ident)
