"""Seeded workload generators: documents and selectors.

These are *inputs to* the simulation (what the simulated callers ask for), not the thing
being decided.  Everything is drawn from the ``random.Random`` passed in; everything that is
generated is plain data (strings, lists, dicts) so it can be written into a replay file.
"""
from __future__ import annotations

NS_XHTML = 'http://www.w3.org/1999/xhtml'
NS_SVG = 'http://www.w3.org/2000/svg'
NS_MATH = 'http://www.w3.org/1998/Math/MathML'
NS_X = 'urn:x-test'
NS_Y = 'urn:y-test'

LANGS = ['en', 'en-US', 'de', 'de-DE', 'de-Latn-DE', 'fr', 'zh-Hans-CN', '', 'ar', 'EN', 'und']
IDS = ['d0', 'd1', 'd2', 'd3', 'd4', 'd5', 'd6', 'd7']
CLASSES = ['a', 'b', 'c', 'x-y', 'A']
TEXTS = ['hello', 'world', 'foo bar', 'שלום', 'مرحبا', ' ', '\n', 'Test 123', 'a', '']
RADIO_NAMES = ['r1', 'r2', '', 'R1']
INPUT_TYPES = ['text', 'radio', 'checkbox', 'submit', 'number', 'date', 'time', 'week', 'month', 'range',
               'hidden', 'tel', 'email', 'search', 'url', 'password', 'datetime-local', 'SUBMIT', 'Radio']
HTML_PARSERS = ['html.parser', 'lxml', 'html5lib']


# ---------------------------------------------------------------------------
# documents
# ---------------------------------------------------------------------------

def _attrs(rng, extra=None, xml=False):
    out = []
    if rng.random() < 0.35:
        out.append(('id', rng.choice(IDS)))
    if rng.random() < 0.4:
        out.append(('class', ' '.join(rng.sample(CLASSES, rng.randint(1, 3)))))
    if rng.random() < 0.15:
        out.append(('xml:lang' if xml and rng.random() < 0.7 else 'lang', rng.choice(LANGS)))
    if rng.random() < 0.1:
        out.append(('dir', rng.choice(['ltr', 'rtl', 'auto', 'LTR', 'bogus'])))
    if rng.random() < 0.1:
        out.append((rng.choice(['data-x', 'title', 'DATA-Y']), rng.choice(['1', 'two', 'a b', ''])))
    if extra:
        out.extend(extra)
    seen = set()
    s = ''
    for k, v in out:
        if k in seen:
            continue
        seen.add(k)
        v = v.replace('&', '&amp;').replace('"', '&quot;').replace('<', '&lt;')
        s += f' {k}="{v}"'
    return s


def _text(rng):
    return rng.choice(TEXTS) if rng.random() < 0.6 else ''


RANGE_TYPES = ('number', 'range', 'date', 'month', 'week', 'time', 'datetime-local')
CROSS_TYPE_VALUES = ['10', '5', '0', '2020-01', '2020-W10', '08:00', '2020-01-01', '2020', '12:30', '2020-12', '7', '2020-01-01T00:00']


def _input(rng):
    # radios / checkboxes / submit buttons drive :indeterminate, :default and :checked, so they are over-represented
    t = rng.choice(INPUT_TYPES) if rng.random() < 0.45 else rng.choice(
        ['radio', 'radio', 'radio', 'radio', 'checkbox', 'submit', 'Radio'])
    extra = []
    if rng.random() < 0.9:
        extra.append(('type', t))
    tl = t.lower()
    if tl == 'radio':
        if rng.random() < 0.85:
            extra.append(('name', rng.choice(RADIO_NAMES)))
        if rng.random() < 0.3:
            extra.append(('checked', ''))
    elif tl == 'checkbox':
        if rng.random() < 0.3:
            extra.append(('checked', ''))
        if rng.random() < 0.2:
            extra.append(('indeterminate', ''))
    elif tl in RANGE_TYPES and rng.random() < 0.25:
        # the same strings under different input types: a value syntax is only meaningful together with its type
        for k in ('min', 'max', 'value'):
            if rng.random() < 0.7:
                extra.append((k, rng.choice(CROSS_TYPE_VALUES)))
    elif tl in ('number', 'range'):
        for k in ('min', 'max', 'value'):
            if rng.random() < 0.6:
                extra.append((k, rng.choice(['0', '5', '10', '-1', '2.5', 'x', ''])))
    elif tl in ('date', 'month', 'week', 'time', 'datetime-local'):
        vals = {
            'date': ['2020-01-01', '2020-02-30', '1999-12-31', '2021-06-15', 'bad'],
            'month': ['2020-01', '2020-13', '1999-12', '2021-06'],
            'week': ['2020-W01', '2020-W53', '2021-W53', '1999-W10'],
            'time': ['00:00', '12:30', '23:59', '24:00', '08:00'],
            'datetime-local': ['2020-01-01T00:00', '2021-06-15T12:30', '2020-02-30T10:00'],
        }[tl]
        for k in ('min', 'max', 'value'):
            if rng.random() < 0.6:
                extra.append((k, rng.choice(vals)))
    else:
        if rng.random() < 0.3:
            extra.append(('placeholder', rng.choice(['p', ''])))
        if rng.random() < 0.3:
            extra.append(('value', rng.choice(['', 'v', 'שלום'])))
    for flag in ('disabled', 'required', 'readonly'):
        if rng.random() < 0.12:
            extra.append((flag, ''))
    return f'<input{_attrs(rng, extra)}>'


def _radio_block(rng):
    # a handful of radios over a tiny name set (case variants, empty, missing): dense, adversarial radio groups
    names = rng.sample(['r1', 'R1', 'r2', '', None], 2)
    out = []
    for _ in range(rng.randint(2, 5)):
        nm = rng.choice(names)
        extra = [('type', rng.choice(['radio', 'radio', 'radio', 'RADIO']))]
        if nm is not None:
            extra.append(('name', nm))
        if rng.random() < 0.3:
            extra.append(('checked', ''))
        out.append(f'<input{_attrs(rng, extra)}>')
    return ''.join(out)


def _range_block(rng):
    # a handful of range-type inputs of DIFFERENT types over a tiny set of value strings: what a string means depends
    # on the type it is read under
    vals = rng.sample(CROSS_TYPE_VALUES, 3)
    out = []
    for t in rng.sample(RANGE_TYPES, rng.randint(2, 4)):
        extra = [('type', t)]
        for k in ('min', 'max', 'value'):
            if rng.random() < 0.75:
                extra.append((k, rng.choice(vals)))
        out.append(f'<input{_attrs(rng, extra)}>')
    return ''.join(out)


def _form(rng, depth, budget):
    parts = []
    n = rng.randint(1, 5)
    if rng.random() < 0.3:
        parts.append(_radio_block(rng))
        budget[0] -= 2
    if rng.random() < 0.2:
        parts.append(_range_block(rng))
        budget[0] -= 2
    for _ in range(n):
        if budget[0] <= 0:
            break
        budget[0] -= 1
        r = rng.random()
        if r < 0.5:
            parts.append(_input(rng))
        elif r < 0.65:
            extra = [('type', rng.choice(['submit', 'button', 'reset', 'Submit']))] if rng.random() < 0.8 else []
            parts.append(f'<button{_attrs(rng, extra)}>{_text(rng)}</button>')
        elif r < 0.75:
            opts = ''.join(
                f'<option{_attrs(rng, [("selected", "")] if rng.random() < 0.3 else None)}>{_text(rng)}</option>'
                for _ in range(rng.randint(1, 3))
            )
            if rng.random() < 0.4:
                opts = f'<optgroup{_attrs(rng, [("disabled", "")] if rng.random() < 0.4 else None)}>{opts}</optgroup>'
            parts.append(f'<select{_attrs(rng)}>{opts}</select>')
        elif r < 0.85:
            inner = _form_children(rng, depth + 1, budget)
            leg = f'<legend>{_text(rng)}{_input(rng) if rng.random() < 0.3 else ""}</legend>' if rng.random() < 0.5 else ''
            parts.append(f'<fieldset{_attrs(rng, [("disabled", "")] if rng.random() < 0.4 else None)}>{leg}{inner}</fieldset>')
        elif r < 0.92:
            extra = [('placeholder', 'p')] if rng.random() < 0.5 else []
            parts.append(f'<textarea{_attrs(rng, extra)}>{rng.choice(["", chr(10), "txt", "שלום"])}</textarea>')
        else:
            parts.append(f'<progress{_attrs(rng, [("value", "1")] if rng.random() < 0.5 else None)}></progress>')
    if rng.random() < 0.35:
        parts.append('<input type="submit">' if rng.random() < 0.5 else '<button type="submit">go</button>')
    return f'<form{_attrs(rng)}>{"".join(parts)}</form>'


def _form_children(rng, depth, budget):
    return ''.join(_input(rng) for _ in range(rng.randint(1, 3)))


def _node(rng, depth, budget, allow_form=True):
    if budget[0] <= 0:
        return ''
    budget[0] -= 1
    r = rng.random()
    if r < 0.13 and allow_form:
        return _form(rng, depth, budget)
    if r < 0.2:
        return _input(rng) if rng.random() < 0.8 else _radio_block(rng)
    if r < 0.25:
        return f'<a{_attrs(rng, [("href", "#x")] if rng.random() < 0.7 else None)}>{_text(rng)}</a>'
    if r < 0.28:
        return f'<!-- {rng.choice(["c", "note", ""])} -->'
    if r < 0.31 and depth < 3:
        inner = ''.join(_node(rng, depth + 2, budget) for _ in range(rng.randint(0, 3)))
        head = ''
        if rng.random() < 0.5:
            head = '<head>' + _meta(rng) + '</head>'
        return (
            f'<iframe{_attrs(rng)}><html{_attrs(rng)}>{head}<body>{inner}</body></html></iframe>'
        )
    if r < 0.34:
        return f'<svg{_attrs(rng)}><circle r="1"></circle><title>{_text(rng)}</title></svg>'
    if r < 0.36:
        return f'<math{_attrs(rng)}><mi>x</mi></math>'
    if r < 0.40:
        ce = rng.choice(['x-foo', 'my-el', 'X-Bar'])
        return f'<{ce}{_attrs(rng)}>{_text(rng)}</{ce}>'
    if r < 0.44:
        return f'<bdi{_attrs(rng)}>{_text(rng)}</bdi>'
    tag = rng.choice(['div', 'p', 'span', 'ul', 'li', 'section', 'b', 'em', 'P', 'DIV'])
    if depth >= 5:
        return f'<{tag}{_attrs(rng)}>{_text(rng)}</{tag}>'
    kids = []
    for _ in range(rng.randint(0, 4)):
        if rng.random() < 0.35:
            kids.append(_text(rng))
        elif kids and rng.random() < 0.12:
            # real documents repeat themselves: the same fragment pasted twice (identical content, distinct nodes)
            kids.append(rng.choice(kids))
        else:
            kids.append(_node(rng, depth + 1, budget, allow_form))
    return f'<{tag}{_attrs(rng)}>{"".join(kids)}</{tag}>'


def _meta(rng):
    r = rng.random()
    out = ''
    if r < 0.15:
        return out
    if r < 0.3:
        out += '<title>t</title>'
    if rng.random() < 0.6:
        out += '<meta http-equiv="%s" content="%s">' % (
            rng.choice(['content-language', 'Content-Language', 'content-type']),
            rng.choice(['en', 'de-DE', '', 'fr', 'en-US'])
        )
    if rng.random() < 0.25:
        out += '<meta http-equiv="content-language" content="%s">' % rng.choice(['fr', 'de', ''])
    if rng.random() < 0.2:
        out += '<meta charset="utf-8">'
    return out


def gen_markup_html(rng, size):
    budget = [size]
    parts = []
    while budget[0] > 0 and sum(map(len, parts)) < 6000:
        big = [x for x in parts if x.startswith(('<form', '<div', '<section', '<ul', '<p'))]
        if big and rng.random() < 0.18:
            # the same fragment (a whole form, a block) pasted again: structurally identical, distinct nodes
            parts.append(rng.choice(big))
            budget[0] -= 2
        else:
            parts.append(_node(rng, 0, budget))
        if rng.random() < 0.15:
            break
    if rng.random() < 0.25:
        parts.insert(rng.randrange(len(parts) + 1), rng.choice(['<!-- note -->', '<!--[if IE]>x<![endif]-->', ' text ']))
    body = ''.join(parts)
    shape = rng.random()
    if shape < 0.6:
        head = '<head>' + _meta(rng) + '</head>' if rng.random() < 0.85 else ''
        doctype = '<!DOCTYPE html>' if rng.random() < 0.5 else ''
        return f'{doctype}<html{_attrs(rng)}>{head}<body{_attrs(rng)}>{body}</body></html>'
    if shape < 0.8:
        return body or '<p>x</p>'
    if shape < 0.9:
        # several top-level nodes / text around the root
        return f'<div{_attrs(rng)}>{body}</div>' + rng.choice(['', 'tail', '<p>second</p>', '<!-- c -->'])
    return f'<html><body>{body}</body></html>'


def _xml_radio_block(rng):
    # dense radio groups for XML / XHTML trees, with the letter case of attribute names and values varied
    names = rng.sample(['r1', 'R1', 'r2'], 2)
    out = []
    for _ in range(rng.randint(2, 4)):
        a = ' %s="%s"' % (rng.choice(['type', 'type', 'type', 'TYPE']), rng.choice(['radio', 'radio', 'radio', 'RADIO']))
        a += ' %s="%s"' % (rng.choice(['name', 'name', 'name', 'NAME']), rng.choice(names))
        if rng.random() < 0.4:
            a += ' %s="checked"' % rng.choice(['checked', 'checked', 'CHECKED', 'Checked'])
        out.append(f'<input{a}/>')
    body = ''.join(out)
    return f'<form>{body}</form>' if rng.random() < 0.6 else body


def _xml_node(rng, depth, budget):
    if budget[0] <= 0:
        return ''
    budget[0] -= 1
    if rng.random() < 0.12:
        budget[0] -= 2
        return _xml_radio_block(rng)
    r = rng.random()
    pre = rng.choice(['', '', 'x:', 'h:', 's:'])
    name = rng.choice(['item', 'Item', 'row', 'p', 'div', 'a', 'input', 'input', 'form', 'x-foo'])
    attrs = _attrs(rng, None, xml=True)
    if rng.random() < 0.2:
        attrs += ' x:k="%s"' % rng.choice(['1', 'v'])
    if rng.random() < 0.15 and name == 'a':
        attrs += ' href="#"'
    if name == 'input':
        # XML keeps the case of attribute names and values: CHECKED is not checked, RADIO is not radio
        attrs += ' %s="%s"' % (rng.choice(['type', 'type', 'type', 'TYPE']),
                               rng.choice(['radio', 'submit', 'text', 'number', 'checkbox', 'radio', 'radio', 'RADIO']))
        if rng.random() < 0.6:
            attrs += ' %s="%s"' % (rng.choice(['name', 'name', 'name', 'NAME']), rng.choice(['r1', 'r1', 'R1']))
        if rng.random() < 0.45:
            attrs += ' %s="checked"' % rng.choice(['checked', 'checked', 'CHECKED', 'Checked'])
        if rng.random() < 0.2:
            attrs += ' %s="disabled"' % rng.choice(['disabled', 'DISABLED'])
    if depth >= 4 or r < 0.3:
        t = _text(rng).replace('&', '').replace('<', '')
        if rng.random() < 0.1:
            t = '<![CDATA[cd]]>'
        return f'<{pre}{name}{attrs}>{t}</{pre}{name}>'
    kids = ''.join(_xml_node(rng, depth + 1, budget) for _ in range(rng.randint(0, 4)))
    return f'<{pre}{name}{attrs}>{kids}</{pre}{name}>'


def gen_markup_xml(rng, size):
    budget = [size]
    xhtml = rng.random() < 0.5
    nsdecl = f' xmlns:x="{NS_X}" xmlns:h="{NS_XHTML}" xmlns:s="{NS_SVG}"'
    if rng.random() < 0.25:
        # the same prefix bound to another namespace: a prefix means nothing without the document's declarations
        nsdecl = f' xmlns:x="{NS_Y}" xmlns:h="{NS_XHTML}" xmlns:s="{NS_SVG}"' if rng.random() < 0.7 else \
            f' xmlns:x="{NS_X}" xmlns:h="{NS_SVG}" xmlns:s="{NS_XHTML}"'
    if xhtml:
        body = ''.join(_xml_node(rng, 1, budget) for _ in range(rng.randint(1, 5)))
        head = '<head><meta http-equiv="content-language" content="%s"/></head>' % rng.choice(['en', 'de', ''])
        if rng.random() < 0.4:
            head = '<head/>' if rng.random() < 0.5 else ''
        return (
            f'<?xml version="1.0" encoding="UTF-8"?><html xmlns="{NS_XHTML}"{nsdecl}{_attrs(rng, None, True)}>'
            f'{head}<body>{body}</body></html>'
        )
    body = ''.join(_xml_node(rng, 1, budget) for _ in range(rng.randint(1, 5)))
    default = f' xmlns="{rng.choice([NS_X, NS_XHTML])}"' if rng.random() < 0.3 else ''
    return f'<?xml version="1.0"?><root{default}{nsdecl}{_attrs(rng, None, True)}>{body}</root>'


ODD_VALUES = [
    {'t': 'list', 'v': ['a', 'b']},
    {'t': 'list', 'v': []},
    {'t': 'int', 'v': 5},
    {'t': 'none'},
    {'t': 'bytes', 'v': 'abc'},
    {'t': 'nested', 'v': [['a'], 'b']},
    {'t': 'float', 'v': 2.5},
    {'t': 'tuple', 'v': ['a', 'c']},
    {'t': 'str', 'v': 'en'},
]


def decode_value(spec):
    t = spec['t']
    if t == 'list':
        return list(spec['v'])
    if t == 'int':
        return int(spec['v'])
    if t == 'none':
        return None
    if t == 'bytes':
        return spec['v'].encode('utf8')
    if t == 'nested':
        return [list(x) if isinstance(x, list) else x for x in spec['v']]
    if t == 'float':
        return float(spec['v'])
    if t == 'tuple':
        return tuple(spec['v'])
    return spec['v']


def gen_doc(rng, max_size=40, parsers=None, odd=0.15):
    """Return a document spec: {'markup', 'parser', 'mut': [[el_index, attr, value-spec], ...]}."""

    size = rng.randint(4, max_size)
    if rng.random() < 0.22:
        markup = gen_markup_xml(rng, size)
        parser = 'xml' if rng.random() < 0.75 else rng.choice(HTML_PARSERS)
    else:
        markup = gen_markup_html(rng, size)
        parser = rng.choice(parsers or HTML_PARSERS)
        if rng.random() < 0.04:
            parser = 'xml'
    mut = []
    if rng.random() < odd:
        for _ in range(rng.randint(1, 3)):
            mut.append([
                rng.randint(0, 60),
                rng.choice(['class', 'id', 'lang', 'type', 'type', 'name', 'data-x', 'dir', 'value', 'href']),
                rng.choice(ODD_VALUES)
            ])
    spec = {'markup': markup, 'parser': parser, 'mut': mut}
    if rng.random() < 0.1:
        # a detached fragment: one element is extracted from the tree and *it* becomes the document root
        # (parentless Tag, no BeautifulSoup object above it)
        spec['detach'] = rng.randint(0, 60)
    return spec


def build_doc(spec):
    """Parse a document spec into a BeautifulSoup object (applies API mutations)."""

    import warnings
    import bs4
    with warnings.catch_warnings():
        warnings.simplefilter('ignore')
        soup = bs4.BeautifulSoup(spec['markup'], spec['parser'])
    if spec.get('mut'):
        els = [e for e in soup.descendants if isinstance(e, bs4.Tag)]
        inputs = [e for e in els if e.name and e.name.lower().endswith('input')]
        if els:
            for i, attr, val in spec['mut']:
                pool = inputs if (inputs and attr in ('type', 'name', 'value') and i % 3) else els
                pool[i % len(pool)].attrs[attr] = decode_value(val)
    if spec.get('detach') is not None:
        els = [e for e in soup.descendants if isinstance(e, bs4.Tag)]
        if els:
            inner = [e for e in els if any(isinstance(c, bs4.Tag) for c in e.contents)] or els
            return inner[spec['detach'] % len(inner)].extract()
    return soup


# ---------------------------------------------------------------------------
# user edits of a live tree between queries (the answers must follow the tree, not the history)
# ---------------------------------------------------------------------------

EDIT_ATTRS = [('class', 'a'), ('class', 'b c'), ('class', 'x'), ('id', 'd1'), ('id', 'zz'), ('lang', 'en'), ('lang', 'de'),
              ('lang', ''), ('xml:lang', 'en'), ('dir', 'rtl'), ('dir', 'ltr'), ('dir', 'auto'), ('checked', ''),
              ('disabled', ''), ('required', ''), ('selected', ''), ('open', ''), ('type', 'radio'), ('type', 'checkbox'),
              ('type', 'text'), ('type', 'submit'), ('type', 'number'), ('type', 'week'), ('type', 'time'), ('type', 'month'),
              ('type', 'range'), ('type', 'date'), ('value', '10'), ('value', '2020-01'), ('min', '0'), ('max', '2020-W10'),
              ('name', 'r1'), ('name', 'r2'), ('href', '#e'),
              ('value', '3'), ('value', '99'), ('min', '5'), ('max', '1'), ('content', 'fr'), ('http-equiv', 'content-language'),
              ('placeholder', 'p'), ('k', '1'), ('K', '2'), ('multiple', ''), ('readonly', ''), ('contenteditable', 'true')]
EDIT_TAGS = [('p', {}), ('p', {'class': 'a'}), ('span', {'lang': 'de'}), ('li', {'class': 'c'}), ('input', {'type': 'radio', 'name': 'r1', 'checked': ''}),
             ('input', {'type': 'submit'}), ('a', {'href': '#n'}), ('div', {'dir': 'rtl'}), ('option', {'selected': ''}),
             ('meta', {'http-equiv': 'content-language', 'content': 'de'}), ('item', {'k': '1'}), ('button', {})]


# selectors whose answer an edit of that kind is likely to change (asked before and after the edit)
EDIT_ALIGNED = {
    'text': [':-soup-contains-own(hello)', 'p:-soup-contains-own(zzz)', ':-soup-contains-own(x, bar)',
             ':-soup-contains(hello)', ':-soup-contains-own(world)', ':-soup-contains("foo bar", x)', ':empty', 'p:not(:empty)',
             ':-soup-contains(Test) > *', ':dir(auto)', 'bdi:dir(rtl), :dir(ltr)', ':has(:-soup-contains-own(a))'],
    'class': ['.a', '.b.c', '.x', ':nth-child(1 of .a)', ':not(.a)', '[class~=b]', ':is(.a, .x) > *', ':nth-last-child(1 of .x)'],
    'id': ['#d1', '#zz', '[id]', ':not(#d1)', '#d1 ~ *'],
    'lang': [':lang(en)', ':lang(de)', ':lang("")', ':lang("*")', 'p:lang(fr)', ':not(:lang(en))', ':lang(de) > :lang(en)'],
    'dir': [':dir(rtl)', ':dir(ltr)', ':dir(rtl) > :dir(ltr)', ':not(:dir(ltr))'],
    'form': [':checked', ':indeterminate', ':default', ':disabled', ':enabled', ':required', ':optional', ':read-write',
             ':in-range', ':out-of-range', ':placeholder-shown', 'input:not(:checked)', ':default, :indeterminate',
             'option:checked', ':link', ':any-link'],
    'attr': ['[k]', '[k="1"]', '[K]', '[type=radio]', '[type="RADIO" i]', '[href^="#"]', '[value]', '[name=r1]', '[content]'],
    'struct': [':-soup-contains-own(hello)', ':-soup-contains-own(a, x)', ':root', ':root > *', 'html:root', ':root :first-child', ':root > p', ':root', '* > p',
               ':first-child', ':last-child', ':only-child', ':nth-child(2)', ':nth-last-child(1 of p)', ':empty', ':root',
               ':has(> p)', ':has(+ p)', 'p ~ p', ':nth-of-type(2)', ':only-of-type', 'li:nth-child(2 of .c) li:nth-child(1)',
               ':default', ':indeterminate', ':lang(de)', ':dir(rtl)', 'form :checked', ':not(:has(*))'],
}
_FORM_ATTRS = {'checked', 'disabled', 'required', 'selected', 'type', 'name', 'href', 'value', 'min', 'max', 'placeholder',
               'multiple', 'readonly', 'open', 'contenteditable'}


def edit_family(edit):
    kind = edit[0]
    if kind in ('text', 'addtext'):
        return 'text'
    if kind in ('move', 'remove', 'new', 'wrap', 'unwrap', 'top', 'detach'):
        return 'struct'
    name = edit[2]
    if isinstance(name, int):
        return 'attr'
    if name in ('class', 'id', 'dir'):
        return name
    if name in ('lang', 'xml:lang', 'content', 'http-equiv'):
        return 'lang'
    if name in _FORM_ATTRS:
        return 'form'
    return 'attr'


_KEEP_ALIVE = []


def gen_edit(rng):
    r = rng.random()
    i = rng.randint(0, 60)
    if r < 0.07:
        # an attribute set through the API to something that is not a string (matchers may raise on it: a natural
        # exception, which must leave nothing behind)
        name = rng.choice(['type', 'type', 'type', 'name', 'class', 'lang', 'dir', 'value', 'href', 'id'])
        # form-related attributes go to an <input> when the tree has one
        return ['oddattr', i, name, rng.choice(ODD_VALUES), 'input' if name in ('type', 'name', 'value') else None]
    if r < 0.38:
        name, val = rng.choice(EDIT_ATTRS)
        return ['attr', i, name, val]
    if r < 0.58:
        if rng.random() < 0.5:
            return ['delattr', i, rng.randint(0, 5)]    # the n-th attribute the element has
        return ['delattr', i, rng.choice(['class', 'id', 'lang', 'dir', 'checked', 'disabled', 'type', 'name', 'href', 'value',
                                          'required', 'selected', 'content', 'xml:lang', 'k'])]
    if r < 0.66:
        return ['text', i, rng.choice(TEXTS + ['hello world', 'x'])]
    if r < 0.70:
        # tag.append("more text"): the element ends up with two text nodes in a row (no parser produces that)
        return ['addtext', i, rng.choice(['hello', ' world', 'x', 'bar'])]
    if r < 0.80:
        return ['move', i, rng.randint(0, 60)]
    if r < 0.85:
        return ['remove', i]
    if r < 0.89:
        # wrap / unwrap an element (half of the time the document element itself: the root changes)
        return [rng.choice(['wrap', 'wrap', 'unwrap']), i if rng.random() < 0.5 else 0, rng.choice(['section', 'div', 'html'])]
    if r < 0.91:
        name, attrs = rng.choice(EDIT_TAGS)
        return ['top', rng.choice([0, 99]), name, dict(attrs)]      # a new top-level node before / after the root
    if r < 0.945:
        return ['detach', i]    # the user extracts a subtree and goes on working with it
    name, attrs = rng.choice(EDIT_TAGS)
    return ['new', i, name, dict(attrs), rng.randint(0, 3)]


def apply_edit(root, edit):
    """Apply one user edit to a parsed tree through the public Beautiful Soup API.  Elements are addressed by their
    document-order index modulo the number of elements, so the same edit list applies to any copy of the document.
    Returns (root, changed): 'detach' makes the extracted subtree the tree the caller goes on with."""

    changed = _apply_edit(root, edit)
    if isinstance(changed, tuple):
        return changed
    return root, changed


def _maker(root):
    import bs4
    return root if isinstance(root, bs4.BeautifulSoup) else bs4.BeautifulSoup('', 'html.parser')


def _apply_edit(root, edit):
    import bs4
    els = [e for e in root.descendants if isinstance(e, bs4.Tag)]
    if not els:
        return False
    kind = edit[0]
    if kind == 'top':
        t = _maker(root).new_tag(edit[2], attrs=dict(edit[3]))
        root.insert(min(edit[1], len(root.contents)), t)
        return True
    el = els[edit[1] % len(els)]
    if kind == 'wrap':
        if el.parent is None:
            return False
        el.wrap(_maker(root).new_tag(edit[2], attrs={'id': 'w'}))
        return True
    if kind == 'unwrap':
        if el.parent is None or len(els) < 3:
            return False
        el.unwrap()
        return True
    if kind == 'detach':
        inner = [e for e in els if any(isinstance(c, bs4.Tag) for c in e.contents)] or els
        el = inner[edit[1] % len(inner)]
        if el.parent is None:
            return False
        _KEEP_ALIVE.append(root)    # the rest of the old tree stays alive, as it would in the caller's program
        del _KEEP_ALIVE[:-8]
        return el.extract(), True
    if kind == 'attr':
        el[edit[2]] = edit[3]
        return True
    if kind == 'oddattr':
        if len(edit) > 4 and edit[4]:
            sub = [e for e in els if e.name and e.name.lower().endswith(edit[4])]
            if sub:
                el = sub[edit[1] % len(sub)]
        el.attrs[edit[2]] = decode_value(edit[3])
        return True
    if kind == 'delattr':
        if isinstance(edit[2], int):
            names = sorted(el.attrs)
            if not names:
                return False
            del el[names[edit[2] % len(names)]]
            return True
        if edit[2] in el.attrs:
            del el[edit[2]]
            return True
        return False
    if kind == 'text':
        for c in el.contents:
            if type(c) is bs4.NavigableString:
                c.replace_with(bs4.NavigableString(edit[2]))
                return True
        el.append(bs4.NavigableString(edit[2]))
        return True
    if kind == 'addtext':
        el.append(bs4.NavigableString(edit[2]))
        return True
    if kind == 'move':
        dst = els[edit[2] % len(els)]
        if dst is el or any(p is el for p in dst.parents) or el.parent is None:
            return False
        dst.append(el.extract())
        return True
    if kind == 'remove':
        if len(els) < 3 or el.parent is None:
            return False
        el.extract()
        return True
    if kind == 'new':
        t = _maker(root).new_tag(edit[2], attrs=dict(edit[3]))
        el.insert(min(edit[4], len(el.contents)), t)
        return True
    raise ValueError(edit)


def build_state(specs, state):
    """A slot state is a spec index, or [spec index, [edits...]]: the spec parsed afresh, then edited."""

    if isinstance(state, int):
        return build_doc(specs[state])
    soup = build_doc(specs[state[0]])
    for e in state[1]:
        soup, _ = apply_edit(soup, e)
    return soup


# ---------------------------------------------------------------------------
# selectors
# ---------------------------------------------------------------------------

SIMPLE_PSEUDO = [
    ':any-link', ':empty', ':first-child', ':first-of-type', ':in-range', ':out-of-range', ':last-child',
    ':last-of-type', ':link', ':only-child', ':only-of-type', ':root', ':checked', ':default', ':disabled',
    ':enabled', ':indeterminate', ':optional', ':placeholder-shown', ':read-only', ':read-write', ':required',
    ':defined',
]
STATEFUL_PSEUDO = [':default', ':indeterminate', ':root', ':defined', ':checked', ':in-range', ':link', ':disabled']
NOMATCH_PSEUDO = [':active', ':focus', ':hover', ':visited', ':target', ':paused', ':current', ':host']
TAGS = ['div', 'p', 'span', 'a', 'input', 'form', 'li', 'ul', 'button', 'option', 'select', 'textarea', 'fieldset',
        'html', 'body', 'head', 'meta', 'iframe', 'bdi', 'svg', 'circle', 'x-foo', 'item', 'row', 'root', 'DIV', '*',
        'section', 'b', 'em', 'legend', 'optgroup', 'progress', 'title', 'mi']
ATTRS = ['id', 'class', 'type', 'name', 'href', 'lang', 'dir', 'checked', 'disabled', 'value', 'data-x', 'title',
         'min', 'max', 'placeholder', 'TYPE', 'k', 'selected', 'required']
NTH = ['1', '2', '3', 'odd', 'even', 'n', '2n', '2n+1', '-n+3', '3n-1', 'n+2', '-2n+5', '0n+1', '+n', '-n', '2N + 1',
       '10', '0']
LANG_ARGS = ['en', 'de', '"en-US"', "'de-DE'", '"*-DE"', 'fr', '""', '"*"', 'en, de', '"de-*-DE"', 'EN', 'zh',
             "''", 'ar', 'und', '"en", ""']
CONTAINS_ARGS = ['hello', '"foo bar"', "'a'", 'world, hello', '"שלום"', 'Test', '"1", "2", "3"', '""', 'x']


class Sel:
    """A generated selector with the syntactic facts the oracles need."""

    __slots__ = ('text', 'uses_scope', 'uses_custom', 'special')

    def __init__(self, text, uses_scope=False, uses_custom=False, special=0):
        self.text = text
        self.uses_scope = uses_scope
        self.uses_custom = uses_custom
        self.special = special


class SelGen:
    def __init__(self, rng, stateful_bias=0.5, ns_prefixes=(), custom_names=(), invalid=0.08, lexical=0.15,
                 special_bias=0.0, simple=False):
        self.simple = simple
        self.rng = rng
        self.stateful_bias = stateful_bias
        self.ns_prefixes = list(ns_prefixes)
        self.custom_names = list(custom_names)
        self.invalid = invalid
        self.lexical = lexical
        self.special_bias = special_bias
        self.scope = False
        self.custom = False
        self.special = 0

    # lexical noise -------------------------------------------------------
    def ws(self):
        r = self.rng.random()
        if r > self.lexical:
            return ''
        return self.rng.choice([' ', '  ', '\t', '\n', '/* c */', ' /**/ ', '\r\n', '\f'])

    def case(self, s):
        if self.rng.random() < self.lexical * 0.5:
            return s.upper() if self.rng.random() < 0.5 else s.title()
        return s

    def ident(self, s):
        if self.rng.random() < self.lexical * 0.3 and s and s[0].isalpha():
            return '\\%x ' % ord(s[0]) + s[1:]
        return s

    # grammar -------------------------------------------------------------
    def tag(self):
        rng = self.rng
        t = self.ident(rng.choice(TAGS))
        if self.ns_prefixes and rng.random() < 0.4:
            return rng.choice(self.ns_prefixes + ['*', '']) + '|' + t
        if rng.random() < 0.03:
            return '*|' + t
        return t

    def attr(self):
        rng = self.rng
        a = rng.choice(ATTRS)
        if self.ns_prefixes and rng.random() < 0.3:
            a = rng.choice(self.ns_prefixes + ['*']) + '|' + a
        r = rng.random()
        if r < 0.35:
            return f'[{self.ws()}{a}{self.ws()}]'
        op = rng.choice(['=', '~=', '|=', '^=', '$=', '*=', '!='])
        v = rng.choice(['a', 'b', 'en', 'radio', 'submit', 'd1', '"a b"', "'x-y'", '""', 'r1', '1', 'text', '"#x"',
                        'checkbox', '"RADIO"', 'number'])
        flag = rng.choice(['', '', '', ' i', ' s', ' I'])
        return f'[{a}{self.ws()}{op}{self.ws()}{v}{flag}]'

    def pseudo(self, depth):
        rng = self.rng
        r = rng.random()
        if self.special_bias and rng.random() < self.special_bias:
            r = 0.36 + rng.random() * 0.3
        if r < 0.18:
            pool = STATEFUL_PSEUDO if rng.random() < self.stateful_bias else SIMPLE_PSEUDO
            return self.case(rng.choice(pool))
        if r < 0.21:
            return rng.choice(NOMATCH_PSEUDO)
        if r < 0.36 and depth < 3:
            name = rng.choice([':not', ':is', ':where', ':matches', ':not', ':is'])
            inner = self.sel_list(depth + 1, forgiving=name in (':is', ':where'))
            return f'{self.case(name)}({self.ws()}{inner}{self.ws()})'
        if r < 0.46:
            self.special += 1
            name = rng.choice([':nth-child', ':nth-last-child', ':nth-of-type', ':nth-last-of-type'])
            arg = rng.choice(NTH)
            if name in (':nth-child', ':nth-last-child') and rng.random() < 0.3 and depth < 3:
                arg += ' of ' + self.sel_list(depth + 1)
            return f'{self.case(name)}({self.ws()}{arg}{self.ws()})'
        if r < 0.58:
            self.special += 1
            return f'{self.case(":lang")}({self.ws()}{rng.choice(LANG_ARGS)}{self.ws()})'
        if r < 0.63:
            self.special += 1
            return f':dir({rng.choice(["ltr", "rtl", "LTR"])})'
        if r < 0.70:
            self.special += 1
            name = rng.choice([':-soup-contains', ':-soup-contains-own', ':-soup-contains', ':contains'])
            return f'{name}({rng.choice(CONTAINS_ARGS)})'
        if r < 0.80 and depth < 3:
            comb = rng.choice(['', '> ', '+ ', '~ ', ''])
            inner = comb + self.complex(depth + 1)
            if rng.random() < 0.25:
                inner += ', ' + rng.choice(['', '> ', '~ ']) + self.complex(depth + 1)
            return f':has({self.ws()}{inner}{self.ws()})'
        if r < 0.84:
            self.scope = True
            return rng.choice([':scope', '&', ':SCOPE'])
        if r < 0.90 and self.custom_names:
            self.custom = True
            return rng.choice(self.custom_names)
        if r < 0.94:
            return '#' + self.ident(rng.choice(IDS))
        return '.' + self.ident(rng.choice(CLASSES))

    def compound(self, depth):
        rng = self.rng
        parts = []
        if rng.random() < 0.6:
            parts.append(self.tag())
        n = rng.choice([0, 1, 1, 2] if self.simple else [0, 1, 1, 1, 2, 2, 3])
        if not parts and n == 0:
            n = 1
        for _ in range(n):
            r = rng.random()
            if r < 0.15:
                parts.append('#' + self.ident(rng.choice(IDS)))
            elif r < 0.3:
                parts.append('.' + self.ident(rng.choice(CLASSES)))
            elif r < 0.45:
                parts.append(self.attr())
            else:
                parts.append(self.pseudo(depth))
        return ''.join(parts)

    def complex(self, depth):
        rng = self.rng
        s = self.compound(depth)
        for _ in range(rng.choice([0, 0, 0, 0, 1] if self.simple else [0, 0, 0, 1, 1, 2])):
            comb = rng.choice([' ', ' > ', ' + ', ' ~ ', '>', '+', '~', '  '])
            s += comb + self.compound(depth)
        return s

    def sel_list(self, depth=0, forgiving=False):
        rng = self.rng
        items = [self.complex(depth) for _ in range(rng.choice([1, 1, 1, 2] if self.simple else [1, 1, 1, 2, 2, 3]))]
        if forgiving and rng.random() < 0.15:
            items.insert(rng.randrange(len(items) + 1), '')
        return (',' + self.ws() + ' ').join(items) if rng.random() < 0.5 else ', '.join(items)

    def broken(self):
        rng = self.rng
        base = self.sel_list()
        r = rng.random()
        if r < 0.15:
            return base + rng.choice([' >', ',', ' +', '(', ')', '[', ':', '::before', ' @page'])
        if r < 0.3:
            return rng.choice([':nth-child(foo)', ':lang()', ':dir(up)', ':not()', ':has()', 'div >> p', ', p',
                               ':nth-child(2n+)', ':-soup-contains()', '[a=]', ':unknown', ':nth-of-type(1 of p)',
                               'p:lang(en', ':is(p', 'a[href', '#', '.', '**', 'p::first-line', ':--undefined',
                               ':nth-child(1) :lang(', ':lang(en) :nth-child(', ':dir(ltr) :dir(', '\x00', ''])
        if r < 0.5 and len(base) > 2:
            i = rng.randrange(len(base))
            return base[:i] + base[i + 1:]
        if r < 0.7 and len(base) > 2:
            i = rng.randrange(len(base))
            return base[:i] + rng.choice('()[]:,>~+|*#."\'\\ @&$') + base[i:]
        if r < 0.85:
            return base[:rng.randrange(1, len(base) + 1)]
        return base + rng.choice([':NTH-CHILD(2)', ':Lang(EN)', ':not(:lang(en), :nth-child(2))'])

    def one(self):
        self.scope = False
        self.custom = False
        self.special = 0
        if self.rng.random() < self.invalid:
            t = self.broken()
            # An unterminated quote followed by a long tail sends the tokenizer's regular expressions into
            # catastrophic backtracking (that is property C07's subject and has no simulation seam); keep
            # quotes balanced so that a run can never stall inside the C regex engine.
            import re as _re
            dq = len(_re.findall(r'(?<!\\)"', t))
            sq = len(_re.findall(r"(?<!\\)'", t))
            if dq % 2 or sq % 2 or '\\"' in t or "\\'" in t:
                # (an escaped quote un-terminates a string just as well as a missing one)
                t = t.replace('"', '').replace("'", '')
            return Sel(t, uses_scope=True, uses_custom=self.custom, special=self.special)
        t = self.ws() + self.sel_list() + self.ws()
        return Sel(t, self.scope, self.custom, self.special)


NAMESPACE_MAPS = [
    None,
    None,
    {},
    {'html': NS_XHTML},
    {'h': NS_XHTML, 'x': NS_X},
    {'': NS_XHTML, 'x': NS_X, 's': NS_SVG},
    {'': NS_X, 'h': NS_XHTML},
    {'x': NS_X, 's': NS_SVG, 'm': NS_MATH, 'h': NS_XHTML},
    {'X': NS_X},
]

CUSTOM_MAPS = [
    None,
    None,
    {},
    {':--parent': 'div:has(> p)', ':--para': 'p:first-child'},
    {':--a': ':--b > span', ':--b': 'div, section', ':--c': ':--a:not(:--b)'},
    {':--cyc1': ':--cyc2', ':--cyc2': ':--cyc1', ':--ok': 'p'},
    {':--form-el': ':is(input, button, select, textarea)', ':--dflt': ':--form-el:default'},
    {':--lang-en': ':lang(en)', ':--odd': ':nth-child(odd)', ':--txt': ':-soup-contains("hello")'},
    {':--UP': 'p', ':--up2': ':--up'},
    {':--bad name': 'p'},
    {':--broken': 'p >', ':--fine': 'div'},
    {':--self': ':--self'},
]


def gen_key(rng, selgen_kw=None, ns_bias=0.35, custom_bias=0.3, debug_bias=0.0):
    """A compile key as plain data: {'pattern','ns','custom','flags'} plus Sel facts."""

    ns = rng.choice(NAMESPACE_MAPS) if rng.random() < ns_bias else None
    custom = rng.choice(CUSTOM_MAPS) if rng.random() < custom_bias else None
    prefixes = [k for k in (ns or {}) if k]
    names = list(custom or {})
    if custom and rng.random() < 0.1:
        names.append(':--undefined')
    g = SelGen(rng, ns_prefixes=prefixes, custom_names=names, **(selgen_kw or {}))
    s = g.one()
    flags = 1 if rng.random() < debug_bias else 0
    return {
        'pattern': s.text, 'ns': ns, 'custom': custom, 'flags': flags,
        'uses_scope': s.uses_scope, 'special': s.special,
    }


def key_args(key):
    """Keyword arguments for soupsieve.compile from a key (fresh dict objects each time)."""

    kw = {}
    if key.get('ns') is not None:
        kw['namespaces'] = dict(key['ns'])
    if key.get('custom') is not None:
        kw['custom'] = dict(key['custom'])
    if key.get('flags'):
        kw['flags'] = key['flags']
    return kw


# Selectors whose evaluation goes through per-call memo tables or swapped matcher state (S4/S5 of DESIGN.md).
STATEFUL_POOL = [
    ':lang("")', ':lang(en)', ':lang(de)', ':lang("*-DE")', ':not(:lang(en))', ':lang(fr, de)', 'p:lang(en)',
    ':default', ':indeterminate', 'input:indeterminate', 'form :default', ':not(:default)', ':has(:default)',
    ':has(> :indeterminate)', ':checked', ':dir(ltr)', ':dir(rtl)', ':not(:dir(ltr))', ':root', ':root :lang(en)',
    'iframe :lang(de)', 'iframe :default', ':in-range', ':out-of-range', ':nth-child(2n+1 of :lang(en))',
    ':nth-child(odd of :indeterminate)', ':is(:default, :lang(de))', ':defined', ':not(:defined)', ':link',
    ':disabled', ':enabled', ':read-write', ':read-only', ':required', ':optional', ':placeholder-shown',
    ':default:lang(en)', ':indeterminate:dir(ltr)', 'html|*:lang(en)', ':is(:dir(ltr), :dir(rtl))',
    ':not(:lang(""))', ':lang("") :default', ':where(:indeterminate) ~ :lang(en)', '*', 'input', 'p', 'div *',
    ':empty', ':first-child', ':only-child', ':-soup-contains(hello)', ':has(:lang(de))', ':has(~ :indeterminate)',
]


# (pattern, namespace map): namespace-prefixed selectors combined with HTML-only pseudo-classes, for XML / XHTML
# documents - the matcher swaps its namespace map while it evaluates the internal HTML-only lists.
XML_STATEFUL_POOL = [
    (':checked, x|item', {'x': NS_X}), (':link, x|*', {'x': NS_X}), (':is(:enabled, x|item)', {'x': NS_X}),
    ('h|input:checked ~ x|item', {'x': NS_X, 'h': NS_XHTML}), (':any-link, x|item, s|*', {'x': NS_X, 's': NS_SVG}),
    ('x|item, :disabled', {'x': NS_X}), (':not(:checked) x|item', {'x': NS_X}), ('x|*', {'x': NS_X}),
    (':has(:checked) x|item, x|row', {'x': NS_X}), ('[x|k]', {'x': NS_X}), (':required, :optional, x|a', {'x': NS_X}),
    ('h|*:checked, x|*', {'x': NS_X, 'h': NS_XHTML}), ('x|item:lang(en), :default', {'x': NS_X}),
    (':read-write, x|p', {'x': NS_X}), ('*|item, :checked', None), ('|item, :link', {'x': NS_X}),
    (':checked + x|item, :checked ~ x|*', {'x': NS_X}), (':root x|item', {'x': NS_X}),
    ('[x|k]', {'x': NS_Y}), ('[n|k]', {'n': NS_X}), ('[n|k], n|item', {'n': NS_Y}), ('[*|k]', None), ('[x|k="1"]', {'x': NS_X}),
    ('x|item, x|row', {'x': NS_Y}), (':not([x|k]) > [x|k]', {'x': NS_X}), ('[|k], [k]', None),
]


# selectors that evaluate a structural pseudo-class on the *root* of the queried tree (matters for detached fragments,
# where the matcher has to invent a parent for the root)
ROOT_NTH_POOL = [
    ':first-child *', ':nth-child(1) *', ':only-child > *', '*:nth-last-child(1) *', ':root:first-child *',
    ':first-of-type > :last-child', ':nth-of-type(1)', ':only-of-type *', ':nth-child(odd)', ':last-child',
    ':nth-last-of-type(1) > *', ':not(:nth-child(2)) > *',
]


# feature of the markup -> selectors that exercise it (used to align the selector pool with the documents of a run)
FEATURE_POOLS = {
    'radio': [':indeterminate', 'input:indeterminate', ':not(:indeterminate)', ':has(> :indeterminate)', ':checked',
              ':indeterminate, :default', 'form :indeterminate', ':is(:indeterminate, :checked)'],
    'submit': [':default', 'form :default', ':not(:default)', ':has(:default)', ':default:enabled', 'button:default'],
    'lang': [':lang("")', ':lang(en)', ':lang(de)', ':not(:lang(en))', ':lang("*-DE")', ':lang(fr, de)', ':lang("*")'],
    'dir': [':dir(ltr)', ':dir(rtl)', ':not(:dir(ltr))'],
    'range': [':in-range', ':out-of-range', ':not(:in-range)'],
    'iframe': ['iframe :lang(de)', 'iframe :default', 'iframe *', ':root', 'iframe :root', 'html :indeterminate'],
    'form': [':disabled', ':enabled', ':read-write', ':required', ':optional', ':placeholder-shown', ':read-only'],
    # several structural pseudo-classes in DIFFERENT compounds / list branches / nested lists, with different `of S`
    'nth': ['li:nth-child(2 of .c) li:nth-child(1)', ':nth-child(2 of .a), :nth-child(1 of .b)',
            'p:nth-child(odd of .a) ~ p:nth-child(1)', ':nth-last-child(1 of p), :nth-child(1 of span)',
            ':is(:nth-child(1 of .a), :nth-child(2))', ':not(:nth-child(1 of p)):nth-child(1)',
            'div:nth-child(1) > :nth-child(1 of p)', ':has(> :nth-child(2 of .a)):nth-child(2)',
            ':nth-child(1 of input) ~ :nth-child(1)', ':nth-child(2), :nth-child(2 of .b)',
            ':nth-child(n+2 of :not(.a)) > :nth-last-child(1 of .a)', 'ul :nth-child(1 of li) , :nth-child(1 of ul)'],
}


# namespaced attribute selectors: entries are (pattern, namespace map)
NSATTR_POOL = [('[x|k]', {'x': NS_X}), ('[x|k]', {'x': NS_Y}), ('[n|k="1"]', {'n': NS_X}), ('[n|k]', {'n': NS_Y}), ('[*|k]', None),
               (':not([x|k])', {'x': NS_X}), ('[x|k], x|item', {'x': NS_Y}), ('* > [x|k]', {'x': NS_X})]


def numeric_neighbour(rng, pattern):
    """The same pattern with ONE number changed by one (nth coefficients and offsets, argument counts); None when the
    pattern has no number.  -1 / -2 are the classic hash twins."""

    import re
    ms = [m for m in re.finditer(r'(?<![\w"\'#.\[=\\])(-?\d+|-)(?=n)|(?<=n)\s*([+-])\s*(\d+)|\((\d+)(?=[\s)])', pattern)]
    if not ms:
        return None
    m = ms[rng.randrange(len(ms))]
    d = rng.choice([1, -1])
    if m.group(1) is not None:
        v = -1 if m.group(1) == '-' else int(m.group(1))
        return pattern[:m.start(1)] + str(v + (d if v + d != 0 else 2 * d)) + pattern[m.end(1):]
    if m.group(3) is not None:
        v = int(m.group(2) + m.group(3)) + d
        return pattern[:m.start()] + ('%+d' % v) + pattern[m.end():]
    v = max(0, int(m.group(4)) + d)
    return pattern[:m.start(4)] + str(v) + pattern[m.end(4):]


# namespace-qualified selectors with HTML-only state pseudo-classes (on HTML trees every element is in the XHTML namespace)
HTML_NS_POOL = [('x|input:default', {'x': NS_XHTML}), ('x|input:checked', {'x': NS_XHTML}), ('h|form h|input:indeterminate', {'h': NS_XHTML}),
                ('x|*:disabled, x|button', {'x': NS_XHTML}), ('x|input:in-range', {'x': NS_XHTML}), ('x|form :default', {'x': NS_XHTML}),
                ('x|input:required ~ x|input', {'x': NS_XHTML}), ('s|input:default, x|input', {'x': NS_XHTML, 's': NS_SVG}),
                ('iframe x|input:default', {'x': NS_XHTML}), ('x|input:read-write', {'x': NS_XHTML})]


def feature_key(rng, feat):
    """A key spec (pattern + namespace map) from the pool aligned with a document feature."""
    if feat == 'nsattr':
        pat, ns = rng.choice(NSATTR_POOL)
    else:
        pat, ns = rng.choice(FEATURE_POOLS[feat]), None
    return {'pattern': pat, 'ns': ns, 'custom': None, 'flags': 0, 'uses_scope': False, 'special': 0}


def markup_features(markup, nsattr=False):
    m = markup.lower()
    out = []
    if nsattr and 'x:k=' in m:
        out.append('nsattr')
    if 'type="radio"' in m:
        out.append('radio')
    if 'type="submit"' in m:
        out.append('submit')
    if 'lang=' in m or 'content-language' in m or '<head' in m:
        out.append('lang')
    if 'dir=' in m or '<bdi' in m:
        out.append('dir')
    if 'min=' in m or 'max=' in m:
        out.append('range')
    if '<iframe' in m:
        out.append('iframe')
    if '<form' in m or '<input' in m:
        out.append('form')
    if m.count('class=') >= 2:
        out.append('nth')
    return out


_VARIANT_SWAPS = [
    ('content="en"', 'content="fr"'), ('content="de-DE"', 'content="en-US"'), ('content="fr"', 'content="de"'),
    ('content="en-US"', 'content="de-DE"'), ('content="de"', 'content="en"'),
    ('lang="en"', 'lang="de"'), ('lang="de"', 'lang="en"'), ('lang="fr"', 'lang="en"'), ('lang="en-US"', 'lang="de-DE"'),
    ('dir="rtl"', 'dir="ltr"'), ('dir="ltr"', 'dir="rtl"'), (' checked=""', ' data-c=""'), ('type="submit"', 'type="button"'),
    ('name="r1"', 'name="r2"'), ('value="5"', 'value="9"'), ('min="0"', 'min="7"'),
    (f'xmlns:x="{NS_X}"', f'xmlns:x="{NS_Y}"'), (f'xmlns:x="{NS_Y}"', f'xmlns:x="{NS_X}"'),
    ('type="number"', 'type="week"'), ('type="week"', 'type="time"'), ('type="date"', 'type="month"'),
]


def variant_spec(rng, spec):
    """Same shape (same nodes, same allocation pattern), different facts: the document a stale identity-keyed memo
    would confuse with its predecessor when it is parsed into the memory the predecessor just released."""

    m = spec['markup']
    swaps = [sw for sw in _VARIANT_SWAPS if sw[0] in m]
    if not swaps:
        return None
    rng.shuffle(swaps)
    done = set()
    for a, b in swaps[:rng.randint(1, 4)]:
        if a in done or b in done:
            continue
        m = m.replace(a, '\x00').replace(b, a).replace('\x00', b) if rng.random() < 0.5 else m.replace(a, b)
        done.add(a)
        done.add(b)
    if m == spec['markup']:
        return None
    out = dict(spec)
    out['markup'] = m
    return out


def variant_custom(rng, custom):
    """Same alias names, one *leaf* definition changed: aliases that refer to it keep their text but change meaning."""

    if not custom:
        return None
    names = list(custom)
    leaves = [n for n in names if ':--' not in custom[n]] or names
    n = rng.choice(leaves)
    new = dict(custom)
    new[n] = rng.choice([d for d in ('p', 'div', '.a', '.b', 'span, li', ':lang(en)', 'input:checked', 'li:nth-child(2)')
                         if d != custom[n]])
    return new


CUSTOM_MAPS += [
    # one alias name spelled twice (with and without a CSS escape, or in two letter cases): whatever the library does
    # about the clash, it has to do the same for every ordering of the map (equal maps are one cache key)
    {':--ab': 'p', ':--a\\62': 'div'},
    {':--\\69tem': 'ul', ':--item': 'li'},
    {':--AB': 'p', ':--ab': 'div'},
    {':--item': 'li:--marked', ':--marked': '.a'},
    {':--item': 'li:--marked', ':--marked': '.b'},
    {':--x': ':--y :--z', ':--y': 'div', ':--z': 'p'},
    {':--x': ':--y :--z', ':--y': 'ul', ':--z': 'li'},
]


# type / attribute selectors whose letter case matters: HTML trees fold names, XML trees do not - used on runs that
# hold both kinds of document so that one compiled selector meets both
CASE_POOL = ['Item', 'item', 'ITEM', 'DIV', 'div', 'Div', 'P', 'p', 'Row', 'row', '[K]', '[k]', '[ID]', '[id]', 'Input',
             'INPUT:checked', 'A[href]', 'a[HREF]', 'Item > P', 'DIV P', 'x|Item', 'x|item']

# what a second thread may ask about a parentless fragment while a first one evaluates :nth-* on its root
DETACHED_POOL = [':root', ':root > *', '* > p', '* p', 'p:not(* > p)', ':root:first-child', ':first-child', ':only-child',
                 ':nth-child(1)', ':nth-last-child(1) > *', '*', ':not(:root)', ':scope > *', ':root:nth-of-type(1) *']
