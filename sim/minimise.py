"""Greedy delta-debugging of a failing record (workload + schedule + faults)."""
from __future__ import annotations

import copy


class Budget:
    def __init__(self, n):
        self.left = n
        self.used = 0

    def take(self):
        if self.left <= 0:
            return False
        self.left -= 1
        self.used += 1
        return True


def ddmin_list(items, test, budget):
    """Classic ddmin over a list: returns a (locally) minimal sublist for which test(sublist) holds."""

    n = 2
    items = list(items)
    while len(items) >= 2 and budget.left > 0:
        chunk = max(1, len(items) // n)
        subsets = [items[i:i + chunk] for i in range(0, len(items), chunk)]
        reduced = False
        for i in range(len(subsets)):
            comp = [x for j, s in enumerate(subsets) if j != i for x in s]
            if not comp and not _allow_empty(items):
                continue
            if not budget.take():
                return items
            if test(comp):
                items = comp
                n = max(n - 1, 2)
                reduced = True
                break
        if not reduced:
            if n >= len(items):
                break
            n = min(len(items), n * 2)
    if len(items) == 1 and budget.take() and test([]):
        return []
    return items


def _allow_empty(items):
    return True


def greedy(rec, candidates, fails, budget):
    """Repeatedly apply the first candidate edit that keeps the record failing.

    ``candidates(rec)`` yields new (deep-copied, edited) records, simplest-first;
    ``fails(rec)`` re-executes the record and says whether the same oracle clause fails.
    """

    progress = True
    while progress and budget.left > 0:
        progress = False
        for cand in candidates(rec):
            if not budget.take():
                return rec
            out = fails(cand)
            if out:
                rec = out if isinstance(out, dict) else cand
                progress = True
                break
    return rec


def clone(rec):
    return copy.deepcopy(rec)


# ---------------------------------------------------------------------------
# edits on records of the form {'workload': {'programs': [...], 'faults': [[t,i,step,exc]],
# 'stdout_faults': [[t,i,j,errno]]}, 'segments': [[tid,n,why,op_index,op_step]]}
# ---------------------------------------------------------------------------

def drop_thread(rec, t):
    c = clone(rec)
    w = c['workload']
    del w['programs'][t]
    for name in ('faults', 'stdout_faults'):
        if name in w:
            w[name] = [[f[0] - (1 if f[0] > t else 0)] + list(f[1:]) for f in w[name] if f[0] != t]
    segs = []
    for s in c.get('segments') or []:
        if s[0] == t:
            continue
        s = list(s)
        s[0] -= 1 if s[0] > t else 0
        segs.append(s)
    c['segments'] = segs
    return c


def drop_op(rec, t, j):
    c = clone(rec)
    w = c['workload']
    del w['programs'][t][j]
    for name in ('faults', 'stdout_faults'):
        if name in w:
            out = []
            for f in w[name]:
                f = list(f)
                if f[0] == t:
                    if f[1] == j:
                        continue
                    if f[1] > j:
                        f[1] -= 1
                out.append(f)
            w[name] = out
    segs = []
    for s in c.get('segments') or []:
        s = list(s)
        if s[0] == t and len(s) > 3 and s[3] is not None:
            if s[3] == j:
                if s[2] == 'p':
                    continue
            elif s[3] > j:
                s[3] -= 1
        segs.append(s)
    c['segments'] = segs
    return c


def drop_ops(rec, t, js):
    for j in sorted(js, reverse=True):
        rec = drop_op(rec, t, j)
    return rec


def shrink_schedule(cur, fails, budget):
    """Shortest failing prefix of the schedule, then ddmin over its segments."""

    segs = cur.get('segments') or []
    if len(segs) <= 1:
        return cur
    lo, hi = 1, len(segs)
    best = None
    while lo < hi and budget.take():
        mid = (lo + hi) // 2
        c = clone(cur)
        c['segments'] = segs[:mid]
        out = fails(c)
        if out:
            best = out
            hi = mid
        else:
            lo = mid + 1
    if best is not None:
        cur = best
    base = cur

    def test(sub):
        c = clone(base)
        c['segments'] = sub
        return bool(fails(c))

    sub = ddmin_list(cur['segments'], test, budget)
    if len(sub) < len(cur['segments']):
        c = clone(cur)
        c['segments'] = sub
        out = fails(c)
        if out:
            cur = out
    return cur


def shrink_programs(cur, fails, budget):
    """ddmin over the operations of each thread (faults and schedule anchors follow)."""

    nt = len(cur['workload']['programs'])
    for t in range(nt):
        prog = cur['workload']['programs'][t]
        if len(prog) <= 1:
            continue
        base = cur
        idx = list(range(len(prog)))
        found = {}

        def test(keep, base=base, t=t, n=len(prog)):
            drop = [j for j in range(n) if j not in set(keep)]
            c = drop_ops(base, t, drop)
            out = fails(c)
            if out:
                found['rec'] = out
                found['keep'] = list(keep)
            return bool(out)

        keep = ddmin_list(idx, test, budget)
        if found.get('rec') is not None and found.get('keep') == list(keep):
            cur = found['rec']
        elif len(keep) < len(idx):
            c = drop_ops(base, t, [j for j in idx if j not in set(keep)])
            out = fails(c)
            if out:
                cur = out
    return cur
