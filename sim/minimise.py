"""Greedy delta-debugging of a failing record (workload + schedule + faults)."""
from __future__ import annotations

import copy


class Budget:
    def __init__(self, n):
        self.left = n
        self.used = 0

    def take(self):
        if self.left <= 0:
            return False
        self.left -= 1
        self.used += 1
        return True


def ddmin_list(items, test, budget):
    """Classic ddmin over a list: returns a (locally) minimal sublist for which test(sublist) holds."""

    n = 2
    items = list(items)
    while len(items) >= 2 and budget.left > 0:
        chunk = max(1, len(items) // n)
        subsets = [items[i:i + chunk] for i in range(0, len(items), chunk)]
        reduced = False
        for i in range(len(subsets)):
            comp = [x for j, s in enumerate(subsets) if j != i for x in s]
            if not comp and not _allow_empty(items):
                continue
            if not budget.take():
                return items
            if test(comp):
                items = comp
                n = max(n - 1, 2)
                reduced = True
                break
        if not reduced:
            if n >= len(items):
                break
            n = min(len(items), n * 2)
    if len(items) == 1 and budget.take() and test([]):
        return []
    return items


def _allow_empty(items):
    return True


def greedy(rec, candidates, fails, budget):
    """Repeatedly apply the first candidate edit that keeps the record failing.

    ``candidates(rec)`` yields new (deep-copied, edited) records, simplest-first;
    ``fails(rec)`` re-executes the record and says whether the same oracle clause fails.
    """

    progress = True
    while progress and budget.left > 0:
        progress = False
        for cand in candidates(rec):
            if not budget.take():
                return rec
            out = fails(cand)
            if out:
                rec = out if isinstance(out, dict) else cand
                progress = True
                break
    return rec


def clone(rec):
    return copy.deepcopy(rec)
