"""Deterministic scheduler: baton-passing real threads, pre-empted at trace events.

Exactly one simulated thread is runnable at any instant; which one is decided by a
*policy* object (seeded PRNG or an explicit replay list), never by the OS.  A run is
therefore a pure function of (workload, policy decisions, fault table, code).

Vocabulary
----------
step      one trace event (``call`` = function entry, ``line``) inside a frame whose
          file lies under the traced prefix, or one operation boundary (``opend``),
          or the thread's start (``start``).  Steps are counted per thread.
segment   ``[tid, n]``: thread ``tid`` receives ``n`` steps and is parked *at* the n-th
          (before the line it announces executes).  The list of segments is the
          schedule that is logged and replayed.
fault     ``(tid, op_index, op_step) -> exception class name``: raised from the trace
          function, i.e. inside the frame that was about to execute that step.
"""
from __future__ import annotations

import _thread
import sys
import threading

_allocate = _thread.allocate_lock
_get_ident = _thread.get_ident

CURRENT = None  # the Sim that is running right now (at most one per process)


class SimAbort(BaseException):
    """Raised inside parked simulated threads when the run is torn down."""


class SimDeadlock(Exception):
    """All unfinished simulated threads are blocked."""


class HarnessError(Exception):
    """Something is wrong with the machinery (never reported as a violation)."""


FAULT_EXC = {
    'MemoryError': MemoryError,
    'KeyboardInterrupt': KeyboardInterrupt,
    'RuntimeError': RuntimeError,
}


# ---------------------------------------------------------------------------
# Simulator-aware blocking primitives
# ---------------------------------------------------------------------------

def _cur():
    """Return (sim, thread) when called from the simulated thread holding the baton."""

    sim = CURRENT
    if sim is None:
        return None, None
    t = sim.by_ident.get(_get_ident())
    if t is None:
        return None, None
    return sim, t


class SimLock:
    """Non-reentrant lock.  Outside a simulation it is a plain flag."""

    def __init__(self):
        self._held = False
        self._owner = None

    def acquire(self, blocking=True, timeout=-1):
        sim, t = _cur()
        while self._held:
            if not blocking:
                return False
            if sim is None:
                raise SimDeadlock('lock acquired while held, outside a simulation (self-deadlock)')
            if timeout is not None and timeout >= 0:
                # A timed wait: give every other runnable thread a turn once, then time out.
                if not sim.yield_blocked(t, self, timed=True):
                    return False
                continue
            sim.yield_blocked(t, self, timed=False)
        self._held = True
        self._owner = t.idx if t is not None else -1
        if sim is not None:
            sim.probe('sim_lock_acquired')
        return True

    def release(self):
        if not self._held:
            raise RuntimeError('release unlocked lock')
        self._held = False
        self._owner = None
        sim, t = _cur()
        if sim is not None:
            sim.wake(self)

    def locked(self):
        return self._held

    __enter__ = acquire

    def __exit__(self, *a):
        self.release()

    def _at_fork_reinit(self):  # pragma: no cover
        self._held = False
        self._owner = None


class SimRLock:
    def __init__(self):
        self._lock = SimLock()
        self._owner = None
        self._count = 0

    def _me(self):
        sim, t = _cur()
        return ('sim', t.idx) if t is not None else ('real', _get_ident())

    def acquire(self, blocking=True, timeout=-1):
        me = self._me()
        if self._owner == me:
            self._count += 1
            return True
        ok = self._lock.acquire(blocking, timeout)
        if ok:
            self._owner = me
            self._count = 1
        return ok

    def release(self):
        if self._owner != self._me():
            raise RuntimeError('cannot release un-acquired lock')
        self._count -= 1
        if self._count == 0:
            self._owner = None
            self._lock.release()

    __enter__ = acquire

    def __exit__(self, *a):
        self.release()

    # Condition support
    def _release_save(self):
        state = (self._count, self._owner)
        self._count = 0
        self._owner = None
        self._lock.release()
        return state

    def _acquire_restore(self, state):
        self._lock.acquire()
        self._count, self._owner = state

    def _is_owned(self):
        return self._owner == self._me()

    def _at_fork_reinit(self):  # pragma: no cover
        self._lock._at_fork_reinit()
        self._owner = None
        self._count = 0


class SimCondition:
    def __init__(self, lock=None):
        self._lock = lock if lock is not None else SimRLock()
        self.acquire = self._lock.acquire
        self.release = self._lock.release
        self._waiters = []

    def __enter__(self):
        return self._lock.__enter__()

    def __exit__(self, *a):
        return self._lock.__exit__(*a)

    def wait(self, timeout=None):
        w = SimLock()
        w.acquire()
        self._waiters.append(w)
        saved = self._lock._release_save() if hasattr(self._lock, '_release_save') else self._lock.release()
        try:
            if timeout is None:
                w.acquire()
                return True
            return w.acquire(True, timeout)
        finally:
            if hasattr(self._lock, '_acquire_restore'):
                self._lock._acquire_restore(saved)
            else:
                self._lock.acquire()
            if w in self._waiters:
                self._waiters.remove(w)

    def wait_for(self, predicate, timeout=None):
        result = predicate()
        tries = 0
        while not result:
            if timeout is not None and tries > 0:
                break
            self.wait(timeout)
            tries += 1
            result = predicate()
        return result

    def notify(self, n=1):
        for w in self._waiters[:n]:
            self._waiters.remove(w)
            w.release()

    def notify_all(self):
        self.notify(len(self._waiters))

    notifyAll = notify_all


class SimSemaphore:
    def __init__(self, value=1):
        self._cond = SimCondition(SimLock())
        self._value = value

    def acquire(self, blocking=True, timeout=None):
        with self._cond:
            while self._value == 0:
                if not blocking:
                    return False
                if not self._cond.wait(timeout) and timeout is not None:
                    return False
            self._value -= 1
            return True

    def release(self, n=1):
        with self._cond:
            self._value += n
            self._cond.notify(n)

    __enter__ = acquire

    def __exit__(self, *a):
        self.release()


class SimEvent:
    def __init__(self):
        self._cond = SimCondition(SimLock())
        self._flag = False

    def is_set(self):
        return self._flag

    isSet = is_set

    def set(self):
        with self._cond:
            self._flag = True
            self._cond.notify_all()

    def clear(self):
        with self._cond:
            self._flag = False

    def wait(self, timeout=None):
        with self._cond:
            if not self._flag:
                self._cond.wait(timeout)
            return self._flag


# ---------------------------------------------------------------------------
# Policies
# ---------------------------------------------------------------------------

class Policy:
    name = 'base'

    def describe(self):
        return {'name': self.name}

    def first(self, sim):
        return 0

    def decide(self, sim, t, kind):
        """Called at every step of the running thread; return tid to switch to, or None."""
        return None

    def on_yield(self, sim, t):
        """Forced hand-over (t finished or blocked); return a runnable tid or None."""
        r = sim.runnable(exclude=t.idx)
        return r[0] if r else None


class RandomPolicy(Policy):
    def __init__(self, rng):
        self.rng = rng

    def first(self, sim):
        return self.rng.randrange(len(sim.threads))

    def pick_other(self, sim, t):
        r = sim.runnable(exclude=t.idx)
        if not r:
            return None
        return r[self.rng.randrange(len(r))] if len(r) > 1 else r[0]

    def on_yield(self, sim, t):
        return self.pick_other(sim, t)


class Bernoulli(RandomPolicy):
    name = 'bernoulli'

    def __init__(self, rng, p):
        super().__init__(rng)
        self.p = p

    def describe(self):
        return {'name': self.name, 'p': round(self.p, 5)}

    def decide(self, sim, t, kind):
        if self.rng.random() < self.p:
            return self.pick_other(sim, t)
        return None


class AfterReturn(RandomPolicy):
    """Switch (prob p) on the first line after a traced callee returned."""

    name = 'after-return'

    def __init__(self, rng, p, p_other=0.0):
        super().__init__(rng)
        self.p = p
        self.p_other = p_other

    def describe(self):
        return {'name': self.name, 'p': round(self.p, 4), 'p_other': round(self.p_other, 5)}

    def decide(self, sim, t, kind):
        if t.after_return and kind == 'line':
            if self.rng.random() < self.p:
                return self.pick_other(sim, t)
        elif self.p_other and self.rng.random() < self.p_other:
            return self.pick_other(sim, t)
        return None


class RoundRobin(Policy):
    name = 'round-robin'

    def __init__(self, q, start=0):
        self.q = q
        self.start = start
        self.left = q

    def describe(self):
        return {'name': self.name, 'q': self.q, 'start': self.start}

    def first(self, sim):
        return self.start % len(sim.threads)

    def _next(self, sim, t):
        n = len(sim.threads)
        for d in range(1, n):
            c = sim.threads[(t.idx + d) % n]
            if not c.finished and c.blocked_on is None:
                return c.idx
        return None

    def decide(self, sim, t, kind):
        self.left -= 1
        if self.left <= 0:
            self.left = self.q
            return self._next(sim, t)
        return None

    def on_yield(self, sim, t):
        self.left = self.q
        return self._next(sim, t)


class KPreempt(RandomPolicy):
    """Pre-empt at k chosen (tid, thread-step) points; the victim stays parked for ``hold``
    steps of the others (None = until whoever runs next finishes or blocks)."""

    name = 'k-preempt'

    def __init__(self, rng, points, first=None, sites=None):
        super().__init__(rng)
        # points: {(tid, thread_step): hold}
        self.points = dict(points)
        # sites: {(tid, function, line): [k, hold]} - pre-empt at the k-th time the thread reaches that code site
        self.site_points = {k: list(v) for k, v in (sites or {}).items()}
        self.site_tids = {k[0] for k in self.site_points}
        self.hold_left = None
        self.back_to = None
        self.first_tid = first

    def first(self, sim):
        if self.first_tid is not None:
            return self.first_tid
        return super().first(sim)

    def describe(self):
        return {'name': self.name, 'points': sorted([k[0], k[1], v] for k, v in self.points.items()),
                'sites': sorted([list(k) + v for k, v in self.site_points.items()])}

    def decide(self, sim, t, kind):
        if self.hold_left is not None:
            if self.hold_left == 'op':
                # the peer runs exactly one whole operation (e.g. a purge) inside the victim's gap, then hands back
                done = kind == 'opend' and t.idx != self.back_to
            else:
                self.hold_left -= 1
                done = self.hold_left <= 0
            if done:
                self.hold_left = None
                b = self.back_to
                self.back_to = None
                if b is not None and b != t.idx:
                    bt = sim.threads[b]
                    if not bt.finished and bt.blocked_on is None:
                        return b
        hold = self.points.pop((t.idx, t.step), -1)
        if hold == -1 and self.site_points and t.idx in self.site_tids and kind in ('call', 'line') and t.in_op:
            f = t.frame
            sp = self.site_points.get((t.idx, f.f_code.co_name, f.f_lineno)) if f is not None else None
            if sp is not None:
                sp[0] -= 1
                if sp[0] <= 0:
                    del self.site_points[(t.idx, f.f_code.co_name, f.f_lineno)]
                    hold = sp[1]
                    sim.probe('site_point_reached')
        if hold != -1:
            tgt = self.pick_other(sim, t)
            if tgt is not None:
                self.hold_left = hold
                self.back_to = t.idx
            return tgt
        return None


class PCT(Policy):
    """Probabilistic concurrency testing: distinct random thread priorities, the highest-priority runnable thread
    runs; at d-1 randomly chosen global steps the running thread's priority drops below everybody else's."""

    name = 'pct'

    def __init__(self, rng, nthreads, change_points):
        self.rng = rng
        order = list(range(nthreads))
        rng.shuffle(order)
        self.prio = {tid: nthreads - i for i, tid in enumerate(order)}
        self.points = sorted(set(change_points))
        self.low = 0

    def describe(self):
        return {'name': self.name, 'change_points': self.points}

    def _best(self, sim, exclude=None):
        r = sim.runnable(exclude=exclude)
        if not r:
            return None
        return max(r, key=lambda tid: self.prio[tid])

    def first(self, sim):
        return self._best(sim)

    def decide(self, sim, t, kind):
        g = sim.gstep
        if self.points and g >= self.points[0]:
            while self.points and g >= self.points[0]:
                self.points.pop(0)
            self.low -= 1
            self.prio[t.idx] = self.low
            best = self._best(sim)
            if best is not None and best != t.idx:
                return best
        return None

    def on_yield(self, sim, t):
        return self._best(sim, exclude=t.idx)


class Replay(Policy):
    """Explicit schedule: list of [tid, nsteps, why, op_index, op_step] segments.

    why == 'p': the thread was pre-empted *at* its nsteps-th step (before that line ran);
    why == 'y': the thread gave the baton away itself (finished or blocked) after nsteps steps.
    """

    name = 'replay'

    def __init__(self, segments):
        self.segs = []
        for s in segments:
            s = list(s) + [None] * (5 - len(s))
            if s[2] is None:
                s[2] = 'p'
            self.segs.append(s)
        self.i = -1
        self.count = 0

    def describe(self):
        return {'name': self.name, 'segments': len(self.segs)}

    @staticmethod
    def _ok(sim, tid):
        if not (0 <= tid < len(sim.threads)):
            return False
        c = sim.threads[tid]
        return not c.finished and c.blocked_on is None

    def _next(self, sim, cur, cur_can_run):
        j = self.i + 1
        while j < len(self.segs):
            tid = self.segs[j][0]
            if tid == cur:
                if cur_can_run:
                    self.i = j
                    self.count = 0
                    return None
            elif self._ok(sim, tid):
                self.i = j
                self.count = 0
                return tid
            j += 1
        self.i = len(self.segs)
        return None

    def first(self, sim):
        tgt = self._next(sim, -1, False)
        return tgt if tgt is not None else 0

    def decide(self, sim, t, kind):
        if not (0 <= self.i < len(self.segs)):
            return None
        seg = self.segs[self.i]
        if seg[0] != t.idx:
            return None
        self.count += 1
        if seg[2] != 'p':
            return None
        if seg[3] is not None:
            # anchored pre-emption point: (operation index, step within the operation)
            if t.op_index == seg[3] and t.op_step == seg[4]:
                return self._next(sim, t.idx, True)
            if t.op_index > seg[3] or (t.op_index == seg[3] and t.op_step > seg[4]):
                return self._next(sim, t.idx, True)  # anchor missed (edited record): switch now
            return None
        if self.count >= seg[1]:
            return self._next(sim, t.idx, True)
        return None

    def on_yield(self, sim, t):
        if self.i < len(self.segs):
            tgt = self._next(sim, t.idx, False)
            if tgt is not None:
                return tgt
        r = sim.runnable(exclude=t.idx)
        return r[0] if r else None


# ---------------------------------------------------------------------------
# The simulation
# ---------------------------------------------------------------------------

class SimThread:
    __slots__ = (
        'idx', 'program', 'baton', 'thread', 'finished', 'blocked_on', 'step', 'op_index', 'op_step',
        'results', 'after_return', 'ret_code', 'frame', 'op_kind', 'in_op', 'op_steps', 'gap_code', 'error', 'quiet', 'unwinding'
    )

    def __init__(self, idx, program):
        self.idx = idx
        self.program = program
        self.baton = _allocate()
        self.baton.acquire()
        self.thread = None
        self.finished = False
        self.blocked_on = None
        self.step = 0
        self.op_index = -1
        self.op_step = 0
        self.results = []
        self.after_return = False
        self.ret_code = None
        self.frame = None
        self.op_kind = None
        self.in_op = False
        self.op_steps = []
        self.gap_code = None
        self.error = None
        self.quiet = 0
        self.unwinding = False


class Sim:
    """One simulated run of ``programs`` (list of lists of callables ``op(sim, tid)``)."""

    def __init__(self, programs, policy, faults=None, prefix='', op_kinds=None, max_steps=3_000_000,
                 wall_timeout=60.0, on_switch=None, opcodes=False, record_sites=None):
        self.opcodes = opcodes
        self.record_sites = record_sites    # thread index whose (function, line) visits are counted, or None
        self.site_visits = {}
        self.threads = [SimThread(i, p) for i, p in enumerate(programs)]
        self.policy = policy
        self.faults = dict(faults or {})
        self.prefix = prefix
        self.op_kinds = op_kinds  # parallel structure to programs: kind strings
        self.max_steps = max_steps
        self.wall_timeout = wall_timeout
        self.by_ident = {}
        self.current = None
        self.segments = []
        self.gstep = 0
        self.switches = 0
        self.switch_sig = []  # [(from_kind, from_fn, from_line, to_kind, to_fn, to_line)]
        self.sites = set()
        self.faults_fired = []
        self.probes = {}
        self.deadlock = False
        self.aborting = False
        self.abort_reason = None
        self.ctl = _allocate()
        self.ctl.acquire()
        self.gap_codes = {}
        self.on_switch = on_switch
        self.events = []  # deterministic event log (no ids, no idents, no time)

    # -- helpers ---------------------------------------------------------
    def probe(self, name, n=1):
        self.probes[name] = self.probes.get(name, 0) + n

    def runnable(self, exclude=None):
        return [c.idx for c in self.threads if not c.finished and c.blocked_on is None and c.idx != exclude]

    def _loc(self, t):
        f = t.frame
        if f is None or not t.in_op:
            return ('-', 0)
        try:
            return (f.f_code.co_name, f.f_lineno or 0)
        except Exception:  # pragma: no cover
            return ('?', 0)

    # -- switching -------------------------------------------------------
    def _handoff(self, t, tgt, why):
        """Give the baton to thread index ``tgt`` and park ``t`` (unless finished)."""

        u = self.threads[tgt]
        floc = self._loc(t)
        tloc = self._loc(u)
        fk = t.op_kind if t.in_op else 'idle'
        tk = u.op_kind if u.in_op else 'idle'
        self.switches += 1
        self.switch_sig.append((fk, floc[0], floc[1], tk, tloc[0], tloc[1]))
        if t.in_op:
            self.sites.add(floc)
        self.events.append(('sw', t.idx, t.step, tgt, why, fk, floc[0], floc[1]))
        if t.in_op and u.in_op:
            self.probe('two_ops_overlapped')
            if fk == 'compile' and tk == 'compile':
                self.probe('two_compiles_overlapped')
        if why == 'preempt' and t.after_return and t.ret_code is not None:
            t.gap_code = t.ret_code
            self.gap_codes[t.idx] = t.ret_code
            self.probe('parked_in_return_gap')
        if self.on_switch is not None:
            self.on_switch(self, t, u, why)
        seg = self.segments[-1]
        seg[2] = 'p' if why == 'preempt' else 'y'
        seg[3] = t.op_index
        seg[4] = t.op_step
        self.segments.append([tgt, 0, 'y', None, None])
        self.current = u
        u.baton.release()
        if not t.finished:
            t.baton.acquire()
            if self.aborting:
                raise SimAbort()
            if t.gap_code is not None:
                t.gap_code = None
                self.gap_codes.pop(t.idx, None)

    def yield_blocked(self, t, lock, timed):
        """t cannot take ``lock``: run someone else.  Returns False on a timed wait that expired."""

        t.blocked_on = lock
        self.probe('blocked_on_sim_lock')
        tgt = self.policy.on_yield(self, t)
        if tgt is None:
            if timed:
                t.blocked_on = None
                return False
            # every unfinished thread is blocked
            self.deadlock = True
            self.abort_reason = 'deadlock'
            self.events.append(('deadlock', t.idx))
            self._abort_all(t)
            raise SimAbort()
        self.events.append(('block', t.idx, t.step))
        if timed:
            t.blocked_on = None
        self._handoff(t, tgt, 'block')
        t.blocked_on = None
        return True

    def wake(self, lock):
        for c in self.threads:
            if c.blocked_on is lock:
                c.blocked_on = None

    def _abort_all(self, t):
        self.aborting = True
        for c in self.threads:
            if c is not t and not c.finished:
                try:
                    c.baton.release()
                except RuntimeError:  # pragma: no cover
                    pass

    # -- the trace function ---------------------------------------------
    def _step(self, t, kind):
        t.step += 1
        t.op_step += 1
        self.gstep += 1
        self.segments[-1][1] += 1
        if self.gstep > self.max_steps:
            self.abort_reason = 'step-cap'
            self._abort_all(t)
            raise SimAbort()
        if self.faults:
            fk = (t.idx, t.op_index, t.op_step)
            exc = self.faults.get(fk)
            if exc is not None and t.in_op and (kind not in ('call', 'return') or t.unwinding):
                # Exceptions are injected only where one can really arise: as a callee fails on entry ('call') or as a
                # call completes ('return': the call raises in its caller, inside whatever try/with protects it).
                # A 'line' event is *between* statements - e.g. after a with-body and before __exit__ runs - where
                # neither a failing operation nor (on CPython 3.12) an asynchronous exception can strike; injecting
                # there made correct lock handling look broken.  The fault moves on to the next eligible step.
                del self.faults[fk]
                self.faults.setdefault((t.idx, t.op_index, t.op_step + 1), exc)
                exc = None
            if exc is not None and t.in_op:
                del self.faults[fk]
                loc = self._loc(t)
                self.faults_fired.append((t.idx, t.op_index, t.op_step, exc, loc[0], loc[1]))
                self.events.append(('fault', t.idx, t.op_index, t.op_step, exc, loc[0], loc[1]))
                t.after_return = False
                raise FAULT_EXC[exc]('injected by simulator')
        if self.record_sites == t.idx and kind in ('call', 'line') and t.in_op and t.frame is not None:
            k = (t.frame.f_code.co_name, t.frame.f_lineno)
            self.site_visits[k] = self.site_visits.get(k, 0) + 1
        tgt = self.policy.decide(self, t, kind)
        if tgt is not None and tgt != t.idx:
            self._handoff(t, tgt, 'preempt')
        t.after_return = False

    def _make_tracer(self, t):
        prefix = self.prefix
        step = self._step
        gap_codes = self.gap_codes
        probe = self.probe

        opcodes = self.opcodes

        def local(frame, event, arg):
            if event == 'line':
                t.unwinding = False
                if not opcodes:
                    t.frame = frame
                    step(t, 'line')
            elif event == 'opcode':
                t.frame = frame
                step(t, 'line')
            elif event == 'return':
                t.frame = frame
                step(t, 'return')
                t.after_return = True
                t.ret_code = frame.f_code
                t.unwinding = False
            elif event == 'exception':
                t.unwinding = True
            return local

        def glob(frame, event, arg):
            if event == 'call' and not t.quiet and frame.f_code.co_filename.startswith(prefix):
                if gap_codes:
                    code = frame.f_code
                    for k, v in gap_codes.items():
                        if v is code and k != t.idx:
                            probe('callee_reentered_by_peer_inside_return_gap')
                            break
                t.frame = frame
                if opcodes:
                    frame.f_trace_opcodes = True
                step(t, 'call')
                return local
            return None

        return glob

    # -- thread body -----------------------------------------------------
    def _body(self, t):
        self.by_ident[_get_ident()] = t
        t.baton.acquire()
        tracer = self._make_tracer(t)
        try:
            if self.aborting:
                raise SimAbort()
            self._step(t, 'start')
            for i, op in enumerate(t.program):
                t.op_index = i
                t.op_step = 0
                t.op_kind = self.op_kinds[t.idx][i] if self.op_kinds else 'op'
                t.in_op = True
                t.after_return = False
                t.quiet = 0
                self.events.append(('op+', t.idx, i, t.op_kind))
                sys.settrace(tracer)
                try:
                    res = op(self, t.idx)
                except SimAbort:
                    raise
                except BaseException as e:  # noqa: BLE001 - results are data
                    sys.settrace(None)
                    res = ('exc', type(e).__name__, '' if isinstance(e, RecursionError) else _short(e))
                finally:
                    sys.settrace(None)
                t.in_op = False
                t.frame = None
                t.results.append(res)
                t.op_steps.append(t.op_step)
                self.events.append(('op-', t.idx, i, t.op_step, _digest(res)))
                self._step(t, 'opend')
        except SimAbort:
            pass
        except BaseException as e:  # pragma: no cover - harness bug
            t.error = e
        finally:
            sys.settrace(None)
            t.finished = True
            t.in_op = False
            if not self.aborting:
                tgt = self.policy.on_yield(self, t)
                if tgt is not None:
                    self._handoff(t, tgt, 'finish')
                else:
                    if any(not c.finished for c in self.threads):
                        self.deadlock = True
                        self.abort_reason = 'deadlock'
                        self.events.append(('deadlock', t.idx))
                        self._abort_all(t)
                    self._release_ctl()
            else:
                if all(c.finished for c in self.threads):
                    self._release_ctl()

    def _release_ctl(self):
        try:
            self.ctl.release()
        except RuntimeError:  # pragma: no cover
            pass

    # -- entry point -----------------------------------------------------
    def run(self):
        global CURRENT
        if CURRENT is not None:
            raise HarnessError('nested simulation')
        CURRENT = self
        try:
            for t in self.threads:
                th = threading.Thread(target=self._body, args=(t,), name=f'sim-{t.idx}', daemon=True)
                t.thread = th
                th.start()
            first = self.policy.first(self)
            self.segments.append([first, 0, 'y', None, None])
            self.current = self.threads[first]
            self.events.append(('first', first))
            self.current.baton.release()
            if not self.ctl.acquire(True, self.wall_timeout):
                self.abort_reason = 'wall-timeout'
                raise HarnessError(f'simulation did not finish within {self.wall_timeout}s (gstep={self.gstep})')
            for t in self.threads:
                t.thread.join(self.wall_timeout)
                if t.thread.is_alive():
                    raise HarnessError('simulated thread did not terminate')
            for t in self.threads:
                if t.error is not None:
                    raise HarnessError(f'harness exception in simulated thread {t.idx}: {t.error!r}')
            if self.abort_reason == 'step-cap':
                raise HarnessError(f'step cap {self.max_steps} exceeded')
        finally:
            CURRENT = None
        # drop empty trailing segments
        return self


def _short(e, n=300):
    s = str(e)
    return s if len(s) <= n else s[:n] + '...'


def _digest(obj):
    import hashlib
    return hashlib.blake2b(repr(obj).encode('utf8', 'backslashreplace'), digest_size=8).hexdigest()


class untraced:
    """Harness bookkeeping inside an operation: frames entered here are not steps (no pre-emption, no faults)."""

    def __enter__(self):
        sim, t = _cur()
        self.t = t
        if t is not None:
            t.quiet += 1
        return self

    def __exit__(self, *a):
        if self.t is not None:
            self.t.quiet -= 1
        return False


class traced:
    """A library call made from within an ``untraced`` region."""

    def __enter__(self):
        sim, t = _cur()
        self.t = t
        self.saved = 0
        if t is not None:
            self.saved = t.quiet
            t.quiet = 0
        return self

    def __exit__(self, *a):
        if self.t is not None:
            self.t.quiet = self.saved
        return False
