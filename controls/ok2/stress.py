"""
Stress test for the hand-written compile cache in `soupsieve/css_parser.py`.

Run with: cd /tmp/wt_ok2 && PYTHONPATH=/tmp/wt_ok2 /venv/bin/python stress.py [seconds] [threads] [seed]

What it does
- builds > 500 distinct cache keys (valid and invalid patterns, namespaces, custom selectors, flags),
  and computes a single-threaded reference for each of them with the *uncached* function;
- starts several worker threads that compile overlapping random subsets of those keys, purge at random,
  run select/match on a small document, and compare every result with the reference;
- a monitor thread (and every worker after each call) checks `currsize <= maxsize` continuously;
- afterwards, sequential checks: exact LRU order, bound, purge, exceptions leave the cache untouched
  (syntax error, unhashable argument, failing `sys.stdout` under `DEBUG`, `KeyboardInterrupt`/`MemoryError`
  raised in the middle of a compile), equality/identity semantics of keys.

Exit status 0 and the line `OK` mean that no problem was found.
"""
from __future__ import annotations
import collections
import copy
import pickle
import random
import sys
import threading
import time

import bs4
import soupsieve as sv
from soupsieve import css_parser as cp

assert sv.__file__.startswith('/tmp/wt_ok2/'), sv.__file__

CACHE = cp._cached_css_compile
MAXSIZE = cp._MAXCACHE

DURATION = float(sys.argv[1]) if len(sys.argv) > 1 else 10.0
NTHREADS = int(sys.argv[2]) if len(sys.argv) > 2 else 8
SEED = int(sys.argv[3]) if len(sys.argv) > 3 else 12345

MARKUP = """
<html><body>
<div id="d1" class="a b"><p id="p1" value="1">one</p><p id="p2" value="2" class="x">two <span>s</span></p></div>
<div id="d2"><a href="http://x" id="a1">link</a><input id="i1" type="checkbox" checked><p id="p3" lang="en">t</p></div>
</body></html>
"""
SOUP = bs4.BeautifulSoup(MARKUP, 'html.parser')


def build_keys() -> list[tuple]:
    """Build the `(pattern, namespaces, custom, flags)` call arguments (public API form)."""

    valid = [f'[value="{i}"]' for i in range(450)]
    valid += [f'p:nth-child({i}n+{i % 7})' for i in range(1, 60)]
    valid += [f'div#d{i} > p.x, span:not(.c{i})' for i in range(60)]
    valid += ['p:is(.x, #p1)', 'div:has(> a[href])', ':root', 'p:lang(en)', 'input:checked', 'a:any-link',
              'p:-soup-contains("two")', 'div p ~ p', '*|p', 'p[id^=p][id$="2" i]']
    invalid = [f'p[value={i}' for i in range(40)]
    invalid += [f'div:nope-{i}' for i in range(20)]
    invalid += ['p >', ', p', 'p:has(', ':nth-child(x)', 'p::before', '[a=', 'p:is(', '']
    keys: list[tuple] = []
    for p in valid + invalid:
        keys.append((p, None, None, 0))
    # Namespaces / custom / flags variations (a few of them equal as keys, but spelled differently)
    for i in range(40):
        keys.append((f'ns|p.c{i}', {'ns': 'http://ns', 'x': 'http://x'}, None, 0))
        keys.append((f'ns|p.c{i}', collections.OrderedDict([('x', 'http://x'), ('ns', 'http://ns')]), None, 0))
        keys.append((f'ns|p.c{i}', {}, None, 0))
        keys.append((f'p:--cust.c{i}', None, {':--cust': 'p.x', ':--other': 'div'}, 0))
        keys.append((f'p:--cust.c{i}', None, {':--other': 'div', ':--cust': 'p.x'}, 0))
        keys.append((f'p:--cust.c{i}', None, {}, 0))  # Invalid: undefined custom selector
        keys.append((f'p:--cust.c{i}', None, None, 0))  # Invalid as well, but a different key
        keys.append((f'p.flag{i}', None, None, True))
        keys.append((f'p.flag{i}', None, None, 1))
    keys.append(('p:--bad', None, {':--bad': 'p['}, 0))  # Custom selector with a syntax error
    keys.append(('p', None, {'nodashes': 'p'}, 0))  # Invalid custom name
    return keys


def api_compile(key: tuple) -> sv.SoupSieve:
    """Compile through the public API."""

    pattern, namespaces, custom, flags = key
    return sv.compile(pattern, namespaces, flags, custom=custom)


def fresh(key: tuple) -> sv.SoupSieve:
    """Parse without any cache."""

    pattern, namespaces, custom, flags = key
    return CACHE.__wrapped__(
        pattern,
        sv.ct.Namespaces(namespaces) if namespaces is not None else None,
        sv.ct.CustomSelectors(custom) if custom is not None else None,
        flags
    )


def ids(tags) -> list[str]:
    """Summarize the result of a select."""

    return [t.get('id', t.name) for t in tags]


class Silent:
    """Swallow `DEBUG` output."""

    def write(self, s):
        return len(s)

    def flush(self):
        pass


def outcome(func, key):
    """Return `('ok', compiled, selected ids)` or `('err', exception type, message)`."""

    try:
        c = func(key)
    except Exception as e:  # noqa: BLE001
        return ('err', type(e), str(e))
    return ('ok', c, ids(c.select(SOUP)))


KEYS = build_keys()
assert len(KEYS) > 500
sv.purge()
_stdout = sys.stdout
sys.stdout = Silent()  # Some keys use `flags=True`, which is `DEBUG`
try:
    REFERENCE = [outcome(fresh, k) for k in KEYS]
finally:
    sys.stdout = _stdout
N_VALID = sum(1 for r in REFERENCE if r[0] == 'ok')
N_INVALID = len(REFERENCE) - N_VALID
assert N_VALID > MAXSIZE and N_INVALID > 50, (N_VALID, N_INVALID)
assert CACHE.cache_info().currsize == 0  # `__wrapped__` does not populate the cache

failures: list[str] = []
fail_lock = threading.Lock()
counters = collections.Counter()


def fail(msg: str) -> None:
    """Record a failure."""

    with fail_lock:
        if len(failures) < 20:
            failures.append(msg)


def check_bound(where: str) -> None:
    """The cache never holds more than its bound."""

    info = CACHE.cache_info()
    if tuple(info._fields) != ('hits', 'misses', 'maxsize', 'currsize'):
        fail(f'{where}: fields {info._fields}')
    if info.maxsize != MAXSIZE:
        fail(f'{where}: maxsize {info.maxsize}')
    if info.currsize > counters['max currsize']:
        counters['max currsize'] = info.currsize
    if not 0 <= info.currsize <= MAXSIZE:
        fail(f'{where}: currsize {info.currsize} > {MAXSIZE}')
    if len(CACHE._cache) > MAXSIZE:  # Direct look at the storage (`len` of a dict is atomic)
        fail(f'{where}: {len(CACHE._cache)} entries stored')


def check_against_reference(i: int, got, where: str) -> None:
    """Compare an outcome with the single-threaded one."""

    ref = REFERENCE[i]
    if got[0] != ref[0]:
        fail(f'{where}: key {KEYS[i]!r}: {got!r} instead of {ref!r}')
    elif ref[0] == 'err':
        if got[1] is not ref[1] or got[2] != ref[2]:
            fail(f'{where}: key {KEYS[i]!r}: raised {got[1:]!r} instead of {ref[1:]!r}')
    else:
        if got[1] != ref[1] or hash(got[1]) != hash(ref[1]):
            fail(f'{where}: key {KEYS[i]!r}: compiled object differs from a fresh parse')
        if got[1].pattern != KEYS[i][0] or got[1].flags != KEYS[i][3]:
            fail(f'{where}: key {KEYS[i]!r}: wrong pattern/flags {got[1].pattern!r} {got[1].flags!r}')
        if got[2] != ref[2]:
            fail(f'{where}: key {KEYS[i]!r}: selected {got[2]!r} instead of {ref[2]!r}')


def worker(n: int, stop: threading.Event) -> None:
    """Compile an overlapping subset of keys, purge at random, verify everything."""

    rnd = random.Random(SEED * 1000 + n)
    # Overlapping windows: every worker sees about 2/3 of the keys, plus a shared hot set
    lo = (n * len(KEYS) // NTHREADS) % len(KEYS)
    mine = [(lo + j) % len(KEYS) for j in range(2 * len(KEYS) // 3)]
    hot = list(range(0, len(KEYS), 37))
    # The module level `select`/`match`/... accept `custom` but do not forward it to `compile` (existing
    # behaviour, unrelated to the cache), so they are only exercised with keys that have no custom selectors.
    hot_api = [i for i in range(0, len(KEYS), 13) if KEYS[i][2] is None]
    where = f'worker {n}'
    try:
        while not stop.is_set():
            r = rnd.random()
            if r < 0.001:  # Rare enough for the cache to be full most of the time
                sv.purge()
                counters['purge'] += 1
            elif r < 0.05:
                # Module level API that compiles implicitly
                i = rnd.choice(hot_api)
                pattern, namespaces, _custom, flags = KEYS[i]
                try:
                    got = ('ok', None, ids(sv.select(pattern, SOUP, namespaces, 0, flags)))
                    sv.match(pattern, SOUP.p, namespaces, flags)
                    sv.closest(pattern, SOUP.span, namespaces, flags)
                    sv.filter(pattern, SOUP.div, namespaces, flags)
                except Exception as e:  # noqa: BLE001
                    got = ('err', type(e), str(e))
                ref = REFERENCE[i]
                if got[0] != ref[0] or got[2] != ref[2]:
                    fail(f'{where}: select {KEYS[i]!r}: {got!r} instead of {ref!r}')
                counters['select'] += 1
            else:
                i = rnd.choice(hot) if r < 0.3 else rnd.choice(mine)
                check_against_reference(i, outcome(api_compile, KEYS[i]), where)
                counters['compile'] += 1
            check_bound(where)
    except BaseException as e:  # noqa: BLE001
        fail(f'{where}: died with {e!r}')
        raise


def monitor(stop: threading.Event) -> None:
    """Watch the bound continuously."""

    while not stop.is_set():
        check_bound('monitor')
        counters['monitor'] += 1


def concurrent_phase() -> None:
    """Run the threads."""

    old_interval = sys.getswitchinterval()
    sys.setswitchinterval(1e-6)  # Pre-empt as often as possible
    stop = threading.Event()
    threads = [threading.Thread(target=worker, args=(n, stop), daemon=True) for n in range(NTHREADS)]
    threads.append(threading.Thread(target=monitor, args=(stop,), daemon=True))
    try:
        for t in threads:
            t.start()
        time.sleep(DURATION)
        stop.set()
        for t in threads:
            t.join(60)
            if t.is_alive():
                fail(f'{t.name} hangs')
    finally:
        sys.setswitchinterval(old_interval)

    if counters['max currsize'] < MAXSIZE:
        fail(f"the cache was never full (max {counters['max currsize']}): run longer")

    # Nothing wrong is left in the cache: every stored value equals a fresh parse of its own key
    with CACHE._lock:
        items = list(CACHE._cache.items())
    if len(items) > MAXSIZE:
        fail(f'after threads: {len(items)} entries')
    for key, value in items:
        pattern, namespaces, custom, flags = key
        ref = CACHE.__wrapped__(pattern, namespaces, custom, flags)
        if value != ref or hash(value) != hash(ref) or value.pattern != pattern:
            fail(f'after threads: bad entry for {key!r}')
    # And everything still compiles to the right thing
    for i in range(len(KEYS)):
        check_against_reference(i, outcome(api_compile, KEYS[i]), 'after threads')
        check_bound('after threads')


def same_key_race() -> None:
    """Many threads compile the same not yet cached key at the same moment."""

    for round_ in range(30):
        sv.purge()
        pattern = f'div.race{round_} > p:nth-child(2n+1):not(.z)'
        barrier = threading.Barrier(NTHREADS)
        results: list = [None] * NTHREADS

        def run(n: int) -> None:
            barrier.wait()
            results[n] = sv.compile(pattern)

        threads = [threading.Thread(target=run, args=(n,)) for n in range(NTHREADS)]
        for t in threads:
            t.start()
        for t in threads:
            t.join(60)
        ref = fresh((pattern, None, None, 0))
        if any(r != ref for r in results):
            fail('same key race: wrong result')
        info = CACHE.cache_info()
        if info.currsize != 1:
            fail(f'same key race: currsize {info.currsize}')
        if sv.compile(pattern) is not sv.compile(pattern):
            fail('same key race: entry not shared afterwards')


class Boom(Exception):
    """Test exception."""


class FailingStdout:
    """A `sys.stdout` that fails after a few writes."""

    def __init__(self, after: int, exc: type[BaseException]) -> None:
        self.after = after
        self.exc = exc

    def write(self, s: str) -> int:
        self.after -= 1
        if self.after < 0:
            raise self.exc('stdout is gone')
        return len(s)

    def flush(self) -> None:
        pass


def snapshot() -> list:
    """Exact cache content, in LRU order."""

    with CACHE._lock:
        return [(k, id(v)) for k, v in CACHE._cache.items()]


def sequential_phase() -> None:
    """Deterministic single-threaded checks."""

    # Purge empties
    sv.purge()
    info = CACHE.cache_info()
    assert (info.hits, info.misses, info.maxsize, info.currsize) == (0, 0, MAXSIZE, 0), info
    assert pickle.loads(pickle.dumps(info)) == info

    # Bound and exact LRU order
    valid = [k for k, r in zip(KEYS, REFERENCE) if r[0] == 'ok' and k[1] is None and k[2] is None and k[3] == 0]
    assert len(valid) > MAXSIZE + 20
    first = [api_compile(k) for k in valid[:MAXSIZE]]
    assert CACHE.cache_info().currsize == MAXSIZE
    assert api_compile(valid[0]) is first[0]  # Hit: refreshes entry 0
    api_compile(valid[MAXSIZE])  # Evicts entry 1, the least recently used one
    assert CACHE.cache_info().currsize == MAXSIZE
    assert api_compile(valid[0]) is first[0]
    assert api_compile(valid[2]) is first[2]
    again = api_compile(valid[1])
    assert again is not first[1] and again == first[1] and hash(again) == hash(first[1])
    assert CACHE.cache_info().currsize == MAXSIZE
    info = CACHE.cache_info()
    assert info.hits == 3 and info.misses == MAXSIZE + 2, info

    # Exceptions leave the cache exactly as it was
    before = snapshot()
    for bad in (('p[', None, None, 0), ('p:--x', None, {}, 0), ('p', None, {'bad': 'p'}, 0)):
        for _ in range(2):
            try:
                api_compile(bad)
            except (sv.SelectorSyntaxError, KeyError):
                pass
            else:
                raise AssertionError(bad)
    for bad in ((['p'], None, None, 0), ('p', None, None, [])):
        try:
            api_compile(bad)
        except TypeError:
            pass
        else:
            raise AssertionError(bad)
    assert snapshot() == before

    # A failing `sys.stdout` under `DEBUG`, at every possible write
    real_stdout = sys.stdout
    key = ('div.dbg > p:is(.a, .b):nth-child(2n+1 of .c)', None, None, sv.DEBUG)
    for exc in (Boom, OSError, KeyboardInterrupt, MemoryError):
        after = 0
        while True:
            sys.stdout = FailingStdout(after, exc)
            try:
                got = api_compile(key)
            except exc:
                sys.stdout = real_stdout
                assert snapshot() == before, (exc, after)
                after += 1
                continue
            finally:
                sys.stdout = real_stdout
            break
        assert after > 3, after
        # The first complete compile is stored, and equals a fresh parse
        sys.stdout = Silent()
        try:
            ref = fresh(key)
        finally:
            sys.stdout = real_stdout
        assert got == ref and hash(got) == hash(ref) and api_compile(key) is got
        assert len(snapshot()) == MAXSIZE
        sv.purge()
        for k in valid[:MAXSIZE]:
            api_compile(k)
        before = snapshot()

    # An exception raised by the wrapped function itself, with a full cache
    real = CACHE.__wrapped__
    for exc in (Boom, KeyboardInterrupt, MemoryError):
        def broken(*args, exc=exc):
            raise exc()
        CACHE.__wrapped__ = broken
        try:
            api_compile(('p.never-seen', None, None, 0))
        except exc:
            pass
        else:
            raise AssertionError(exc)
        finally:
            CACHE.__wrapped__ = real
        assert snapshot() == before
    assert api_compile(('p.never-seen', None, None, 0)) == fresh(('p.never-seen', None, None, 0))

    # Key semantics
    sv.purge()
    ns1 = {'a': 'http://a', 'b': 'http://b'}
    ns2 = collections.OrderedDict([('b', 'http://b'), ('a', 'http://a')])
    assert sv.compile('a|p', ns1) is sv.compile('a|p', ns2)
    assert sv.compile('p', flags=True) is sv.compile('p', flags=1)
    assert sv.compile('p', {}) is not sv.compile('p')
    assert sv.compile('p', {}) != sv.compile('p')
    assert sv.compile('p', custom={}) is not sv.compile('p')
    assert sv.compile('p', custom={}) != sv.compile('p')
    assert sv.compile('p', custom={':--a': 'p', ':--b': 'div'}) is sv.compile('p', custom={':--b': 'div', ':--a': 'p'})
    assert CACHE.cache_info().currsize == 6
    c = sv.compile('p')
    assert sv.compile(c) is c
    for kwargs in ({'namespaces': {}}, {'custom': {}}, {'flags': 1}, {'namespaces': ns1}):
        try:
            sv.compile(c, **kwargs)
        except ValueError:
            pass
        else:
            raise AssertionError(kwargs)
    for obj in (pickle.loads(pickle.dumps(c)), copy.copy(c), copy.deepcopy(c)):
        assert obj == c and hash(obj) == hash(c)
    sv.purge()
    assert CACHE.cache_info().currsize == 0
    assert sv.compile('p') == c and sv.compile('p') is not c


def main() -> int:
    """Run everything."""

    print(f'{len(KEYS)} keys ({N_VALID} valid, {N_INVALID} invalid), {NTHREADS} threads, {DURATION}s, seed {SEED}')
    real_stdout = sys.stdout
    sys.stdout = Silent()  # Some keys use `flags=True`, which is `DEBUG`
    try:
        concurrent_phase()
        same_key_race()
        sequential_phase()
    finally:
        sys.stdout = real_stdout
    print(dict(counters), CACHE.cache_info())
    if failures:
        print('FAILURES:')
        for f in failures:
            print('  ', f)
        return 1
    print('OK')
    return 0


if __name__ == '__main__':
    sys.exit(main())
