"""
Self check for the `Immutable` / pickling refactor of soupsieve/css_types.py.

Run:  cd /tmp/wt_ok5 && PYTHONPATH=/tmp/wt_ok5 /venv/bin/python selfcheck.py

It compiles a varied set of selectors and checks, on the worktree copy of the library:

  * immutability of every reachable node (setattr / delattr of existing, private and new names; item
    assignment / deletion on the maps),
  * `==` / `!=` / `hash` laws, pairwise, against an independent structural oracle and against the
    compile arguments,
  * pickle (every protocol), `copy.copy`, `copy.deepcopy` of the compiled object and of every single node,
  * that the lazily cached hash is not observable (pickle bytes, repr, equality before / after hashing),
  * same selection on sample documents,
  * (when `git` is available) compatibility with the unmodified library at HEAD: same `repr`, same hash
    *relations*, same selections, old pickles load here, new pickles load there.
"""
from __future__ import annotations

import contextlib
import copy
import io
import itertools
import os
import pickle
import re
import shutil
import subprocess
import sys
import tempfile
import warnings
from collections import OrderedDict
from unittest import mock

HERE = os.path.dirname(os.path.abspath(__file__))
warnings.simplefilter('ignore', FutureWarning)  # `:contains()` is deprecated, still part of the corpus
sys.path.insert(0, HERE)

import bs4  # noqa: E402
import soupsieve as sv  # noqa: E402
from soupsieve import css_types as ct  # noqa: E402
from soupsieve import css_match as cm  # noqa: E402

LEGACY_MODE = os.environ.get('SELFCHECK_LEGACY')  # set in the sub-process that runs the HEAD version

if not LEGACY_MODE:
    assert os.path.dirname(os.path.dirname(os.path.abspath(sv.__file__))) == HERE, sv.__file__

PROTOCOLS = list(range(0, pickle.HIGHEST_PROTOCOL + 1))
assert PROTOCOLS == [0, 1, 2, 3, 4, 5], PROTOCOLS

CHECKS = 0


def ok(cond, *msg):
    """Count and assert."""

    global CHECKS
    CHECKS += 1
    if not cond:
        raise AssertionError(' '.join(str(m) for m in msg))


###############################################################################
# Corpus
###############################################################################

NS1 = {'x': 'http://example.com/x', 'y': 'http://example.com/y', '': 'http://www.w3.org/1999/xhtml'}
NS1_REORDERED = dict(reversed(list(NS1.items())))
NS1_ORDERED = OrderedDict(sorted(NS1.items()))
NS2 = {'x': 'http://example.com/OTHER'}

CUSTOM1 = {
    ':--parent': ':has(> *|*)',
    ':--parent-para': 'p:--parent',
    ':--heading': 'h1, h2, h3',
    ':--Odd-Item': 'li:nth-child(odd)'
}
CUSTOM1_REORDERED = dict(reversed(list(CUSTOM1.items())))
CUSTOM1_ORDERED = OrderedDict(sorted(CUSTOM1.items()))
CUSTOM2 = {':--heading': 'h1, h2'}

# (pattern, namespaces, custom, flags)
CASES = [
    ('p', None, None, 0),
    ('p', None, None, 1),
    ('p', None, None, True),
    ('p', None, None, False),
    ('p', {}, None, 0),
    ('p', None, {}, 0),
    ('p', {}, {}, 0),
    ('p', NS1, None, 0),
    ('p', NS1_REORDERED, None, 0),
    ('p', NS1_ORDERED, None, 0),
    ('p', NS2, None, 0),
    ('p', NS1, CUSTOM1, 0),
    ('p', NS1_ORDERED, CUSTOM1_REORDERED, 0),
    ('p', NS1_REORDERED, CUSTOM1_ORDERED, True),
    ('p', NS1, CUSTOM1, 1),
    (' p', None, None, 0),
    ('P', None, None, 0),
    ('div', None, None, 0),
    ('*', None, None, 0),
    ('|p', NS1, None, 0),
    ('*|p', NS1, None, 0),
    ('x|p', NS1, None, 0),
    ('x|p', NS2, None, 0),
    ('y|*', NS1, None, 0),
    ('x|p', None, None, 0),
    ('|p', None, None, 0),
    ('*|*', None, None, 0),
    ('#main', None, None, 0),
    ('p.a', None, None, 0),
    ('p.a.b#one', None, None, 0),
    ('p.b.a#one', None, None, 0),
    ('[type]', None, None, 0),
    ('[type=text]', None, None, 0),
    ('[type=text i]', None, None, 0),
    ('[type="TEXT" s]', None, None, 0),
    ('[type=x i]', None, None, 0),
    ('[type=x]', None, None, 0),
    ('[class~=a]', None, None, 0),
    ('[lang|=en]', None, None, 0),
    ('[href^=http]', None, None, 0),
    ('[href$=".html"]', None, None, 0),
    ('[href*=example i]', None, None, 0),
    ('[id!=one]', None, None, 0),
    ('[x|attr=v]', NS1, None, 0),
    ('[*|attr]', NS1, None, 0),
    ('[|attr]', NS1, None, 0),
    ('div > p', None, None, 0),
    ('div p', None, None, 0),
    ('div + p', None, None, 0),
    ('div ~ p', None, None, 0),
    ('div > p ~ span a', None, None, 0),
    ('p, div', None, None, 0),
    ('div, p', None, None, 0),
    (':is(p, div)', None, None, 0),
    (':is(, p)', None, None, 0),
    (':is()', None, None, 0),
    (':where(p.a, span)', None, None, 0),
    (':matches(p)', None, None, 0),
    (':not(p)', None, None, 0),
    (':not(p, .a)', None, None, 0),
    (':not(:is(, p))', None, None, 0),
    ('div:not(:is(.a, :not(p)))', None, None, 0),
    (':has(> p)', None, None, 0),
    (':has(+ p, ~ span)', None, None, 0),
    ('div:has(p:has(> span))', None, None, 0),
    (':nth-child(2n+1)', None, None, 0),
    (':nth-child(odd)', None, None, 0),
    (':nth-child(even)', None, None, 0),
    (':nth-child(3)', None, None, 0),
    (':nth-child(-n+3)', None, None, 0),
    (':nth-child(2n+1 of p.a)', None, None, 0),
    (':nth-child(2n+1 of p.b)', None, None, 0),
    (':nth-last-child(2n+1 of p.a, span)', None, None, 0),
    (':nth-last-child(2)', None, None, 0),
    (':nth-of-type(2n)', None, None, 0),
    (':nth-last-of-type(1)', None, None, 0),
    (':first-child', None, None, 0),
    (':last-child', None, None, 0),
    (':only-child', None, None, 0),
    (':first-of-type', None, None, 0),
    (':last-of-type', None, None, 0),
    (':only-of-type', None, None, 0),
    (':empty', None, None, 0),
    (':root', None, None, 0),
    (':root > body', None, None, 0),
    (':scope > p', None, None, 0),
    (':contains("text")', None, None, 0),
    (':-soup-contains("text", "other")', None, None, 0),
    (':-soup-contains-own("text", "other")', None, None, 0),
    (':-soup-contains-own(text)', None, None, 0),
    (':-soup-contains(text)', None, None, 0),
    (':lang(en)', None, None, 0),
    (':lang("*-US", de)', None, None, 0),
    (':lang(de, "*-US")', None, None, 0),
    (':dir(ltr)', None, None, 0),
    (':dir(rtl)', None, None, 0),
    (':checked', None, None, 0),
    (':default', None, None, 0),
    (':disabled', None, None, 0),
    (':enabled', None, None, 0),
    (':indeterminate', None, None, 0),
    (':in-range', None, None, 0),
    (':out-of-range', None, None, 0),
    (':optional', None, None, 0),
    (':required', None, None, 0),
    (':placeholder-shown', None, None, 0),
    (':read-only', None, None, 0),
    (':read-write', None, None, 0),
    (':link', None, None, 0),
    (':any-link', None, None, 0),
    (':defined', None, None, 0),
    (':target', None, None, 0),
    (':hover, :focus, :active, :visited', None, None, 0),
    (':current(p), :past, :future', None, None, 0),
    (':focus-within, :focus-visible, :target-within, :user-invalid, :host, :paused, :playing', None, None, 0),
    (':--heading', None, CUSTOM1, 0),
    (':--heading', None, CUSTOM1_REORDERED, 0),
    (':--heading', None, CUSTOM1_ORDERED, 0),
    (':--heading', None, CUSTOM2, 0),
    (':--parent-para', None, CUSTOM1, 0),
    (':--parent-para', None, CUSTOM1_REORDERED, 0),
    (':--parent-para, :--odd-item', NS1, CUSTOM1, 0),
    ('ul > :--odd-item:not(:--heading)', None, CUSTOM1, 0),
    (':--parent-para', None, {':--parent-para': 'p:--parent', ':--parent': ':has(> *)'}, 0),
    ('x|p:nth-child(2 of x|*):not([y|attr="1" i]):lang(en):-soup-contains-own("a")', NS1, CUSTOM1, 0),
    (r'p\.a, #\31 23, [data-x="a\"b"]', None, None, 0),
    ('p:is(.a, .b):where(:not(.c)):has(> span:nth-of-type(2n+1))', None, None, 0),
]

HTML = """<!DOCTYPE html>
<html lang="en">
<head><meta http-equiv="content-language" content="en-US"><title>t</title></head>
<body>
<div id="main" class="a b">
<h1>Head text</h1>
<p id="one" class="a b">text <span>other</span> <span lang="de">zwei</span></p>
<p class="a">second <a href="http://example.com/a.html">link</a></p>
<p class="b" lang="en-US" dir="rtl">third</p>
<p class="a" id="123"></p>
<p class="a" data-x='a"b'>text</p>
<span dir="ltr">span</span>
</div>
<div id="other"><h2>H2</h2><p class="p.a">only</p></div>
<ul><li>1</li><li class="a">2</li><li>3</li><li>4</li><li dir="auto">5</li></ul>
<form id="f">
<input type="text" id="t1" placeholder="ph">
<input type="TEXT" id="t2" value="v" required>
<input type="x" id="t3" readonly>
<input type="checkbox" id="c1" checked>
<input type="checkbox" id="c2" disabled>
<input type="radio" name="r" id="r1">
<input type="radio" name="r2" id="r2" checked>
<input type="number" id="n1" min="1" max="5" value="3">
<input type="number" id="n2" min="1" max="5" value="9">
<select><option selected>a</option><option>b</option></select>
<textarea></textarea>
<button type="submit">go</button>
<progress></progress>
<custom-element></custom-element>
</form>
</body>
</html>
"""

XML = """<?xml version="1.0" encoding="UTF-8"?>
<root xmlns="http://www.w3.org/1999/xhtml" xmlns:x="http://example.com/x" xmlns:y="http://example.com/y">
<p>plain</p>
<x:p x:attr="v" y:attr="1">a</x:p>
<x:p>b</x:p>
<y:p attr="q">text</y:p>
<y:q xml:lang="en"><x:p>a nested</x:p></y:q>
</root>
"""


def make_docs():
    """Sample documents."""

    docs = [
        ('html.parser', bs4.BeautifulSoup(HTML, 'html.parser')),
        ('html5lib', bs4.BeautifulSoup(HTML, 'html5lib')),
        ('lxml-xml', bs4.BeautifulSoup(XML, 'lxml-xml')),
    ]
    return docs


def quiet():
    """Swallow the chatter of the DEBUG flag (`flags=1`)."""

    return contextlib.redirect_stdout(io.StringIO())


def selection(compiled, docs):
    """Select on every document (from the soup, from an inner scope), return element positions."""

    with quiet():
        return _selection(compiled, docs)


def _selection(compiled, docs):
    """See `selection`."""

    result = []
    for _name, soup in docs:
        index = {id(el): i for i, el in enumerate(soup.find_all(True))}
        result.append([index[id(el)] for el in compiled.select(soup)])
        result.append([index[id(el)] for el in compiled.select(soup, limit=2)])
        inner = soup.find(True).find(True)
        result.append([index[id(el)] for el in compiled.select(inner)])
        result.append([i for el, i in ((el, index[id(el)]) for el in soup.find_all(True)) if compiled.match(el)])
        first = compiled.select_one(soup)
        result.append(None if first is None else index[id(first)])
        result.append([index[id(el)] for el in compiled.filter(inner)])
        deepest = soup.find_all(True)[-1]
        closest = compiled.closest(deepest)
        result.append(None if closest is None else index[id(closest)])
    return result


def fresh_compile(case):
    """Compile bypassing the cache (so that equal arguments give distinct objects)."""

    pattern, namespaces, custom, flags = case
    sv.purge()
    with quiet():
        return sv.compile(pattern, namespaces, flags, custom=custom)


def case_key(case):
    """What the equality of compiled objects must be equivalent to."""

    pattern, namespaces, custom, flags = case
    return (
        pattern,
        None if namespaces is None else frozenset(namespaces.items()),
        None if custom is None else frozenset(custom.items()),
        int(flags)
    )


###############################################################################
# Independent structure knowledge (does not use `_fields` / `__reduce__`)
###############################################################################

EXPECTED_FIELDS = {
    'Selector': (
        'tag', 'ids', 'classes', 'attributes', 'nth', 'selectors', 'relation', 'rel_type', 'contains', 'lang', 'flags'
    ),
    'SelectorNull': (),
    'SelectorTag': ('name', 'prefix'),
    'SelectorAttribute': ('attribute', 'prefix', 'pattern', 'xml_type_pattern'),
    'SelectorContains': ('text', 'own'),
    'SelectorNth': ('a', 'n', 'b', 'of_type', 'last', 'selectors'),
    'SelectorLang': ('languages',),
    'SelectorList': ('selectors', 'is_not', 'is_html'),
    'SoupSieve': ('pattern', 'selectors', 'namespaces', 'custom', 'flags'),
}

RE_TYPE = type(re.compile(''))


def fields_of(node):
    """Fields of a node."""

    return EXPECTED_FIELDS[type(node).__name__]


def walk(obj, path='$'):
    """Yield `(path, node)` for every `Immutable`, `ImmutableDict`, regex and tuple reachable."""

    if isinstance(obj, ct.Immutable):
        yield path, obj
        for name in fields_of(obj):
            yield from walk(getattr(obj, name), f'{path}.{name}')
    elif isinstance(obj, ct.ImmutableDict):
        yield path, obj
    elif isinstance(obj, tuple):
        for i, item in enumerate(obj):
            yield from walk(item, f'{path}[{i}]')


def oracle_eq(a, b, strict=False):
    """
    Independent structural equality.

    Non strict: the value semantics `==` must have (`True == 1`, maps compare by content).
    Strict: additionally the concrete types must agree (what a faithful copy must preserve).
    """

    if isinstance(a, ct.Immutable) or isinstance(b, ct.Immutable):
        if type(a) is not type(b):
            return False
        return all(oracle_eq(getattr(a, k), getattr(b, k), strict) for k in fields_of(a))
    if isinstance(a, tuple) or isinstance(b, tuple):
        if not (isinstance(a, tuple) and isinstance(b, tuple)) or len(a) != len(b):
            return False
        return all(oracle_eq(x, y, strict) for x, y in zip(a, b))
    if isinstance(a, RE_TYPE) or isinstance(b, RE_TYPE):
        if not (isinstance(a, RE_TYPE) and isinstance(b, RE_TYPE)):
            return False
        return a.pattern == b.pattern and a.flags == b.flags
    if isinstance(a, ct.ImmutableDict) or isinstance(b, ct.ImmutableDict):
        if a is None or b is None:
            return False
        if strict and type(a) is not type(b):
            return False
        return dict(a.items()) == dict(b.items()) and (not strict or list(a.items()) == list(b.items()))
    if strict and type(a) is not type(b):
        return False
    return a == b


###############################################################################
# Laws
###############################################################################

def check_structure(compiled):
    """Every node has exactly the expected fields and a faithful `__reduce__`."""

    for path, node in walk(compiled):
        if isinstance(node, ct.Immutable):
            ok(type(node).__name__ in EXPECTED_FIELDS, path)
            expected = fields_of(node)
            ok(type(node)._fields == expected, path, type(node)._fields)
            cls, args = node.__reduce__()
            ok(cls is type(node), path)
            ok(len(args) == len(expected), path, 'reduce passes every field')
            for name, value in zip(expected, args):
                ok(value is getattr(node, name), path, name)
            ok(not hasattr(node, '__dict__'), path, 'no instance dict')
        else:
            cls, args = node.__reduce__()
            ok(cls is type(node) and args == (dict(node.items()),), path)
            ok(list(args[0].items()) == list(node.items()), path, 'order kept')
            ok(not hasattr(node, '__dict__'), path, 'no instance dict')


class Sentinel:
    """Marker."""


def check_immutable(compiled):
    """`setattr` / `delattr` / item assignment is rejected everywhere and changes nothing."""

    before = repr(compiled)
    nodes = list(walk(compiled))
    for path, node in nodes:
        if isinstance(node, ct.Immutable):
            names = list(fields_of(node)) + ['_hash', '_fields', '__slots__', '__class__', 'brand_new', '__dict__']
            expected_exc = (AttributeError,)
        else:
            names = ['_d', '_hash', 'brand_new', '__class__', '__dict__']
            expected_exc = (AttributeError,)
        for name in names:
            had = hasattr(node, name)
            old = getattr(node, name, Sentinel)
            for value in (old if old is not Sentinel else 1, None, 3, 'x', (), Sentinel()):
                try:
                    setattr(node, name, value)
                except expected_exc:
                    ok(True)
                else:
                    ok(False, 'setattr did not raise', path, name)
            try:
                delattr(node, name)
            except expected_exc:
                ok(True)
            else:
                ok(False, 'delattr did not raise', path, name)
            for meth, margs in (('__setattr__', (name, 1)), ('__delattr__', (name,))):
                try:
                    getattr(node, meth)(*margs)
                except expected_exc:
                    ok(True)
                else:
                    ok(False, meth, 'did not raise', path, name)
            ok(hasattr(node, name) == had, path, name)
            ok(getattr(node, name, Sentinel) is old or name == '_hash', path, name)

        if isinstance(node, ct.ImmutableDict):
            for key in list(node) + ['brand-new']:
                for op in (
                    lambda n=node, k=key: n.__class__.__setitem__(n, k, 'v'),
                    lambda n=node, k=key: n.__class__.__delitem__(n, k),
                ):
                    try:
                        op()
                    except (TypeError, AttributeError):
                        ok(True)
                    else:
                        ok(False, 'map mutation did not raise', path, key)
                try:
                    node[key] = 'v'
                except TypeError:
                    ok(True)
                else:
                    ok(False, 'item assignment did not raise', path, key)
                try:
                    del node[key]
                except TypeError:
                    ok(True)
                else:
                    ok(False, 'item deletion did not raise', path, key)
            for meth in ('update', 'pop', 'popitem', 'clear', 'setdefault'):
                ok(not hasattr(node, meth), path, meth)
            # The legacy unpickling hook cannot be used to mutate a live map.
            try:
                node.__setstate__({'_d': {'q': 'r'}, '_hash': 0})
            except AttributeError:
                ok(True)
            else:
                ok(False, '__setstate__ mutated a live map', path)
    ok(repr(compiled) == before)


def check_hash_invisible(case):
    """The lazily cached hash cannot be observed through pickle / repr / equality / copies."""

    a = fresh_compile(case)
    b = fresh_compile(case)
    ok(a is not b)
    dumps_before = [pickle.dumps(a, p) for p in PROTOCOLS]
    repr_before = repr(a)
    copy_before = copy.copy(a)
    deep_before = copy.deepcopy(a)
    ok(a == b and not (a != b))  # `a` not hashed yet, `b` not hashed yet
    h = hash(a)
    ok(a == b and not (a != b) and b == a)  # `a` hashed, `b` not
    ok(isinstance(h, int))
    ok(hash(a) == h)
    ok([pickle.dumps(a, p) for p in PROTOCOLS] == dumps_before, 'pickle bytes changed after hash()')
    ok(repr(a) == repr_before)
    ok(hash(b) == h)
    ok(hash(copy_before) == h and hash(deep_before) == h)
    ok(hash(copy.copy(a)) == h and hash(copy.deepcopy(a)) == h)
    for data in dumps_before:
        ok(hash(pickle.loads(data)) == h)
    # Sub parts of equal objects have equal hashes, regardless of which side was hashed first.
    for (pa, na), (pb, nb) in zip(walk(a), walk(b)):
        ok(pa == pb)
        ok(na == nb and not (na != nb), pa)
        ok(hash(nb) == hash(na), pa)
    # Hash agrees with the documented definition (values only).
    for _path, node in walk(a):
        if isinstance(node, ct.Immutable):
            ok(hash(node) == hash(tuple(getattr(node, k) for k in fields_of(node))))
        else:
            ok(hash(node) == hash(frozenset(node.items())))


def roundtrips(obj):
    """All the ways to clone an object."""

    for proto in PROTOCOLS:
        yield f'pickle{proto}', pickle.loads(pickle.dumps(obj, proto))
    yield 'copy', copy.copy(obj)
    yield 'deepcopy', copy.deepcopy(obj)
    # Nested inside containers and shared references.
    for proto in PROTOCOLS:
        x, y = pickle.loads(pickle.dumps([obj, {'k': obj}], proto))
        ok(x is y['k'])
        yield f'pickle{proto}-nested', x
    yield 'deepcopy-nested', copy.deepcopy({'k': (obj,)})['k'][0]
    # Twice.
    yield 'pickle-twice', pickle.loads(pickle.dumps(pickle.loads(pickle.dumps(obj, 2)), 5))


def check_roundtrip(compiled, docs, expected_selection):
    """Pickle / copy / deepcopy of the whole object and of every node."""

    h = hash(compiled)
    r = repr(compiled)
    for how, clone in roundtrips(compiled):
        ok(type(clone) is cm.SoupSieve, how)
        ok(clone == compiled and compiled == clone, how)
        ok(not (clone != compiled) and not (compiled != clone), how)
        ok(hash(clone) == h, how)
        ok(repr(clone) == r, how)
        ok(oracle_eq(clone, compiled, strict=True), how)
        ok(selection(clone, docs) == expected_selection, how)
        ok(len({clone, compiled}) == 1, how)
        ok(sv.compile(clone) is clone, how)
        for (pa, na), (pb, nb) in zip(walk(compiled), walk(clone)):
            ok(pa == pb and type(na) is type(nb), how, pa)
            ok(na == nb and not (na != nb) and hash(na) == hash(nb), how, pa)

    for path, node in walk(compiled):
        hn = hash(node)
        for how, clone in roundtrips(node):
            ok(type(clone) is type(node), path, how)
            ok(clone == node and node == clone, path, how)
            ok(not (clone != node) and not (node != clone), path, how)
            ok(hash(clone) == hn, path, how)
            ok(repr(clone) == repr(node), path, how)
            ok(oracle_eq(clone, node, strict=True), path, how)


def check_foreign(compiled):
    """Comparisons with foreign objects."""

    for path, node in walk(compiled):
        for other in (None, 0, 1, 'p', (), [], {}, object(), Sentinel, compiled.pattern, repr(node)):
            if isinstance(node, ct.ImmutableDict) and other == {} and len(node) == 0:
                continue
            ok((node == other) is False, path, other)
            ok((node != other) is True, path, other)
            ok((other == node) is False, path, other)
            ok((other != node) is True, path, other)
        if isinstance(node, ct.Immutable):
            ok(node.__eq__(object()) is NotImplemented)
            ok(node.__ne__(object()) is NotImplemented)
            # ... which lets well behaved "wildcards" work, both ways round.
            ok(node == mock.ANY and mock.ANY == node)
            ok(not (node != mock.ANY) and not (mock.ANY != node))
            # Library objects of another class: a definite answer.
            for other in (ct.SelectorNull(), ct.SelectorList(), ct.SelectorTag('p', None), compiled):
                if type(other) is not type(node):
                    ok(node.__eq__(other) is False and node.__ne__(other) is True, path)
                    ok(other.__eq__(node) is False and other.__ne__(node) is True, path)
        ok(node == node and not (node != node), path)


def check_pairwise(cases, compiled):
    """Equality is equivalent to equality of the arguments; hashes agree; `!=` negates `==`."""

    keys = [case_key(c) for c in cases]
    n = 0
    for (i, a), (j, b) in itertools.product(enumerate(compiled), repeat=2):
        expected = keys[i] == keys[j]
        eq = a == b
        ne = a != b
        ok(eq is expected, 'eq', cases[i], cases[j])
        ok(ne is (not expected), 'ne', cases[i], cases[j])
        ok(a.__eq__(b) is expected and a.__ne__(b) is (not expected))
        if expected:
            ok(hash(a) == hash(b), 'hash', cases[i], cases[j])
            for (pa, na), (pb, nb) in zip(walk(a), walk(b)):
                ok(pa == pb and na == nb and not (na != nb) and hash(na) == hash(nb), pa)
            n += 1
        # The selector lists alone: `==` agrees with the structural oracle, `!=` is its negation.
        sa, sb = a.selectors, b.selectors
        structural = oracle_eq(sa, sb)
        ok((sa == sb) is structural, 'structure eq', cases[i], cases[j])
        ok((sa != sb) is (not structural), 'structure ne', cases[i], cases[j])
        if structural:
            ok(hash(sa) == hash(sb), 'structure hash', cases[i], cases[j])

    # All nodes of all objects against each other.
    nodes = []
    seen = set()
    for obj in compiled:
        for _path, node in walk(obj):
            if isinstance(node, ct.Immutable) and not isinstance(node, cm.SoupSieve) and id(node) not in seen:
                seen.add(id(node))
                nodes.append(node)
    nodes = nodes[::3][:400]
    for a, b in itertools.product(nodes, repeat=2):
        structural = oracle_eq(a, b)
        ok((a == b) is structural and (a != b) is (not structural))
        if structural:
            ok(hash(a) == hash(b))
    return n


def check_maps():
    """`ImmutableDict` and friends."""

    a = ct.ImmutableDict({1: 'a', 'b': 2, (1, 2): None, None: frozenset([1])})
    b = ct.ImmutableDict([((1, 2), None), (None, frozenset([1])), ('b', 2), (1, 'a')])
    ok(a == b and not (a != b) and hash(a) == hash(b), 'unsortable keys, any order')
    ok(ct.ImmutableDict({'a': 1}) == ct.ImmutableDict({'a': True}))
    ok(hash(ct.ImmutableDict({'a': 1})) == hash(ct.ImmutableDict({'a': True})), 'hash follows ==')
    ok(ct.ImmutableDict({'a': 1}) != ct.ImmutableDict({'a': 2}))
    ok(ct.ImmutableDict({'a': 1}) != ct.ImmutableDict({'b': 1}))
    ok(ct.ImmutableDict(iter([('a', 'b'), ('c', 'd')])) == {'a': 'b', 'c': 'd'}, 'one-shot iterable')
    ok(len(ct.Namespaces(x for x in [('a', 'b')])) == 1)
    ok(ct.Namespaces(ct.Namespaces({'abc': 'd'})) == {'abc': 'd'}, 'mapping input')
    ok(ct.Namespaces({'a': 'b'}) == ct.Namespaces(OrderedDict([('a', 'b')])))
    ok(ct.Namespaces({}) is not None and ct.Namespaces({}) != None)  # noqa: E711
    ok(sv.compile('p', namespaces={}) != sv.compile('p'))
    ok(sv.compile('p', custom={}) != sv.compile('p'))
    ok(sv.compile('p', custom={}) != sv.compile('p', namespaces={}))
    for bad in (
        lambda: ct.ImmutableDict([[3, {}]]),
        lambda: ct.ImmutableDict([[{}, 3]]),
        lambda: ct.ImmutableDict({3: {}}),
        lambda: ct.ImmutableDict({3: ([],)}),
        lambda: ct.Namespaces(((3, 3),)),
        lambda: ct.Namespaces({'a': {}}),
        lambda: ct.Namespaces({'a': 1}),
        lambda: ct.Namespaces([('a', 1)]),
        lambda: ct.Namespaces([(1, 'a')]),
        lambda: ct.CustomSelectors(((3, 3),)),
        lambda: ct.CustomSelectors({'a': {}}),
        lambda: ct.CustomSelectors([('a', b'b')]),
        lambda: sv.compile('p', namespaces={'a': 1}),
        lambda: sv.compile('p', custom={':--a': 1}),
    ):
        try:
            bad()
        except TypeError:
            ok(True)
        else:
            ok(False, 'invalid map accepted')
    for cls in (ct.ImmutableDict, ct.Namespaces, ct.CustomSelectors):
        m = cls({'b': 'B', 'a': 'A'})
        ok(list(m) == ['b', 'a'] and m['a'] == 'A' and len(m) == 2 and 'a' in m and 'z' not in m)
        ok(repr(m) == "{'b': 'B', 'a': 'A'}")
        ok(dict(m) == {'a': 'A', 'b': 'B'} and m == {'a': 'A', 'b': 'B'} and {'a': 'A', 'b': 'B'} == m)
        ok({m: 1}[cls({'a': 'A', 'b': 'B'})] == 1)
        for how, clone in roundtrips(m):
            ok(type(clone) is cls and clone == m and hash(clone) == hash(m) and list(clone) == list(m), how)


def check_misc():
    """Odds and ends."""

    # `Immutable` base class and hand made nodes.
    base = ct.Immutable()
    ok(base == ct.Immutable() and hash(base) == hash(ct.Immutable()) and repr(base) == 'Immutable()')
    ok(pickle.loads(pickle.dumps(base)) == base)
    ok(ct.SelectorTag('p', '') != ct.SelectorTag('p', None))
    ok(ct.SelectorTag('p', None) == ct.SelectorTag('p', None))
    ok(ct.SelectorList() == ct.SelectorList(()) == ct.SelectorList([], False, False))
    ok(ct.SelectorList(is_not=True) != ct.SelectorList() and ct.SelectorList(is_html=True) != ct.SelectorList())
    ok(ct.SelectorContains(['a'], True) != ct.SelectorContains(['a'], False))
    ok(ct.SelectorContains(['a'], True) == ct.SelectorContains(('a',), True))
    ok(ct.SelectorNull() == ct.SelectorNull() and ct.SelectorNull() != ct.SelectorList())
    p1 = ct.SelectorAttribute('a', '', re.compile('x', re.I), None)
    p2 = ct.SelectorAttribute('a', '', re.compile('x'), None)
    p3 = ct.SelectorAttribute('a', '', None, re.compile('x', re.I))
    ok(p1 != p2 and p1 != p3 and p1 == ct.SelectorAttribute('a', '', re.compile('x', re.I), None))
    for node in (p1, p2, p3):
        for how, clone in roundtrips(node):
            ok(oracle_eq(node, clone, strict=True) and clone == node and hash(clone) == hash(node), how)

    # Subclass conventions: new style (own fields only), legacy style (repeats `_hash`), no fields, further subclass.
    global New, Legacy, Empty, Further

    class New(ct.Immutable):
        __slots__ = ('a', 'b')

        def __init__(self, a, b):
            super().__init__(a=a, b=b)

    class Legacy(ct.Immutable):
        __slots__ = ('a', 'b', '_hash')

        def __init__(self, a, b):
            super().__init__(a=a, b=b)

    class Empty(ct.Immutable):
        __slots__ = ()

        def __init__(self):
            super().__init__()

    class Further(New):
        __slots__ = ('c',)

        def __init__(self, a, b, c):
            ct.Immutable.__init__(self, a=a, b=b, c=c)

    for cls in (New, Legacy, Empty, Further):
        cls.__module__ = '__main__'
        cls.__qualname__ = cls.__name__
    sys.modules['__main__'].__dict__.update(New=New, Legacy=Legacy, Empty=Empty, Further=Further)

    for cls, args, text in (
        (New, (1, (2, 3)), 'New(a=1, b=(2, 3))'),
        (Legacy, (1, (2, 3)), 'Legacy(a=1, b=(2, 3))'),
        (Empty, (), 'Empty()'),
        (Further, (1, 2, 'x'), "Further(a=1, b=2, c='x')"),
    ):
        x, y = cls(*args), cls(*args)
        ok(repr(x) == text and str(x) == text, repr(x))
        ok(x == y and not (x != y) and hash(x) == hash(y))
        ok(x.__reduce__() == (cls, args))
        for how, clone in roundtrips(x):
            ok(type(clone) is cls and clone == x and hash(clone) == hash(x) and repr(clone) == text, how)
        for name in ('a', '_hash', 'zzz'):
            for op in (lambda: setattr(x, name, 1), lambda: delattr(x, name)):
                try:
                    op()
                except AttributeError:
                    ok(True)
                else:
                    ok(False, 'mutable subclass', cls, name)
    ok(New(1, 2) != New(1, 3) and New(1, 2) != Legacy(1, 2) and Legacy(1, 2) != New(1, 2))
    ok(Further(1, 2, 3) != Further(1, 2, 4))

    # Unhashable content: reported when the hash is needed, never cached.
    bad = New(1, [])
    for _ in range(2):
        try:
            hash(bad)
        except TypeError:
            ok(True)
        else:
            ok(False, 'unhashable content hashed')

    # Compiled input is returned as is; the cache returns the very same object.
    sv.purge()
    with quiet():
        c = sv.compile('p.a', NS1, 1, custom=CUSTOM1)
    ok(sv.compile(c) is c)
    ok(sv.compile('p.a', NS1_REORDERED, True, custom=CUSTOM1_ORDERED) is c)
    ok(ct.pickle_register(cm.SoupSieve) is None)

    import copyreg
    for cls in list(EXPECTED_FIELDS):
        klass = getattr(ct, cls, None) or getattr(cm, cls)
        ok(klass not in copyreg.dispatch_table, cls)


###############################################################################
# Compatibility with the unmodified library (HEAD of the worktree)
###############################################################################

def legacy_main():
    """Runs in a sub-process, importing the HEAD version of the library."""

    mode, path = LEGACY_MODE, os.environ['SELFCHECK_FILE']
    if mode == 'dump':
        docs = make_docs()
        out = []
        for case in CASES:
            c = fresh_compile(case)
            nodes = [n for _p, n in walk_legacy(c)]
            out.append({
                'repr': repr(c),
                'selection': selection(c, docs),
                'pickles': [pickle.dumps(c, p) for p in PROTOCOLS],
                'node_pickles': [pickle.dumps(nodes, p) for p in PROTOCOLS],
                'node_reprs': [repr(n) for n in nodes],
                'maps': [pickle.dumps((c.namespaces, c.custom), p) for p in PROTOCOLS],
            })
        with open(path, 'wb') as f:
            pickle.dump(out, f)
    elif mode == 'load':
        with open(path, 'rb') as f:
            data = pickle.load(f)
        bad = 0
        for case, entry in zip(CASES, data):
            c = fresh_compile(case)
            for blob in entry:
                clone = pickle.loads(blob)
                if not (clone == c and not (clone != c) and hash(clone) == hash(c) and repr(clone) == repr(c)):
                    bad += 1
        print('legacy-load-bad', bad)
        sys.exit(1 if bad else 0)


def walk_legacy(obj, path='$'):
    """`walk` for the HEAD version (identical structure)."""

    yield from walk(obj, path)


def check_against_head(compiled, docs, selections):
    """Compare with the library as committed at HEAD (needs git)."""

    tmp = tempfile.mkdtemp(prefix='.selfcheck_head_', dir=HERE)
    try:
        try:
            tar = subprocess.run(
                ['git', '-C', HERE, 'archive', 'HEAD', 'soupsieve'], check=True, capture_output=True
            ).stdout
            subprocess.run(['tar', '-x', '-C', tmp], input=tar, check=True)
        except Exception as e:  # pragma: no cover
            print('  (skipped, cannot extract HEAD:', e, ')')
            return False
        shutil.copy(os.path.abspath(__file__), os.path.join(tmp, 'selfcheck.py'))
        data_file = os.path.join(tmp, 'legacy.pickle')
        env = dict(os.environ, SELFCHECK_LEGACY='dump', SELFCHECK_FILE=data_file, PYTHONPATH=tmp)
        env.pop('PYTHONHASHSEED', None)
        subprocess.run([sys.executable, os.path.join(tmp, 'selfcheck.py')], check=True, env=env, cwd=tmp)
        with open(data_file, 'rb') as f:
            legacy = pickle.load(f)
        ok(len(legacy) == len(CASES))
        for case, c, sel, entry in zip(CASES, compiled, selections, legacy):
            ok(repr(c) == entry['repr'], 'repr differs from HEAD', case)
            ok(sel == entry['selection'], 'selection differs from HEAD', case)
            nodes = [n for _p, n in walk(c)]
            ok([repr(n) for n in nodes] == entry['node_reprs'], case)
            for blob in entry['pickles']:
                old = pickle.loads(blob)
                ok(type(old) is cm.SoupSieve)
                ok(old == c and c == old and not (old != c) and hash(old) == hash(c), 'HEAD pickle', case)
                ok(oracle_eq(old, c, strict=True), case)
                ok(repr(old) == entry['repr'], case)
                ok(selection(old, docs) == sel, case)
            for blob in entry['node_pickles']:
                old_nodes = pickle.loads(blob)
                ok(len(old_nodes) == len(nodes))
                for o, n in zip(old_nodes, nodes):
                    ok(type(o) is type(n) and o == n and not (o != n) and hash(o) == hash(n), case)
                    ok(oracle_eq(o, n, strict=True), case)
            for blob in entry['maps']:
                ns, cu = pickle.loads(blob)
                for o, n in ((ns, c.namespaces), (cu, c.custom)):
                    ok(type(o) is type(n) and o == n and (n is None or hash(o) == hash(n)), 'HEAD map pickle', case)
                    if o is not None:
                        ok(list(o.items()) == list(n.items()) and not hasattr(o, '__dict__'))

        # The other way round: HEAD loads what this version pickles.
        new_file = os.path.join(tmp, 'new.pickle')
        with open(new_file, 'wb') as f:
            pickle.dump([[pickle.dumps(c, p) for p in PROTOCOLS] for c in compiled], f)
        env.update(SELFCHECK_LEGACY='load', SELFCHECK_FILE=new_file)
        proc = subprocess.run(
            [sys.executable, os.path.join(tmp, 'selfcheck.py')], env=env, cwd=tmp, capture_output=True, text=True
        )
        ok(proc.returncode == 0 and 'legacy-load-bad 0' in proc.stdout, proc.stdout, proc.stderr)
        return True
    finally:
        shutil.rmtree(tmp, ignore_errors=True)


###############################################################################
# Main
###############################################################################

def main():
    """Run everything."""

    print('soupsieve imported from', sv.__file__)
    print('cases:', len(CASES), ' distinct argument keys:', len({case_key(c) for c in CASES}))
    docs = make_docs()

    compiled = [fresh_compile(c) for c in CASES]
    ok(len({id(c) for c in compiled}) == len(compiled), 'fresh compiles are distinct objects')

    print('structure / reduce ...')
    for c in compiled:
        check_structure(c)

    print('hash is lazy and invisible ...')
    for case in CASES:
        check_hash_invisible(case)

    print('selection ...')
    selections = [selection(c, docs) for c in compiled]
    ok(any(any(s for s in sel if s) for sel in selections))
    nonempty = sum(1 for sel in selections if any(s for s in sel if s))
    print('   cases selecting something:', nonempty, 'of', len(CASES))
    for case, c, sel in zip(CASES, compiled, selections):
        # Equal arguments select the same, cached or not.
        ok(selection(fresh_compile(case), docs) == sel, case)

    print('immutability ...')
    for c in compiled:
        check_immutable(c)
    ok([selection(c, docs) for c in compiled] == selections)

    print('pairwise eq / ne / hash ...')
    equal_pairs = check_pairwise(CASES, compiled)
    print('   equal ordered pairs (incl. self):', equal_pairs)
    ok(equal_pairs > len(CASES))

    print('foreign comparisons ...')
    for c in compiled:
        check_foreign(c)

    print('pickle (protocols %s) / copy / deepcopy ...' % PROTOCOLS)
    for c, sel in zip(compiled, selections):
        check_roundtrip(c, docs, sel)

    print('maps ...')
    check_maps()
    print('misc ...')
    check_misc()

    print('compatibility with HEAD ...')
    compiled = [fresh_compile(c) for c in CASES]
    did = check_against_head(compiled, docs, selections)

    # Kinds of node exercised.
    kinds = set()
    for c in compiled:
        for _p, n in walk(c):
            kinds.add(type(n).__name__)
    expected_kinds = set(EXPECTED_FIELDS) | {'Namespaces', 'CustomSelectors'}
    ok(kinds == expected_kinds, kinds ^ expected_kinds)

    print(f'OK: {CHECKS} checks passed' + ('' if did else ' (HEAD comparison skipped)'))


if __name__ == '__main__':
    if LEGACY_MODE:
        legacy_main()
    else:
        main()
