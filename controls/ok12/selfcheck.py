"""
Differential self-check of the `nth` sibling-scan memo in soupsieve/css_match.py.

    /venv/bin/python selfcheck.py [rounds] [seed]

The driver extracts the unmodified sources (`git archive HEAD soupsieve`) to a temporary directory and runs
the same deterministic workload twice in fresh interpreters, once against each copy. Everything the workload
observes has to be identical: results of select/iselect/match/filter/closest, exception types and messages,
serialisations, the SET and the ORDER of first-time `match_selectors(element, list)` evaluations, and the
recursion depth at which deeply nested `of S` gives up. The number of evaluations may only go down.
"""
import hashlib
import json
import os
import random
import subprocess
import sys
import tempfile

HERE = os.path.dirname(os.path.abspath(__file__))

TAGS = ['div', 'p', 'span', 'a', 'b', 'li', 'ul', 'P', 'x-y']
CLASSES = ['c1', 'c2', 'c3']


# ---------------------------------------------------------------------------------------------------------
# Workload (runs in the child interpreters)
# ---------------------------------------------------------------------------------------------------------

def gen_markup(rnd, depth=0, xml=False):
    out = []
    for _ in range(rnd.randint(0 if depth else 2, 6 if depth < 3 else 2)):
        kind = rnd.random()
        if kind < 0.15:
            out.append(rnd.choice([' ', 'text', '\n', ' t ']))
        elif kind < 0.2:
            out.append('<!-- c -->')
        else:
            tag = rnd.choice(TAGS)
            if xml and rnd.random() < 0.3:
                tag = rnd.choice(['n:div', 'n:p', 'm:p', 'p'])
            attrs = ''
            if rnd.random() < 0.6:
                attrs += ' class="{}"'.format(' '.join(rnd.sample(CLASSES, rnd.randint(1, 2))))
            if rnd.random() < 0.2:
                attrs += ' id="i{}"'.format(rnd.randint(0, 5))
            if rnd.random() < 0.1:
                attrs += ' dir="{}"'.format(rnd.choice(['ltr', 'rtl', 'auto']))
            if rnd.random() < 0.1:
                attrs += ' lang="{}"'.format(rnd.choice(['en', 'de-DE', 'fr']))
            inner = gen_markup(rnd, depth + 1, xml) if depth < 4 and rnd.random() < 0.7 else ''
            out.append('<{0}{1}>{2}</{0}>'.format(tag, attrs, inner))
    return ''.join(out)


def gen_nth(rnd, depth=0):
    a = rnd.choice([0, 1, 2, 3, -1, -2, -3])
    b = rnd.choice([0, 1, 2, 3, 4, -1, -2, -5, 7])
    form = rnd.random()
    if form < 0.3:
        expr = str(rnd.choice([1, 2, 3, 4, 6]))
    elif form < 0.4:
        expr = rnd.choice(['odd', 'even', 'n', '-n+3', 'n+3', '2n', '-2n+5'])
    else:
        expr = '{}n{:+d}'.format(a, b)
    kind = rnd.random()
    if kind < 0.25:
        return ':{}({})'.format(rnd.choice(['nth-of-type', 'nth-last-of-type']), expr)
    if kind < 0.35:
        return rnd.choice(
            [':first-child', ':last-child', ':only-child', ':first-of-type', ':last-of-type', ':only-of-type']
        )
    name = rnd.choice(['nth-child', 'nth-last-child'])
    if rnd.random() < 0.3:
        return ':{}({})'.format(name, expr)
    return ':{}({} of {})'.format(name, expr, gen_list(rnd, depth + 1))


def gen_compound(rnd, depth=0):
    parts = []
    if rnd.random() < 0.5:
        parts.append(rnd.choice(['div', 'p', 'span', 'a', 'li', '*', 'P', 'x-y']))
    if rnd.random() < 0.4:
        parts.append('.' + rnd.choice(CLASSES))
    r = rnd.random()
    if depth < 3:
        if r < 0.45:
            parts.append(gen_nth(rnd, depth))
            if rnd.random() < 0.2:
                parts.append(gen_nth(rnd, depth))
        elif r < 0.55:
            parts.append(':is({})'.format(gen_list(rnd, depth + 1)))
        elif r < 0.65:
            parts.append(':not({})'.format(gen_list(rnd, depth + 1)))
        elif r < 0.75:
            parts.append(':has({} {})'.format(rnd.choice(['', '>', '+', '~']), gen_complex(rnd, depth + 1)))
        elif r < 0.8:
            parts.append(rnd.choice([':dir(ltr)', ':dir(rtl)', ':lang(en)', ':root', ':empty', ':--mine', ':scope']))
    return ''.join(parts) or '*'


def gen_complex(rnd, depth=0):
    s = gen_compound(rnd, depth)
    for _ in range(rnd.randint(0, 2 if depth < 2 else 0)):
        s = gen_compound(rnd, depth) + rnd.choice([' ', ' > ', ' + ', ' ~ ']) + s
    return s


def gen_list(rnd, depth=0):
    return ', '.join(gen_complex(rnd, depth) for _ in range(rnd.randint(1, 2 if depth else 3)))


CUSTOM = {':--mine': ':nth-child(2n+1 of .c1, .c2)', ':--other': 'p:--mine:nth-last-child(-n+3 of :--mine)'}


def worker(rounds, seed):
    # The directory of this script must not shadow the copy under test
    sys.path[:] = [os.environ['SELFCHECK_EXPECT']] + [x for x in sys.path if os.path.abspath(x or '.') != HERE]
    import bs4
    import soupsieve as sv
    from soupsieve import css_match as cm

    assert os.path.dirname(os.path.dirname(os.path.abspath(sv.__file__))) == os.environ['SELFCHECK_EXPECT'], sv.__file__

    log = hashlib.sha256()
    lines = []
    stats = {'evals': 0, 'cases': 0, 'errors': 0}

    # Record evaluations of selector lists against elements
    numbering = {}
    seen = None
    orig_ms = cm.CSSMatch.match_selectors

    def counting(self, el, selectors):
        stats['evals'] += 1
        if seen is not None:
            key = (numbering.get(id(el), -1), repr(selectors), self.iframe_restrict)
            if key not in seen[0]:
                seen[0].add(key)
                seen[1].append(key)
        return orig_ms(self, el, selectors)

    cm.CSSMatch.match_selectors = counting

    def number(doc):
        numbering.clear()
        keep = [doc]
        numbering[id(doc)] = 0
        for i, el in enumerate(doc.descendants):
            numbering[id(el)] = i + 1
            keep.append(el)
        return keep

    def ident(el):
        if el is None:
            return None
        return numbering.get(id(el), 'new:' + str(el.name))

    def emit(*what):
        data = json.dumps(what, sort_keys=True, default=str)
        log.update(data.encode('utf8'))
        lines.append(data)

    def attempt(label, fn):
        nonlocal seen
        seen = (set(), [])
        try:
            res = fn()
        except Exception as e:  # noqa: BLE001
            stats['errors'] += 1
            res = ('EXC', type(e).__name__, str(e))
        emit(label, res, hashlib.sha256(repr(seen[1]).encode('utf8')).hexdigest(), len(seen[0]))
        seen = None
        stats['cases'] += 1

    rnd = random.Random(seed)
    for rnd_no in range(rounds):
        parser = rnd.choice(['html.parser', 'html.parser', 'lxml', 'html5lib', 'lxml-xml', 'xhtml'])
        xml = parser in ('lxml-xml', 'xhtml')
        body = gen_markup(rnd, xml=xml)
        if parser == 'lxml-xml':
            markup = '<root xmlns:n="http://n" xmlns:m="http://m">{}</root>'.format(body)
        elif parser == 'xhtml':
            parser = 'lxml-xml'
            markup = (
                '<html xmlns="http://www.w3.org/1999/xhtml" xmlns:n="http://n" xmlns:m="http://m">'
                '<head></head><body>{}</body></html>'.format(body)
            )
        else:
            markup = '<html><head></head><body>{}<iframe><html><body><p>x</p><p>y</p></body></html></iframe>' \
                     '</body></html>'.format(body)
        namespaces = {'n': 'http://n', 'm': 'http://m'} if xml else None

        for _ in range(6):
            pattern = gen_list(rnd)
            if xml and rnd.random() < 0.3:
                pattern = pattern.replace('div', 'n|div', 1).replace('p:', 'm|p:', 1)
            doc = bs4.BeautifulSoup(markup, parser)
            keep = number(doc)
            before = doc.decode()
            try:
                sel = sv.compile(pattern, namespaces=namespaces, custom=CUSTOM)
            except Exception as e:  # noqa: BLE001
                emit('compile', pattern, type(e).__name__, str(e))
                continue
            tags = [el for el in keep if isinstance(el, bs4.Tag)]
            emit('case', rnd_no, parser, pattern)

            attempt('select', lambda: [ident(e) for e in sel.select(doc)])
            attempt('select3', lambda: [ident(e) for e in sel.select(doc, limit=3)])
            attempt('one', lambda: ident(sel.select_one(doc)))
            sub = rnd.choice(tags)
            attempt('select-sub', lambda: [ident(e) for e in sel.select(sub)])
            attempt('filter-sub', lambda: [ident(e) for e in sel.filter(sub)])
            attempt('filter-list', lambda: [ident(e) for e in sel.filter(list(sub.children))])
            for el in rnd.sample(tags, min(len(tags), 6)):
                attempt('match', lambda: sel.match(el))
                attempt('closest', lambda: ident(sel.closest(el)))
            attempt('match-all', lambda: [sel.match(e) for e in tags[1:]])
            emit('unchanged', doc.decode() == before)

            # Lazily consumed generator, with the tree being edited between the items.
            def lazy():
                out = []
                erng = random.Random(rnd_no * 7919 + len(pattern))
                gen = sel.iselect(doc)
                for found in gen:
                    out.append(ident(found))
                    alive = [t for t in tags[1:] if t.parent is not None and t.name not in ('html', 'body', 'root')]
                    if not alive:
                        break
                    near = [t for t in alive if t.parent is found.parent and t is not found]
                    victim = erng.choice(near) if near and erng.random() < 0.75 else erng.choice(alive)
                    op = erng.randrange(6)
                    if op == 0:
                        victim.extract()
                    elif op == 1:
                        victim.insert_before(doc.new_tag(erng.choice(TAGS), attrs={'class': erng.choice(CLASSES)}))
                    elif op == 2:
                        victim.insert_after(doc.new_tag(victim.name, attrs={'class': 'c1 c2'}))
                    elif op == 3:
                        victim['class'] = erng.choice(CLASSES)
                    elif op == 4:
                        victim.name = erng.choice(TAGS)
                    else:
                        other = erng.choice(alive)
                        if other is not victim and victim not in other.parents and other not in victim.parents:
                            other.append(victim.extract())
                    if len(out) > 40:
                        gen.close()
                        break
                return out, doc.decode()

            attempt('lazy-edits', lazy)

            # Parentless elements (temporary fake parent)
            doc = bs4.BeautifulSoup(markup, parser)
            keep = number(doc)
            tags = [el for el in keep if isinstance(el, bs4.Tag)]
            loose = rnd.choice(tags[1:]).extract()
            attempt('loose-match', lambda: sel.match(loose))
            attempt('loose-select', lambda: [ident(e) for e in sel.select(loose)])
            attempt('loose-closest', lambda: ident(sel.closest(loose)))
            attempt('loose-filter', lambda: [ident(e) for e in sel.filter(loose)])
            inner = [t for t in loose.descendants if isinstance(t, bs4.Tag)]
            if inner:
                deep = rnd.choice(inner)
                attempt('loose-inner-match', lambda: sel.match(deep))
                attempt('loose-inner-closest', lambda: ident(sel.closest(deep)))
            frag = doc.new_tag('p')
            attempt('fresh-match', lambda: sel.match(frag))

            # Compiled object is untouched by matching
            emit('sel', hash(sel) == hash(sv.compile(pattern, namespaces=namespaces, custom=CUSTOM)),
                 sel == sv.compile(pattern, namespaces=namespaces, custom=CUSTOM))

    # Exceptions part-way: an attribute whose conversion blows up in one of the later siblings
    class Boom:
        def __init__(self):
            self.armed = 0

        def __str__(self):
            self.armed += 1
            if self.armed % 2:
                raise ValueError('boom')
            return 'c1'

    doc = bs4.BeautifulSoup('<div>' + '<p class="c1">x</p>' * 6 + '</div>', 'html.parser')
    keep = number(doc)
    ps = doc.find_all('p')
    boom = Boom()
    ps[3].attrs['data-x'] = boom
    sel = sv.compile('p:nth-child(2n+1 of [data-x=c1], .c1:not([data-x]))')
    gen = sel.iselect(doc)
    trace = []
    for _ in range(12):
        try:
            trace.append(ident(next(gen)))
        except StopIteration:
            trace.append('stop')
            gen = sel.iselect(doc)
        except ValueError as e:
            trace.append(str(e))
            gen = sel.iselect(doc)
    for el in ps:
        for _ in range(2):
            try:
                trace.append(sel.match(el))
            except ValueError as e:
                trace.append(str(e))
    emit('boom', trace, boom.armed)

    # How deep may `of S` nest? (compile and match separately)
    def nested(depth):
        return ':nth-child(1 of ' * depth + 'p' + ')' * depth

    # Only feasible where the innermost compound fails (anything else takes time exponential in the depth,
    # before and after the change), plus a few shallow ones that do go all the way.
    doc = bs4.BeautifulSoup('<div><span>a</span><span>b</span></div>', 'html.parser')
    p = doc.span
    doc2 = bs4.BeautifulSoup('<div><p>a</p><p>b</p></div>', 'html.parser')
    number(doc2)
    for d in range(1, 9):
        attempt('nested', lambda: [ident(e) for e in sv.select(nested(d), doc2)])

    def probe(fn):
        lo, hi = 1, 600
        while lo < hi:
            mid = (lo + hi + 1) // 2
            try:
                fn(mid)
                lo = mid
            except RecursionError:
                hi = mid - 1
        return lo

    sv.purge()
    limit = sys.getrecursionlimit()
    emit('compile-depth', probe(lambda d: sv.compile(nested(d))))
    compiled = {}
    sys.setrecursionlimit(100000)
    for d in range(1, 360):
        compiled[d] = sv.compile(nested(d))
    sys.setrecursionlimit(limit)
    emit('match-depth', probe(lambda d: compiled[min(d, 359)].match(p) if d < 360 else None))
    emit('select-depth', probe(lambda d: compiled[min(d, 359)].select(doc) if d < 360 else None))

    cm.CSSMatch.match_selectors = orig_ms
    print(json.dumps({'digest': log.hexdigest(), 'stats': stats, 'lines': lines}))


def timing():
    import time
    sys.path[:] = [os.environ['SELFCHECK_EXPECT']] + [x for x in sys.path if os.path.abspath(x or '.') != HERE]
    import bs4
    import soupsieve as sv
    doc = bs4.BeautifulSoup('<ul>' + '<li class="a">x</li><li class="b">y</li>' * 400 + '</ul>', 'html.parser')
    out = {}
    for pattern in ('li:nth-child(2n+1 of .a)', 'li:nth-last-child(-n+5 of .b)', 'li:nth-of-type(3n)',
                    'li:nth-child(odd)', 'ul:has(> li:nth-last-child(2 of .a))'):
        sel = sv.compile(pattern)
        t = time.perf_counter()
        n = len(sel.select(doc))
        out[pattern] = (n, round(time.perf_counter() - t, 4))
    print(json.dumps(out))


# ---------------------------------------------------------------------------------------------------------
# Driver
# ---------------------------------------------------------------------------------------------------------

def run(path, *args):
    env = dict(os.environ, PYTHONPATH=path, SELFCHECK_EXPECT=path, PYTHONHASHSEED='0')
    proc = subprocess.run(
        [sys.executable, '-W', 'error::DeprecationWarning:soupsieve', os.path.abspath(__file__), *args],
        env=env, capture_output=True, text=True, cwd=tempfile.gettempdir()
    )
    if proc.returncode:
        sys.stderr.write(proc.stderr)
        raise SystemExit('worker failed for ' + path)
    return json.loads(proc.stdout.strip().splitlines()[-1]), proc.stderr


def main():
    rounds = sys.argv[1] if len(sys.argv) > 1 else '150'
    seed = sys.argv[2] if len(sys.argv) > 2 else '1'
    with tempfile.TemporaryDirectory() as base:
        archive = subprocess.run(['git', 'archive', 'HEAD', 'soupsieve'], cwd=HERE, capture_output=True, check=True)
        subprocess.run(['tar', '-x', '-C', base], input=archive.stdout, check=True)
        old, old_err = run(base, '--worker', rounds, seed)
        new, new_err = run(HERE, '--worker', rounds, seed)
        ok = True
        if old['digest'] != new['digest'] or old_err != new_err:
            ok = False
            for a, b in zip(old['lines'], new['lines']):
                if a != b:
                    print('FIRST DIFFERENCE\n  old:', a[:600], '\n  new:', b[:600])
                    break
            ctx = [json.loads(x) for x in old['lines'][:old['lines'].index(a)] if x.startswith('["case"')]
            print('  in', ctx[-1] if ctx else None)
        print('cases', old['stats']['cases'], 'with exceptions', old['stats']['errors'])
        print('evaluations of selector lists: old', old['stats']['evals'], 'new', new['stats']['evals'])
        if new['stats']['evals'] > old['stats']['evals'] or old['stats']['cases'] != new['stats']['cases']:
            ok = False
        t_old, _ = run(base, '--timing')
        t_new, _ = run(HERE, '--timing')
        for k in t_old:
            print('  {:45} old {:8.4f}s new {:8.4f}s  (same count: {})'.format(
                k, t_old[k][1], t_new[k][1], t_old[k][0] == t_new[k][0]))
            ok = ok and t_old[k][0] == t_new[k][0]
        print('OK' if ok else 'MISMATCH')
        return 0 if ok else 1


if __name__ == '__main__':
    if len(sys.argv) > 1 and sys.argv[1] == '--worker':
        worker(int(sys.argv[2]), int(sys.argv[3]))
    elif len(sys.argv) > 1 and sys.argv[1] == '--timing':
        timing()
    else:
        sys.exit(main())
