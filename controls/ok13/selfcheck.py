"""
Differential self check for the work list pool in soupsieve/css_parser.py.

    PYTHONPATH=/tmp/wt_ok13 /venv/bin/python selfcheck.py

1. Extracts the unmodified sources (`git archive HEAD soupsieve`) to a temporary directory and runs the same
   corpus through both copies in separate interpreters (same hash seed): repr, hash, pickle bytes, select
   results, exception type + message, cache statistics, import silence, deep nesting up to and beyond the
   recursion limit.
2. In process (modified copy): threads, re-entrancy (signal handler / custom selectors / finalizer), and an
   exception injected at every single traced line of a nested parse, checking the pool after each.
"""
import io
import json
import os
import pickle
import subprocess
import sys
import tarfile
import tempfile
import threading

HERE = os.path.dirname(os.path.abspath(__file__))

MARKUP = """
<html><head><title>t</title></head><body>
<div id="a" class="x y"><p id="p1" class="x">one <span id="s1">s</span></p><p id="p2">two</p>
<ul id="u"><li id="l1" class="x">1</li><li id="l2">2</li><li id="l3" class="x">3</li><li id="l4">4</li></ul></div>
<form id="f"><input id="i1" type="checkbox" checked><input id="i2" type="text" required placeholder="q">
<input id="i3" type="radio" name="r"><input id="i4" type="number" min="1" max="5" value="9">
<button id="b1" type="submit">go</button><select id="se"><option id="o1" selected>1</option></select>
<fieldset id="fs" disabled><input id="i5"></fieldset><textarea id="ta" readonly></textarea></form>
<a id="k1" href="#">l</a><p id="p3" lang="en-US" dir="rtl">three</p>
</body></html>
"""

CUSTOMS = [
    None,
    {':--a': 'p.x, li:is(.x, :not(.x))', ':--b': ':--a:not(#p1)', ':--c': 'div:has(> :--b)'},
    {':--loop': ':--loop'},
    {':--bad': 'p:is(', ':--ok': 'p'},
    {':--n': ':nth-child(2n+1 of :--m)', ':--m': 'li:not(.x), :is(p, span)'},
]

PATTERNS = [
    'p', 'div p', 'div > p.x', 'p, li', '*', 'p:is(.x)', ':is(p, li):not(.x)', ':not(p, li)',
    ':is(:is(:is(p)))', ':not(:not(:not(p)))', 'div:has(> p)', 'div:has(> p, + form)', 'div:has(p span, ul > li.x)',
    ':has(:has(span))', 'div:has(:is(p, li):not(:has(span)))', ':is()', ':is(,)', ':is(p,)', ':is(, p)', ':where(p, , li)',
    ':not()', ':has()', ':has(>)', ':has(> > p)', 'li:nth-child(2n+1 of .x)', 'li:nth-last-child(odd of :is(.x, #l2))',
    'li:nth-child(2 of li:not(.x):is(li))', 'li:nth-child(even)', 'li:nth-of-type(2)', 'p:first-child', 'li:only-child',
    ':nth-child(1 of :nth-child(1 of :nth-child(1 of p)))', ':checked', ':default', ':indeterminate', ':disabled',
    ':enabled', ':required', ':optional', ':read-only', ':read-write', ':in-range', ':out-of-range',
    ':placeholder-shown', ':link', ':any-link', ':root', ':empty', ':scope > body', '& p', ':defined',
    'p:lang(en)', 'p:dir(rtl)', 'p:-soup-contains("one", "two")', 'p:-soup-contains-own(one)', '[id!=p1]',
    'p[id^=p]', 'p[id$="1"]', 'p[class~=x]', '[lang|=en]', '[type="TEXT" i]', '[type=text s]', 'ns|p', '*|p', '|p',
    ':--a', ':--b', ':--c', 'div :--a', ':is(:--a, :--b)', ':not(:--c)', ':--loop', ':--bad', ':--ok', ':--n',
    ':is(:--bad)', ':--ok:is(:--bad, p)', ':--undefined', ':is(:--undefined)',
    'p:is(', 'p:is(.x', ':not(p', ':has(> p', ':nth-child(2 of p', 'p)', ':is(p))', ':is(p > )', ':not(> p)', 'p >',
    '> p', 'p > > a', ':is(p > > a)', ':has(p > > a)', ':has(> > )', 'p:is(a b c', 'div p:is(x):not(', 'p::before',
    ':is(p::before)', '@media', ':is(@media)', 'p:nope', ':is(p:nope)', ':nth-child(x)', ':is(p$)', 'p$', '[a', ':is([a)',
    '.', ':is(.)', '#', ':', 'p:not(:is(a, :has(b, :not(c, :nth-child(2 of d, e)))))', ':is(a,b):is(c,d):is(e,f) :is(g,h)',
    'a:has(+ b ~ c > d e)', ':has(a, > b, + c, ~ d)', ':is(a > b, c + d):not(e ~ f, g h)', ':past', ':is(:future)',
    ':host', ':host(p)', ':is(:host(p), li)', ':active', ':current(p)', ':is(:current(p, li))', ':current(p',
    'div:is(p', '\x00', ':is(\x00)', '  p  ', '/* c */ p /* d */', ':is( /* c */ p )', 'p:IS(.x)', 'p:Not(.x)',
    ':contains(one)',
]

NAMESPACES = [None, {'ns': 'http://www.w3.org/1999/xhtml', '': 'http://www.w3.org/1999/xhtml'}]


def nested(n, kind):
    """Nested pattern."""

    if kind == 'is':
        return ':is(' * n + 'p' + ')' * n
    if kind == 'not':
        return ':not(' * n + 'p' + ')' * n
    if kind == 'has':
        return 'div' + ':has(div' * n + ')' * n
    return ':nth-child(1 of ' * n + 'p' + ')' * n


def describe(fn):
    """Describe a call's outcome."""

    import warnings
    with warnings.catch_warnings(record=True) as w:
        warnings.simplefilter('always')
        try:
            r = fn()
        except BaseException as e:  # noqa: B902
            r = ['EXC', type(e).__name__, str(e)]
    return [r, [(x.category.__name__, str(x.message)) for x in w]]


def worker():
    """Run the corpus against whatever `soupsieve` is first on the path."""

    # The script's own directory is put first on the path by the interpreter: use only the requested copy.
    sys.path[:] = [sys.argv[2]] + [x for x in sys.path if os.path.abspath(x or '.') != HERE]
    err = io.StringIO()
    out = io.StringIO()
    real = sys.stdout, sys.stderr
    sys.stdout, sys.stderr = out, err
    import warnings
    with warnings.catch_warnings(record=True) as iw:
        warnings.simplefilter('always')
        import soupsieve as sv
        from bs4 import BeautifulSoup
    sys.stdout, sys.stderr = real
    from soupsieve import css_parser as cp

    res = {'file': os.path.dirname(sv.__file__), 'import_noise': [out.getvalue(), err.getvalue(), len(iw)]}
    soup = BeautifulSoup(MARKUP, 'html.parser')
    ids = {id(el): i for i, el in enumerate(soup.find_all(True))}
    before = str(soup)

    def one(pat, ns, cu, flags=0):
        def run():
            c = sv.compile(pat, ns, custom=cu, flags=flags)
            d = pickle.loads(pickle.dumps(c))
            fresh = cp.CSSParser(pat, custom=cp.process_custom(cu), flags=flags).process_selectors()
            return [
                # (the hash of a namespace / custom map involves `hash(type)`, an address: not comparable across runs)
                repr(c), hash(c) if ns is None and cu is None else None, pickle.dumps(c).hex(), repr(c.selectors), hash(c.selectors),
                d == c, hash(d) == hash(c), fresh == c.selectors, hash(fresh) == hash(c.selectors),
                [ids[id(e)] for e in c.select(soup)],
                [ids[id(e)] for e in soup.find_all(True) if c.match(e)],
            ]
        return describe(run)

    rows = []
    for rnd in range(2):
        for cu in CUSTOMS:
            for ns in NAMESPACES:
                for pat in PATTERNS:
                    rows.append(one(pat, ns, cu))
        info = cp._cached_css_compile.cache_info()
        rows.append([info.hits, info.misses, info.maxsize, info.currsize])
        if rnd == 0:
            sv.purge()
            rows.append(list(cp._cached_css_compile.cache_info()))
    res['rows'] = rows
    res['doc_unchanged'] = before == str(soup)

    # Deep nesting, through and beyond the recursion limit: same outcome at every depth.
    deep = []
    sys.setrecursionlimit(400)
    for kind in ('is', 'not', 'has', 'nth'):
        for n in list(range(60, 140)):
            def run(kind=kind, n=n):
                return hash(cp.CSSParser(nested(n, kind)).process_selectors())
            deep.append([kind, n, describe(run)])
    sys.setrecursionlimit(1000)
    res['deep'] = deep
    # and the parser still works afterwards
    res['after_deep'] = one(':is(p, :not(li:has(a)))', None, None)
    json.dump(res, sys.stdout)


def pool_ok(cp):
    """Check the invariants of the current thread's pool."""

    free = getattr(cp._work_pool, 'free', [])
    assert len(free) <= cp._WORK_POOL_LIMIT, len(free)
    seen = set()
    for pair in free:
        assert type(pair) is tuple and len(pair) == 2, pair
        for lst in pair:
            assert type(lst) is list and not lst, pair
            assert id(lst) not in seen, 'list pooled twice'
            seen.add(id(lst))


def inprocess():
    """Checks on the modified copy only."""

    import signal
    import gc
    import soupsieve as sv
    from soupsieve import css_parser as cp
    assert os.path.dirname(sv.__file__) == os.path.join(HERE, 'soupsieve'), sv.__file__

    custom = {':--a': 'p.x, li:is(.x, :not(.x))', ':--b': ':--a:not(#p1)', ':--c': 'div:has(> :--b)'}
    probe = [
        (':is(a, :not(b, :has(> c, + :--c)), :nth-child(2n+1 of d, :--b))', custom),
        ('div:has(:is(p, li):not(:has(span)))', None),
        (':is(a > b, c + d):not(e ~ f, g h)', None),
        ('p', None),
    ]

    def parse(pat, cu):
        return cp.CSSParser(pat, custom=cp.process_custom(cu), flags=0).process_selectors()

    expected = [parse(p, c) for p, c in probe]
    exp_repr = [repr(e) for e in expected]

    # --- 1. an exception injected at every traced line of the parser, one run per line -----------------
    fname = cp.__file__
    total = [0]

    def count_tracer(frame, event, arg):
        if frame.f_code.co_filename != fname:
            return None
        if event == 'line':
            total[0] += 1
        return count_tracer

    sys.settrace(count_tracer)
    try:
        parse(*probe[0])
    finally:
        sys.settrace(None)
    nlines = total[0]
    assert nlines > 500, nlines

    class Boom(BaseException):
        pass

    hit_release = [0]
    for exc, step in ((Boom, 1), (KeyboardInterrupt, 5), (MemoryError, 7)):
        for target in range(1, nlines + 1, step):
            seen = [0]

            def tracer(frame, event, arg):
                if frame.f_code.co_filename != fname:
                    return None
                if event == 'line':
                    seen[0] += 1
                    if seen[0] == target:
                        if frame.f_code.co_name == '_release_work_lists':
                            hit_release[0] += 1
                        raise exc()
                return tracer

            sys.settrace(tracer)
            try:
                parse(*probe[0])
            except exc:
                pass
            else:
                raise AssertionError('no injection at %d' % target)
            finally:
                sys.settrace(None)
            pool_ok(cp)
            if target % 4 == 0:
                for (p, c), e, r in zip(probe, expected, exp_repr):
                    got = parse(p, c)
                    assert got == e and repr(got) == r and hash(got) == hash(e), (target, p)
                pool_ok(cp)
    assert hit_release[0] > 0

    # --- 2. syntax errors part way through nested lists leave nothing behind ------------------------------
    for bad in (':is(a, :not(b, :has(> c, + d$', ':is(a, :not(b, :has(> > c)))', ':is(a, :--nope)', ':is(a, :not(b', ':is(p))'):
        for _ in range(3):
            try:
                parse(bad, custom)
            except sv.SelectorSyntaxError:
                pass
            else:
                raise AssertionError(bad)
            pool_ok(cp)
            assert [repr(parse(p, c)) for p, c in probe] == exp_repr

    # --- 3. re-entrancy: a parse started by a signal handler / finalizer in the middle of another parse ----
    inner = []

    def handler(signum, frame):
        inner.append(repr(parse(*probe[1])))

    old = signal.signal(signal.SIGALRM, handler)
    try:
        for i in range(1500):
            # one shot, at a varying offset into the parse below
            signal.setitimer(signal.ITIMER_REAL, 0.00002 + (i % 100) * 0.00001)
            try:
                for (p, c), r in zip(probe, exp_repr):
                    assert repr(parse(p, c)) == r
            finally:
                signal.setitimer(signal.ITIMER_REAL, 0)
            pool_ok(cp)
    finally:
        signal.signal(signal.SIGALRM, old)
    assert inner and set(inner) == {exp_repr[1]}, len(inner)
    n_sig = len(inner)

    class Fin:
        def __init__(self):
            self.me = self

        def __del__(self):
            inner.append(repr(parse(*probe[2])))

    del inner[:]
    gc.disable()
    try:
        for i in range(300):
            Fin()
            if i % 3 == 0:
                gc.set_threshold(5, 1, 1)
            for (p, c), r in zip(probe, exp_repr):
                assert repr(parse(p, c)) == r
            gc.enable()
            for (p, c), r in zip(probe, exp_repr):
                assert repr(parse(p, c)) == r
            gc.disable()
            pool_ok(cp)
    finally:
        gc.set_threshold(700, 10, 10)
        gc.enable()
    assert inner and set(inner) == {exp_repr[2]}

    # --- 4. threads: nothing shared, every result right, pools are distinct --------------------------------
    errors = []
    pools = {}
    barrier = threading.Barrier(8)

    def work(k):
        try:
            barrier.wait()
            for i in range(300):
                j = (i + k) % len(probe)
                got = parse(*probe[j])
                assert repr(got) == exp_repr[j] and got == expected[j]
                if i % 5 == 0:
                    try:
                        parse(':is(a, :not(b, :has(> c, + d$', None)
                    except sv.SelectorSyntaxError:
                        pass
                c = sv.compile(probe[j][0], custom=probe[j][1])
                assert c.selectors == expected[j]
            pool_ok(cp)
            free = cp._work_pool.free
            pools[k] = (id(free), [id(x) for pair in free for x in pair])
            barrier.wait()  # keep every thread alive until all recorded their ids
        except BaseException as e:  # noqa: B902
            errors.append(e)
            barrier.abort()

    old_si = sys.getswitchinterval()
    sys.setswitchinterval(1e-6)
    try:
        ts = [threading.Thread(target=work, args=(k,)) for k in range(8)]
        [t.start() for t in ts]
        [t.join() for t in ts]
    finally:
        sys.setswitchinterval(old_si)
    assert not errors, errors
    all_ids = [i for _, v in pools.values() for i in v]
    assert len(all_ids) == len(set(all_ids)), 'a work list is pooled by two threads'
    assert len({v[0] for v in pools.values()}) == 8
    main_ids = {id(x) for pair in cp._work_pool.free for x in pair}
    assert not main_ids & set(all_ids)

    # --- 5. deeper than the pool limit ---------------------------------------------------------------------
    deep = nested(40, 'is')
    a, b = parse(deep, None), parse(deep, None)
    assert a == b and repr(a) == repr(b)
    pool_ok(cp)
    assert len(cp._work_pool.free) == cp._WORK_POOL_LIMIT

    print('in-process checks ok (exception injected at each of %d traced lines, %d of them inside _release_work_lists; '
          '%d parses started from a signal handler inside another parse)' % (nlines, hit_release[0], n_sig))


def main():
    """Main."""

    if len(sys.argv) > 1 and sys.argv[1] == '--worker':
        worker()
        return

    import atexit
    import shutil
    tmp = tempfile.mkdtemp(prefix='ok13_base_')
    atexit.register(shutil.rmtree, tmp, True)
    data = subprocess.check_output(['git', 'archive', 'HEAD', 'soupsieve'], cwd=HERE)
    tarfile.open(fileobj=io.BytesIO(data)).extractall(tmp)

    outs = {}
    for name, path in (('base', tmp), ('new', HERE)):
        env = dict(os.environ, PYTHONHASHSEED='0')
        env.pop('PYTHONPATH', None)
        p = subprocess.run(
            [sys.executable, '-W', 'error::ResourceWarning', os.path.abspath(__file__), '--worker', path],
            env=env, capture_output=True, text=True, cwd='/'
        )
        assert p.returncode == 0, p.stderr
        assert p.stderr == '', p.stderr
        outs[name] = json.loads(p.stdout)

    assert outs['base']['file'] == os.path.join(tmp, 'soupsieve'), outs['base']['file']
    assert outs['new']['file'] == os.path.join(HERE, 'soupsieve'), outs['new']['file']
    for key in ('import_noise', 'rows', 'doc_unchanged', 'deep', 'after_deep'):
        if outs['base'][key] != outs['new'][key]:
            b, n = outs['base'][key], outs['new'][key]
            if isinstance(b, list):
                for i, (x, y) in enumerate(zip(b, n)):
                    if x != y:
                        print('DIFF', key, i, '\n  base:', str(x)[:400], '\n  new: ', str(y)[:400])
                        break
            raise SystemExit('MISMATCH in %s' % key)
    assert outs['new']['import_noise'] == ['', '', 0]
    assert outs['new']['doc_unchanged'] is True
    rows = outs['new']['rows']
    n_exc = sum(1 for r in rows if isinstance(r[0], list) and r[0][:1] == ['EXC'])
    kinds = sorted({r[0][1] for r in rows if isinstance(r[0], list) and r[0][:1] == ['EXC']})
    deep_exc = sorted({d[2][0][1] for d in outs['new']['deep'] if isinstance(d[2][0], list)})
    n_deep_ok = sum(1 for d in outs['new']['deep'] if not isinstance(d[2][0], list))
    print('differential ok: %d rows identical (%d raising: %s); deep nesting: %d depths identical (%d ok, errors: %s)'
          % (len(rows), n_exc, kinds, len(outs['new']['deep']), n_deep_ok, deep_exc))

    inprocess()


if __name__ == '__main__':
    main()
