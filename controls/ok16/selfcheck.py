"""
Differential self-check of the error-path refactoring against `git archive HEAD soupsieve`.

Run from the worktree: `/venv/bin/python selfcheck.py`

 1. `get_pattern_context` (old, loaded from the archived `util.py`) versus the new one:
    exhaustively for every string up to length 7 over a small alphabet containing all line
    break flavours and every index from -2 to len + 2, then randomly with long lines,
    non-BMP characters, many lines, float and bool indexes.
 2. `SelectorSyntaxError(msg, pattern, index)` old versus new: `str`, `args`, `context`,
    `line`, `col`, pickling.
 3. A corpus of invalid (and some valid) selectors compiled in two fresh interpreters, one
    importing the archived package and one importing the worktree: type, message, context,
    line, col, and for valid ones the repr of the selector structure, pickle/eq/hash and the
    cache state.
 4. Eight threads compiling the corpus concurrently (worktree copy) against sequential results.
"""
from __future__ import annotations

import importlib.util
import io
import itertools
import json
import os
import pickle
import random
import subprocess
import sys
import tarfile
import tempfile

HERE = os.path.dirname(os.path.abspath(__file__))
PY = sys.executable


def load(path: str, name: str):
    spec = importlib.util.spec_from_file_location(name, path)
    mod = importlib.util.module_from_spec(spec)
    sys.modules[name] = mod  # needed for pickling of the exception class
    spec.loader.exec_module(mod)
    return mod


def outcome(fn, *args):
    try:
        return ('ok', fn(*args))
    except BaseException as e:  # noqa: BLE001
        return ('exc', type(e).__name__, str(e))


def check_context(old, new) -> int:
    n = 0
    alphabet = ['a', '\n', '\r', '\f', '\t']
    for length in range(0, 8):
        for chars in itertools.product(alphabet, repeat=length):
            p = ''.join(chars)
            for index in range(-2, length + 3):
                a = old.get_pattern_context(p, index)
                b = new.get_pattern_context(p, index)
                assert a == b, (p, index, a, b)
                n += 1

    rnd = random.Random(20261001)
    pieces = [
        'a', 'div', ' ', '\t', '\f', '\v', '\n', '\r', '\r\n', '\n\r', '\x85', ' ', ' ', '\x1c',
        '\U0001F600', '\U00010000', '�', 'x' * 5000, ':is(', ')', '[', '\\', '\\\n', '"', "'", '',
        '\r\r\n\n', ' ' * 300
    ]
    for _ in range(60000):
        p = ''.join(rnd.choice(pieces) for _ in range(rnd.randint(0, 12)))
        choices = [0, len(p), len(p) - 1, len(p) + 1, -1, rnd.randint(-3, len(p) + 3)]
        for i, c in enumerate(p):
            if c in '\r\n':
                choices.extend((i - 1, i, i + 1))
                break
        index = rnd.choice(choices)
        a = old.get_pattern_context(p, index)
        b = new.get_pattern_context(p, index)
        assert a == b, (p, index, a, b)
        n += 1

    # Many lines (linear behaviour and agreement)
    for brk in ('\n', '\r', '\r\n'):
        p = brk.join(['li.item'] * 20000)
        for index in (0, 7, 8, len(p) // 2, len(p) - 1, len(p)):
            assert old.get_pattern_context(p, index) == new.get_pattern_context(p, index)
            n += 1

    # Unusual index types behave alike too (same value or same exception type and message)
    for p in ('abc', 'a\nb', 'a\r\nb', ''):
        for index in (True, False, 1.0, 0.5, 100.0, -1.5, None, '1'):
            a = outcome(old.get_pattern_context, p, index)
            b = outcome(new.get_pattern_context, p, index)
            assert a == b, (p, index, a, b)
            n += 1
    return n


def check_exception(old, new) -> int:
    n = 0
    for p in ('', 'a', 'a b', 'a\nb', 'a\r\nb\rc\n', '\n', '\r\n', 'a\fb\n\U0001F600c'):
        for index in list(range(-1, len(p) + 2)) + [None]:
            for msg in ('msg', '', 'multi\nline'):
                a = old.SelectorSyntaxError(msg, p, index)
                b = new.SelectorSyntaxError(msg, p, index)
                for x, y in ((a, b), (pickle.loads(pickle.dumps(a)), pickle.loads(pickle.dumps(b)))):
                    assert type(x).__name__ == type(y).__name__
                    assert (str(x), x.args, x.context, x.line, x.col) == (str(y), y.args, y.context, y.line, y.col)
                n += 1
    a = old.SelectorSyntaxError('only')
    b = new.SelectorSyntaxError('only')
    assert (str(a), a.context, a.line, a.col) == (str(b), b.context, b.line, b.col) == ('only', None, None, None)
    return n + 1


CHILD = r'''
import sys, json, warnings, io, contextlib, pickle
buf_out, buf_err = io.StringIO(), io.StringIO()
with contextlib.redirect_stdout(buf_out), contextlib.redirect_stderr(buf_err), warnings.catch_warnings(record=True) as w:
    warnings.simplefilter('always')
    import soupsieve as sv
    from soupsieve import css_parser as cp
import_noise = [buf_out.getvalue(), buf_err.getvalue(), [str(x.message) for x in w]]
corpus = json.load(open(sys.argv[1], encoding='utf-8'))
out = []
for pattern, custom in corpus:
    with warnings.catch_warnings(record=True) as w:
        warnings.simplefilter('always')
        try:
            c = sv.compile(pattern, custom=custom)
            c2 = pickle.loads(pickle.dumps(c))
            rec = ['ok', repr(c.selectors), c2 == c, hash(c2) == hash(c), sv.compile(pattern, custom=custom) is c]
        except BaseException as e:
            rec = [
                'exc', type(e).__module__, type(e).__qualname__, str(e), repr(e.args),
                getattr(e, 'context', 'n/a'), getattr(e, 'line', 'n/a'), getattr(e, 'col', 'n/a')
            ]
        rec.append([str(x.message) for x in w])
    info = cp._cached_css_compile.cache_info()
    rec.append([info.currsize, info.maxsize])
    out.append(rec)
sv.purge()
out.append(cp._cached_css_compile.cache_info().currsize)
print(json.dumps([sv.__file__, import_noise, out]))
'''


def corpus() -> list:
    bad = [
        '', ' ', '\n', '\r\n', '/* c */', 'div,', ',div', 'div,,p', 'div >', '> div', 'div > > p', 'div ~ + p',
        'div p)', ')', 'div:is(', 'div:is(a', ':is(a,', ':not()', ':not(a,)', ':not(,a)', ':has()', ':has(> )',
        ':has(>> a)', ':has(> > a)', ':has(a,)', ':has(,a)', ':is()', ':is(,)', ':where(a,,b)', 'div:has(> a, )',
        'div[', 'div[a', 'div[a=', 'div[a="x]', '[a=b c]', 'div.', 'div#', '.', '#', ':', '::', 'div:',
        'div::before', '@media', 'a@b', 'div!', 'a$', 'a%b', 'a&&b', '&', 'a{}', '*a', 'a*', 'a|', '|a|b',
        'div:nth-child(', 'div:nth-child(x)', ':nth-child(2n+)', ':nth-child(2 of)', ':nth-child(2n of', ':nth-of-type(a)',
        ':lang()', ':lang(', ':dir(up)', ':dir()', ':contains()', ':-soup-contains(', ':unknown', ':unknown(a)',
        ':first-child(a)', ':not', ':is', ':has', ':nth-child', ':root()', ':--custom', ':--other(', 'a:--x',
        'div span a', 'div:is(a):first-child p.x#y[z]', ':--custom > p', 'p:--custom', ':--loop', ':--bad',
        ':--badml', 'a\x00b!', '\x00', 'a\\', 'a\\\n!', '\U0001F600', '\U0001F600!', 'a\U0001F600b!', '😀\n😀\n!',
        'div\tp\t!', '\t!', 'a\fb!', '\f!', 'a\f\n\f!', 'div\v!', 'a\x85!', 'a !b',
        'x' * 10000 + '!', 'x' * 10000 + '\n!' + 'y' * 10000, ' ' * 5000 + '!', '!' + ' ' * 5000,
        'a,\n\n\nb,\n!', 'a,\r\rb,\r!', 'a,\r\n\r\nb,\r\n!', 'a,\n\r\n\rb!', 'a\n,\n!\n', 'a\r\n,\r\n!\r\n',
        '\n\n!', '\r\n\r\n!', '!\n\n', '!\r\n\r\n', '\n!\n', 'a,\nb:is(', 'a,\r\nb:is(', 'a,\rb:is(',
        'a,\nb:is(\n', 'a:is(\n\n', ':is(a\r\n', 'a,\nb,', 'a,\r\nb,\r\n', 'div\n>\n>\np', 'div\r\n>\r\n>\r\np',
        ':has(\n>\n>\na)', 'div p\n)', 'div\r\n)\r\n', 'a\r\n)', 'a \r\n )', 'p\n\tdiv\n\t\t!', ':not(\n)', ':not(\r\n)',
        'a\nb\nc d e f g', 'a\n:first-child(x)\nb', 'a\r\n:nope\r\nb', 'a,\n:--undefined,\nb', 'a,\r\n:--undefined',
        'a b\ndiv p span\nx y', 'a b\r\nc d\re f\ng h', 'a\r\n\nb !', 'a\n\r\nb !', 'a\r\r\nb !', 'a b\rp', 'a\r\nb p q',
    ]
    customs = [
        None,
        {':--custom': 'div > p', ':--loop': ':--loop', ':--bad': 'div >', ':--badml': 'a,\r\nb,\n\n!'},
    ]
    out = []
    for p in bad:
        for c in customs:
            out.append([p, c])
    out.append(['a', {':-bad': 'a'}])
    out.append(['a', {'bad': 'a'}])
    out.append(['a', {':--x': 'a', ':--X': 'b'}])
    # every error position in a multi line pattern: put an invalid character everywhere
    base = 'div,\r\np >\rspan\n\n.a\f.b\t,\r\n\r\n:is(x,\ny)'
    for i in range(len(base) + 1):
        out.append([base[:i] + '!' + base[i:], None])
        out.append([base[:i] + ')' + base[i:], None])
        out.append([base[:i] + ':is(' + base[i:], None])
    return out


def check_parser(olddir: str) -> int:
    data = corpus()
    with tempfile.NamedTemporaryFile('w', suffix='.json', delete=False, encoding='utf-8') as f:
        json.dump(data, f)
        path = f.name
    res = []
    try:
        for root in (olddir, HERE):
            env = dict(os.environ, PYTHONPATH=root, PYTHONHASHSEED='0')
            r = subprocess.run([PY, '-c', CHILD, path], env=env, cwd='/', capture_output=True, text=True, check=True)
            assert r.stderr == '', r.stderr
            res.append(json.loads(r.stdout))
    finally:
        os.unlink(path)
    (f0, noise0, out0), (f1, noise1, out1) = res
    assert f0.startswith(olddir) and f1.startswith(HERE), (f0, f1)
    assert noise0 == noise1 == ['', '', []], (noise0, noise1)
    assert len(out0) == len(out1) == len(data) + 1
    nexc = 0
    for item, a, b in zip(data + ['purge'], out0, out1):
        assert a == b, (item, a, b)
        if isinstance(a, list) and a[0] == 'exc':
            nexc += 1
    print(f'   parser corpus: {len(data)} patterns, {nexc} raising, identical')
    return len(data)


def check_threads() -> int:
    """Threads compiling invalid and valid patterns at once see what a lone call sees (worktree copy)."""

    import threading
    sys.path.insert(0, HERE)
    import soupsieve as sv
    from soupsieve import css_parser as cp
    assert sv.__file__.startswith(HERE)

    pats = [p for p, c in corpus() if c is None][:200]

    def one(p):
        try:
            return ('ok', repr(sv.compile(p).selectors))
        except Exception as e:  # noqa: BLE001
            return (type(e).__name__, str(e), getattr(e, 'context', None), getattr(e, 'line', None), getattr(e, 'col', None))

    import warnings
    warnings.simplefilter('ignore')
    expected = [one(p) for p in pats]
    sv.purge()
    bad = []

    def worker(seed):
        rnd = random.Random(seed)
        for _ in range(400):
            i = rnd.randrange(len(pats))
            if one(pats[i]) != expected[i]:
                bad.append(pats[i])

    old = sys.getswitchinterval()
    sys.setswitchinterval(1e-6)
    try:
        ts = [threading.Thread(target=worker, args=(k,)) for k in range(8)]
        [t.start() for t in ts]
        [t.join() for t in ts]
    finally:
        sys.setswitchinterval(old)
    assert not bad, bad[:3]
    assert cp._cached_css_compile.cache_info().currsize <= 500
    sv.purge()
    assert cp._cached_css_compile.cache_info().currsize == 0
    return 8 * 400


def main() -> None:
    with tempfile.TemporaryDirectory() as olddir:
        tar = subprocess.run(['git', 'archive', 'HEAD', 'soupsieve'], cwd=HERE, capture_output=True, check=True).stdout
        tarfile.open(fileobj=io.BytesIO(tar)).extractall(olddir)
        old = load(os.path.join(olddir, 'soupsieve', 'util.py'), 'old_util')
        new = load(os.path.join(HERE, 'soupsieve', 'util.py'), 'new_util')
        assert old.get_pattern_context.__code__.co_code != new.get_pattern_context.__code__.co_code
        print(f'1. get_pattern_context: {check_context(old, new)} comparisons identical')
        print(f'2. SelectorSyntaxError: {check_exception(old, new)} comparisons identical')
        print(f'3. compile in fresh interpreters: {check_parser(olddir)} identical')
    print(f'4. threads: {check_threads()} concurrent compiles identical to sequential ones')
    print('OK')


if __name__ == '__main__':
    main()
