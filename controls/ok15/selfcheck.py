"""
Differential self check for the copy/deepcopy change.

Usage: /venv/bin/python selfcheck.py

Extracts `git archive HEAD soupsieve` into a temporary directory, runs the same probe script in a
fresh interpreter against the unmodified and the modified sources, and requires identical reports.
Facts that are *meant* to differ (nested nodes are now their own copies) are asserted only on the
modified side and kept out of the compared report.
"""
import json
import os
import subprocess
import sys
import tempfile

HERE = os.path.dirname(os.path.abspath(__file__))

PROBE = r'''
import sys, json, copy, pickle, threading, io, hashlib
PATCHED = sys.argv[1] == 'patched'
import soupsieve as sv
from soupsieve import css_types as ct, css_match as cm, css_parser as cp
from bs4 import BeautifulSoup

HTML = """
<html lang="en"><head><title>t</title></head><body>
<div id="a" class="x y"><p id="p1" class="class">text <span id="s1">one</span></p>
<p id="id" class="class" lang="en">other text</p><p id="p3">three <a href="http://x/y.html">l</a></p></div>
<form><input type="radio" name="r" id="r1"><input type="radio" name="r" id="r2" checked>
<input type="checkbox" id="c1" indeterminate><input type="text" id="t1" placeholder="ph" value="">
<input type="number" min="1" max="5" value="7" id="n1"></form>
<ul><li id="l1">1</li><li id="l2">2</li><li id="l3" dir="rtl">3</li><li id="l4">4</li></ul>
<h1 id="h">head</h1><h2 id="h2">head2</h2>
</body></html>
"""
XML = """<?xml version="1.0"?><root xmlns:ns="http://ns/" xmlns="http://d/"><ns:a id="1"><b ID="2">x</b></ns:a>
<a id="3"/><ns:b id="4">text</ns:b></root>"""

CASES = [
    ('p.class#id[id]:nth-child(2):lang(en):focus:-soup-contains("text", "other text")',
     {'html': 'http://www.w3.org/TR/html4/'}, {':--header': 'h1, h2, h3, h4, h5, h6'}, 0),
    ('p.class#id[id]:nth-child(2):lang(en):focus:-soup-contains("text", "other text")',
     {'html': 'http://www.w3.org/TR/html4/'}, {':--header': 'h1, h2, h3, h4, h5, h6'}, sv.DEBUG * 0 + 0x10),
    ('div > p:not(.zzz, :has(> a)) ~ p', None, None, 0),
    ('li:nth-child(2n+1 of :not([dir=rtl])), li:nth-last-of-type(1)', None, None, 0),
    (':is(h1, h2):--header, :--header + h2', None, {':--header': 'h1, h2, h3, h4, h5, h6'}, 0),
    ('input:indeterminate, input:checked, :in-range, :out-of-range, :placeholder-shown, :default', None, None, 0),
    ('ns|a, ns|b, |a, *|b, [id="2" i], [ID]', {'ns': 'http://ns/', '': 'http://d/'}, None, 0),
    (':root, :empty, :dir(rtl), p:-soup-contains-own("three"), a[href$=".html"], :lang("e*")', None, None, 0),
    ('*', {}, {}, 0),
    (':is()', None, None, 0),
    ('p' + ':not(span' * 30 + ')' * 30, None, None, 0),
]

report = {}
docs = [('html.parser', HTML), ('html.parser', XML)]
try:
    import lxml  # noqa
    docs += [('lxml', HTML), ('lxml-xml', XML)]
except Exception:
    pass
import warnings
with warnings.catch_warnings():
    warnings.simplefilter('ignore')
    soups = [BeautifulSoup(m, p) for p, m in docs]


def idx(soup, els):
    all_ = list(soup.find_all(True))
    pos = {id(e): i for i, e in enumerate(all_)}
    return [pos[id(e)] for e in els]


def behaviour(sel):
    out = []
    for s in soups:
        out.append(idx(s, sel.select(s)))
        out.append([i for i, e in enumerate(s.find_all(True)) if sel.match(e)])
        out.append(idx(s, sel.filter(s.find_all(True))))
        out.append(idx(s, [c for c in (sel.closest(e) for e in s.find_all(True)) if c is not None]))
        out.append(idx(s, sel.select(s, limit=2)))
    return out


def nodes(obj, seen=None):
    """Every Immutable / ImmutableDict reachable from obj."""
    if seen is None:
        seen = []
    if isinstance(obj, (ct.Immutable, ct.ImmutableDict)):
        seen.append(obj)
        if isinstance(obj, ct.Immutable):
            for k in obj.__slots__[:-1]:
                nodes(getattr(obj, k), seen)
    elif isinstance(obj, tuple):
        for o in obj:
            nodes(o, seen)
    return seen


def same(a, b):
    return bool(a == b and not (a != b) and hash(a) == hash(b) and type(a) is type(b))


def digest(b):
    return hashlib.sha256(b).hexdigest()


serial_before = [s.decode() for s in soups]

for n, (pat, ns, custom, flags) in enumerate(CASES):
    r = report.setdefault(str(n), {})
    sv.purge()
    sel = sv.compile(pat, ns, flags, custom=custom)
    r['cache_after_compile'] = cp._cached_css_compile.cache_info().currsize
    r['again_is'] = sv.compile(pat, ns, flags, custom=custom) is sel
    r['passthrough'] = sv.compile(sel) is sel
    for kw in ({'flags': 1}, {'namespaces': {}}, {'custom': {}}):
        try:
            sv.compile(sel, **kw)
            r['pt' + repr(kw)] = 'no error'
        except Exception as e:
            r['pt' + repr(kw)] = [type(e).__name__, str(e)]
    base = behaviour(sel)
    r['behaviour'] = base
    fresh = cm.SoupSieve(
        pat,
        cp.CSSParser(
            pat, custom=cp.process_custom(ct.CustomSelectors(custom) if custom is not None else None), flags=flags
        ).process_selectors(),
        ct.Namespaces(ns) if ns is not None else None,
        ct.CustomSelectors(custom) if custom is not None else None,
        flags
    )
    r['eq_fresh'] = same(sel, fresh)

    variants = {}
    variants['copy'] = copy.copy(sel)
    variants['deepcopy'] = copy.deepcopy(sel)
    memo = {}
    variants['deepcopy_memo'] = copy.deepcopy(sel, memo)
    variants['deepcopy_memo_again'] = copy.deepcopy(sel, memo)
    r['memo_again_is'] = variants['deepcopy_memo_again'] is variants['deepcopy_memo']
    r['memo_has_top'] = memo.get(id(sel)) is variants['deepcopy_memo']
    variants['pickle'] = pickle.loads(pickle.dumps(sel))
    variants['pickle_of_deepcopy'] = pickle.loads(pickle.dumps(variants['deepcopy']))
    variants['copy_of_copy'] = copy.copy(copy.deepcopy(copy.copy(sel)))
    lst = copy.deepcopy([sel, sel, (sel, {'k': sel}), {sel: sel}, frozenset([sel])])
    r['container_sharing'] = [lst[0] is lst[1], lst[0] is lst[2][0], lst[0] is lst[2][1]['k'],
                              list(lst[3])[0] is lst[0], lst[3][sel] is lst[0], list(lst[4])[0] is lst[0]]
    variants['in_list'] = lst[0]
    variants['in_dict_key'] = list(lst[3])[0]
    variants['in_frozenset'] = list(lst[4])[0]
    shallow = copy.copy([sel, (sel,)])
    r['shallow_container'] = [shallow[0] is sel, shallow[1][0] is sel]
    for name, v in variants.items():
        r[name] = {
            'same': same(sel, v),
            'distinct': v is not sel,
            'type': type(v).__name__,
            'behaviour_same': behaviour(v) == base,
            'pickle': digest(pickle.dumps(v)) == digest(pickle.dumps(sel)),
            'repr': repr(v) == repr(sel),
            'compile_passthrough': sv.compile(v) is v,
            'attrs_equal': all(getattr(v, k) == getattr(sel, k) for k in sel.__slots__),
            'ns_type': type(v.namespaces).__name__, 'custom_type': type(v.custom).__name__,
        }
        # lookups in dict/set keyed by the original find the copy and vice versa
        r[name]['lookup'] = ({sel: 1}.get(v), v in {sel}, sel in {v})
    r['pickle_digest'] = digest(pickle.dumps(sel))
    for proto in range(0, pickle.HIGHEST_PROTOCOL + 1):
        r['pickle_proto_%d' % proto] = digest(pickle.dumps(sel, proto))
        r['pickle_dc_proto_%d' % proto] = digest(pickle.dumps(variants['deepcopy'], proto))

    # every nested node
    nn = []
    for node in nodes(sel):
        c, d, dm = copy.copy(node), copy.deepcopy(node), copy.deepcopy(node, {})
        p = pickle.loads(pickle.dumps(node))
        nn.append([type(node).__name__, same(node, c), same(node, d), same(node, dm), same(node, p),
                   p is not node, hash(node) == hash(p)])
        if PATCHED and not isinstance(node, cm.SoupSieve):
            assert c is node and d is node and dm is node, node
        # immutability
        if isinstance(node, ct.Immutable):
            names = list(node.__slots__) + ['__copy__', '__deepcopy__', 'zzz', '__dict__', '__class__', '_hash']
            im = []
            for nm in names:
                for op in ('set', 'del'):
                    try:
                        setattr(node, nm, 1) if op == 'set' else delattr(node, nm)
                        im.append('ALLOWED')
                    except Exception as e:
                        im.append([type(e).__name__, str(e)])
            nn[-1].append(im)
            nn[-1].append(hasattr(node, '__dict__'))
        else:
            nn[-1].append(sorted(vars(node)))
            nn[-1].append(digest(pickle.dumps(node)))
    r['nodes'] = nn

    # memo substitution: a caller supplied replacement for a nested node is honoured
    inner = [x for x in nodes(sel) if isinstance(x, ct.SelectorList)]
    if len(inner) > 1:
        target = inner[-1]
        repl = ct.SelectorList([ct.SelectorNull()], target.is_not, target.is_html)
        d = copy.deepcopy(sel, {id(target): repl})
        r['memo_subst'] = [any(x is repl for x in nodes(d)), d == sel, behaviour(d) == base if not (d == sel) else True,
                           digest(pickle.dumps(d))]
    r['cache_end'] = cp._cached_css_compile.cache_info().currsize
    r['still_cached'] = sv.compile(pat, ns, flags, custom=custom) is sel

# nothing changed the documents
report['docs_unchanged'] = [s.decode() for s in soups] == serial_before


# exotic, directly constructed values: hashable but mutable payloads must still be copied by deepcopy
class Box:
    def __init__(self, v):
        self.v = v

    def __eq__(self, other):
        return isinstance(other, Box) and other.v == self.v

    def __hash__(self):
        return 7

    def __lt__(self, other):
        return True

    def __repr__(self):
        return 'Box(%r)' % (self.v,)


b = Box([1])
t = ct.SelectorTag(b, None)
d = copy.deepcopy(t)
c = copy.copy(t)
report['exotic_tag'] = [d == t, d.name is not b, d.name.v is not b.v, c.name is b, hash(d) == hash(t)]
lst_sel = ct.SelectorList([ct.Selector(t, (), (), (), (), (), ct.SelectorList(), None, (), (), 0)])
d = copy.deepcopy(lst_sel)
report['exotic_nested'] = [d == lst_sel, d[0].tag.name is not b, d is not lst_sel, d[0].relation == lst_sel[0].relation]
im = ct.ImmutableDict({'k': b, 'j': 'str'})
d = copy.deepcopy(im)
c = copy.copy(im)
report['exotic_dict'] = [d == im, d['k'] is not b, d['k'].v is not b.v, c['k'] is b, hash(d) == hash(im), c == im,
                         type(d).__name__, type(c).__name__, sorted(d), len(d)]
imk = ct.ImmutableDict({b: 'v'})
d = copy.deepcopy(imk)
report['exotic_dict_key'] = [d == imk, list(d)[0] is not b, hash(d) == hash(imk)]
for cls in (ct.Namespaces, ct.CustomSelectors, ct.ImmutableDict):
    x = cls({'a': 'b', 'c': 'd'})
    report['dict_' + cls.__name__] = [
        same(x, copy.copy(x)), same(x, copy.deepcopy(x)), same(x, copy.deepcopy(x, {})),
        same(x, pickle.loads(pickle.dumps(x))), pickle.loads(pickle.dumps(x)) is not x,
        digest(pickle.dumps(x)), repr(x.__reduce__()), dict(copy.deepcopy(x)) == {'a': 'b', 'c': 'd'},
        same(cls([('a', 'b'), ('c', 'd')]), copy.deepcopy(x)),
    ]
    for bad in ({'a': []}, [('a', [])]):
        try:
            cls(bad)
            report['dict_bad_' + cls.__name__ + repr(bad)] = 'no error'
        except Exception as e:
            report['dict_bad_' + cls.__name__ + repr(bad)] = [type(e).__name__, str(e)]
    if PATCHED:
        assert copy.copy(x) is x and copy.deepcopy(x) is x

class S(str):
    pass


sname = S('abc')
t = ct.SelectorTag(sname, None)
d = copy.deepcopy(t)
report['exotic_strsub'] = [d == t, d.name is not sname, type(d.name).__name__, hash(d) == hash(t), d is not t]
t = ct.SelectorTag('abc', None)
d = copy.deepcopy(t, {id(t.name): 'zzz'})
report['memo_atomic'] = [d.name, d.prefix, d == t, hash(d) == hash(ct.SelectorTag('zzz', None))]
one = ct.Selector(t, (), ('c',), (), (), (), ct.SelectorList(), None, (), (), 0)
d = copy.deepcopy(one, {id(()): ('x',)})
report['memo_empty_tuple'] = [repr(d), d == one]
d = copy.deepcopy(ct.SelectorList([one]), {id(one): ct.SelectorNull()})
report['memo_node'] = [repr(d), len(d)]
d = ct.SelectorList([one]).__deepcopy__({}) if PATCHED else copy.deepcopy(ct.SelectorList([one]))
report['direct_call'] = [d == ct.SelectorList([one]), hash(d) == hash(ct.SelectorList([one]))]

# the caller's dicts are not kept alive inside the compiled object, copies included
ns = {'ns': 'http://ns/'}
cu = {':--x': 'p'}
sv.purge()
sel = sv.compile('ns|a, :--x', ns, custom=cu)
dc = copy.deepcopy(sel)
ns['ns'] = 'zzz'; ns['other'] = 'q'; cu[':--x'] = 'div'
report['scribble'] = [dict(sel.namespaces), dict(sel.custom), dict(dc.namespaces), dict(dc.custom),
                      same(sel, dc), same(sel, sv.compile('ns|a, :--x', {'ns': 'http://ns/'}, custom={':--x': 'p'}))]

# null / base objects
for o in (ct.SelectorNull(), ct.SelectorList(), ct.SelectorLang(['en']), ct.SelectorContains(['a'], True)):
    report['base_' + type(o).__name__] = [same(o, copy.copy(o)), same(o, copy.deepcopy(o)), same(o, copy.deepcopy(o, {}))]

# threads: copy / deepcopy / select of the same compiled selector from many threads
sv.purge()
pat, ns, custom, flags = CASES[0]
expected = None
errors = []
results = []
barrier = threading.Barrier(8)


def worker(i):
    try:
        barrier.wait()
        for j in range(60):
            s = sv.compile(pat, ns, flags, custom=custom)
            for v in (copy.copy(s), copy.deepcopy(s), copy.deepcopy([s])[0], pickle.loads(pickle.dumps(s))):
                if not same(v, s) or v is s:
                    errors.append('mismatch')
                results.append(idx(soups[0], v.select(soups[0])))
            if j % 7 == i % 7:
                sv.purge()
    except BaseException as e:  # noqa
        errors.append(repr(e))


ths = [threading.Thread(target=worker, args=(i,)) for i in range(8)]
[t.start() for t in ths]
[t.join() for t in ths]
report['threads'] = [errors, len(results), len({tuple(x) for x in results}), sorted({tuple(x) for x in results})]
report['cache_bound'] = cp._cached_css_compile.cache_info().maxsize

# class surface (names added by the change are listed separately so the rest can be compared)
added = {'__copy__', '__deepcopy__'}
for cls in (ct.Immutable, ct.ImmutableDict, ct.Namespaces, ct.Selector, ct.SelectorList, cm.SoupSieve):
    report['surface_' + cls.__name__] = sorted(set(vars(cls)) - added)
    report['slots_' + cls.__name__] = list(getattr(cls, '__slots__', ()))
report['all'] = [list(ct.__all__), list(sv.__all__)]
report['dispatch'] = sorted(k.__name__ for k, v in __import__('copyreg').dispatch_table.items() if v is ct._pickle)

print(json.dumps(report, sort_keys=True, default=repr))
'''

IMPORT_PROBE = r'''
import sys, warnings
order = sys.argv[1].split(',')
for m in order:
    if m == 'bs4b':
        from bs4 import BeautifulSoup
    else:
        __import__(m)
import bs4, soupsieve
s = bs4.BeautifulSoup('<div><p class="a">x</p><p>y</p></div>', 'html.parser')
a = [str(x) for x in s.select('p.a, p:nth-child(2)')]
b = [str(x) for x in soupsieve.select('p.a, p:nth-child(2)', s)]
assert a == b
sys.stdout.write('R:' + repr(a))
'''


def run(src, script, *args, extra=()):
    env = dict(os.environ)
    env['PYTHONPATH'] = src
    env['PYTHONHASHSEED'] = '0'
    p = subprocess.run(
        [sys.executable, *extra, '-c', script, *args],
        env=env, capture_output=True, text=True, cwd=tempfile.gettempdir()
    )
    return p


def main():
    with tempfile.TemporaryDirectory() as tmp:
        base = os.path.join(tmp, 'base')
        os.mkdir(base)
        ar = subprocess.run(['git', 'archive', 'HEAD', 'soupsieve'], cwd=HERE, capture_output=True, check=True)
        subprocess.run(['tar', '-x', '-C', base], input=ar.stdout, check=True)

        where = run(HERE, 'import soupsieve; print(soupsieve.__file__)').stdout.strip()
        assert where.startswith(HERE), where
        where = run(base, 'import soupsieve; print(soupsieve.__file__)').stdout.strip()
        assert where.startswith(base), where

        a = run(base, PROBE, 'base')
        b = run(HERE, PROBE, 'patched')
        for p in (a, b):
            if p.returncode or p.stderr:
                print(p.stdout[-2000:], p.stderr[-4000:])
                raise SystemExit('probe failed')
        ra, rb = json.loads(a.stdout), json.loads(b.stdout)
        bad = 0
        for k in sorted(set(ra) | set(rb)):
            if ra.get(k) != rb.get(k):
                bad += 1
                print('DIFF', k)
                if isinstance(ra.get(k), dict):
                    for kk in sorted(set(ra[k]) | set(rb[k])):
                        if ra[k].get(kk) != rb[k].get(kk):
                            print('   ', kk, '\n      base   :', ra[k].get(kk), '\n      patched:', rb[k].get(kk))
                else:
                    print('      base   :', ra.get(k), '\n      patched:', rb.get(k))
        print('probe keys compared:', len(ra), 'differences:', bad)

        # import silence / order
        for order in ('bs4', 'bs4b', 'soupsieve', 'bs4,soupsieve', 'soupsieve,bs4', 'soupsieve,bs4b', 'bs4b,soupsieve'):
            outs = []
            for src in (base, HERE):
                p = run(src, IMPORT_PROBE, order, extra=('-W', 'error', '-X', 'dev'))
                outs.append((p.returncode, p.stdout, p.stderr))
            if outs[0] != outs[1] or outs[1][0] != 0 or outs[1][2] or not outs[1][1].startswith('R:'):
                bad += 1
                print('IMPORT DIFF', order, outs)
        print('import orders checked')
        if bad:
            raise SystemExit(1)
        print('OK: identical')


if __name__ == '__main__':
    main()
