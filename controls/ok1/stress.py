"""
Stress test for the cache lock in `soupsieve.compile` / `soupsieve.purge`.

Run with: cd /tmp/wt_ok1 && PYTHONPATH=/tmp/wt_ok1 /venv/bin/python stress.py

4 worker threads each perform a few thousand randomly chosen operations (compile, select,
match, filter, closest, purge) on valid and invalid patterns, with and without `custom=` and
`namespaces=`. Every result is compared with a single-threaded reference computed up front
(the reference for a failing pattern is the exception type and message). A watchdog fails the
run if the workers do not finish in time (deadlock detection). The cache bound and the
truthfulness of `cache_info()` are checked as well.
"""
import copy
import os
import pickle
import random
import sys
import threading
import time
import faulthandler

import bs4
import soupsieve as sv
from soupsieve import css_parser as cp

THREADS = 4
OPS_PER_THREAD = 4000
DEADLINE = 120.0

MARKUP = """
<html><head><title>t</title></head><body>
<div id="a" class="x y"><p id="p1" class="x">one <span id="s1">two</span></p>
<p id="p2" lang="en">three <a id="l1" href="http://example.com">link</a></p></div>
<div id="b"><ul><li id="i1">1</li><li id="i2" class="y">2</li><li id="i3">3</li></ul>
<input id="in1" type="checkbox" checked><input id="in2" type="text" required></div>
</body></html>
"""

CUSTOM = {':--para': 'p.x, p[lang]', ':--item': 'li:nth-child(odd)', ':--nest': 'div > :--para'}
NAMESPACES = {'x': 'http://www.w3.org/1999/xhtml'}

VALID = [
    'div', 'p', 'p.x', '#a > p', 'div p span', 'li:nth-child(2n+1)', 'li:nth-last-of-type(1)',
    'a[href^="http"]', ':is(p, li).y', ':not(.x)', 'div:has(> ul)', 'p:lang(en)', ':root',
    'input:checked', 'input:required', ':-soup-contains("two")', 'li ~ li', 'li + li', '*',
    'span, a, li.y', ':where(#p1, #i2)', 'div:not(:has(p))', 'p:first-child', ':link',
]
VALID_CUSTOM = [':--para', ':--item', 'div :--para', ':--nest', 'ul > :--item']
VALID_NS = ['x|p', '*|li', 'x|div > x|p']
INVALID = ['div >', 'p:', ':nth-child(', '[a=', 'div,,p', ':unknown-pseudo', ':has()', 'p:--undefined', '!!', '']
INVALID_CUSTOM_MAPS = [{'bad-name': 'p'}, {':--a': 'p', ':--A': 'div'}]
# Enough distinct keys to overflow the 500 entry cache and exercise eviction.
FILLER = [f'div.c{i} > p#q{i}' for i in range(700)]


def ident(els):
    """Reduce tags to something comparable."""
    if els is None:
        return None
    if isinstance(els, bs4.Tag):
        return els.get('id') or els.name
    return [e.get('id') or e.name for e in els]


def outcome(fn):
    """Run `fn`, returning a comparable description of its result or its exception."""
    try:
        return ('ok', fn())
    except Exception as e:  # noqa: BLE001
        return ('err', type(e).__name__, str(e))


def build_cases(soup):
    """Build `(name, callable)` pairs; the callables are safe to run from any thread."""
    span = soup.select_one('#s1')
    items = soup.find_all('li')
    cases = []

    def add(name, fn):
        cases.append((name, fn))

    for pat, kw in (
        [(p, {}) for p in VALID + INVALID + FILLER] +
        [(p, {'custom': CUSTOM}) for p in VALID_CUSTOM + VALID[:6] + INVALID[:4]] +
        [(p, {'namespaces': NAMESPACES}) for p in VALID_NS + VALID[:4]] +
        [(p, {'namespaces': NAMESPACES, 'custom': CUSTOM}) for p in VALID_CUSTOM[:2] + VALID_NS[:2]] +
        [('p', {'custom': m}) for m in INVALID_CUSTOM_MAPS] +
        [('p', {'custom': {}}), ('p', {'namespaces': {}})]
    ):
        tag = f'{pat!r} {sorted(kw)} {kw.get("custom") is not None and sorted(kw["custom"])}'
        add(f'compile {tag}', lambda pat=pat, kw=kw: _describe(sv.compile(pat, **kw)))
        if pat not in FILLER:
            add(f'select {tag}', lambda pat=pat, kw=kw: ident(sv.select(pat, soup, **kw)))
            add(f'select_one {tag}', lambda pat=pat, kw=kw: ident(sv.select_one(pat, soup, **kw)))
            add(f'match {tag}', lambda pat=pat, kw=kw: sv.match(pat, span, **kw))
            add(f'filter {tag}', lambda pat=pat, kw=kw: ident(sv.filter(pat, items, **kw)))
            add(f'closest {tag}', lambda pat=pat, kw=kw: ident(sv.closest(pat, span, **kw)))
    return cases


def _describe(compiled):
    """Describe a compiled object fully (and check the value semantics on the way)."""
    fresh = cp._cached_css_compile.__wrapped__(
        compiled.pattern, compiled.namespaces, compiled.custom, compiled.flags
    )
    assert compiled == fresh and hash(compiled) == hash(fresh), 'cached object differs from a fresh parse'
    assert sv.compile(compiled) is compiled
    assert pickle.loads(pickle.dumps(compiled)) == compiled
    assert copy.deepcopy(compiled) == compiled and copy.copy(compiled) == compiled
    return repr(compiled)


def main():
    print('soupsieve imported from', sv.__file__)
    assert os.path.dirname(os.path.abspath(sv.__file__)) == os.path.join(
        os.path.dirname(os.path.abspath(__file__)), 'soupsieve'
    ), 'wrong soupsieve imported'
    assert type(cp._cache_lock) is type(threading.RLock())

    soup = bs4.BeautifulSoup(MARKUP, 'html.parser')
    before = soup.decode()
    cases = build_cases(soup)

    # Single-threaded reference, each case computed on an empty cache.
    reference = []
    for _name, fn in cases:
        sv.purge()
        reference.append(outcome(fn))
    n_err = sum(1 for r in reference if r[0] == 'err')
    print(f'{len(cases)} cases ({n_err} of them raise)')
    sv.purge()
    assert cp._cached_css_compile.cache_info().currsize == 0

    failures = []
    counts = [0] * THREADS
    maxsize = cp._cached_css_compile.cache_info().maxsize
    start = threading.Barrier(THREADS)

    def worker(tid):
        rnd = random.Random(1000 + tid)
        # Bias towards a small hot set so that threads really do collide on the same keys.
        hot = rnd.sample(range(len(cases)), 12)
        start.wait()
        for n in range(OPS_PER_THREAD):
            r = rnd.random()
            if r < 0.03:
                sv.purge()
            else:
                i = rnd.choice(hot) if r < 0.5 else rnd.randrange(len(cases))
                got = outcome(cases[i][1])
                if got != reference[i]:
                    failures.append((tid, n, cases[i][0], reference[i], got))
            info = cp._cached_css_compile.cache_info()
            if not (0 <= info.currsize <= maxsize == info.maxsize):
                failures.append((tid, n, 'cache_info', info))
            counts[tid] += 1

    threads = [threading.Thread(target=worker, args=(t,), daemon=True) for t in range(THREADS)]
    old_interval = sys.getswitchinterval()
    sys.setswitchinterval(1e-5)  # force very frequent thread switches
    t0 = time.monotonic()
    for t in threads:
        t.start()
    for t in threads:
        t.join(max(0.0, DEADLINE - (time.monotonic() - t0)))
    sys.setswitchinterval(old_interval)
    if any(t.is_alive() for t in threads):
        print('DEADLOCK / TIMEOUT; progress per thread:', counts)
        faulthandler.dump_traceback()
        os._exit(2)
    elapsed = time.monotonic() - t0

    # The lock must be free, the hit/miss accounting exact, and the document untouched.
    assert cp._cache_lock.acquire(blocking=False), 'cache lock left held'
    cp._cache_lock.release()
    info = cp._cached_css_compile.cache_info()
    assert info.currsize <= info.maxsize == maxsize, info
    assert soup.decode() == before, 'document was modified'

    # Accounting: on a quiet system, one miss then one hit, currsize goes 0 -> 1, purge -> 0.
    sv.purge()
    base = cp._cached_css_compile.cache_info()
    assert base.currsize == 0 and base.hits == 0 and base.misses == 0, base
    a = sv.compile('p.fresh')
    b = sv.compile('p.fresh')
    info = cp._cached_css_compile.cache_info()
    assert a is b and (info.hits, info.misses, info.currsize) == (1, 1, 1), info
    # An aborted compile caches nothing and leaves the lock free.
    assert outcome(lambda: sv.compile('div >'))[0] == 'err'
    assert cp._cached_css_compile.cache_info().currsize == 1
    assert sv.compile('p.fresh') is a
    sv.purge()
    assert cp._cached_css_compile.cache_info().currsize == 0

    print(f'{sum(counts)} operations on {THREADS} threads in {elapsed:.1f}s, {len(failures)} mismatches')
    for f in failures[:10]:
        print('MISMATCH', f)
    return 1 if failures else 0


def compile_once_check():
    """Concurrent requests for one new key must lead to exactly one parse (one miss)."""
    for _round in range(200):
        sv.purge()
        barrier = threading.Barrier(THREADS)
        out = [None] * THREADS

        def run(i):
            barrier.wait()
            out[i] = sv.compile(f'div.once{_round} > p:nth-child(2n+{_round})')

        ts = [threading.Thread(target=run, args=(i,)) for i in range(THREADS)]
        for t in ts:
            t.start()
        for t in ts:
            t.join(30)
            assert not t.is_alive(), 'hang'
        info = cp._cached_css_compile.cache_info()
        assert (info.misses, info.hits, info.currsize) == (1, THREADS - 1, 1), info
        assert all(o is out[0] for o in out)
    sv.purge()
    print('compile-once check passed')


def reentrancy_check():
    """A thread inside the locked section can re-enter `compile` / `purge` (the lock is an `RLock`)."""

    class Evil(str):
        def __hash__(self):
            sv.compile('span.reentrant')
            sv.purge()
            return str.__hash__(self)

        __eq__ = str.__eq__

    done = []

    def run():
        done.append(sv.compile(Evil('p.evil')))

    t = threading.Thread(target=run, daemon=True)
    t.start()
    t.join(30)
    assert not t.is_alive(), 'reentrant call deadlocked'
    assert done and done[0] == sv.compile('p.evil')
    sv.purge()
    print('reentrancy check passed')


if __name__ == '__main__':
    rc = main()
    compile_once_check()
    reentrancy_check()
    print('OK' if rc == 0 else 'FAILED')
    sys.exit(rc)
