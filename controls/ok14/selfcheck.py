"""
Differential self-check for the lazy `soupsieve.pretty` change.

Runs a set of small scripts in FRESH interpreters (-W error, so any warning is fatal) twice:
once against the unmodified sources (`git archive HEAD soupsieve`, unpacked to a temp dir) and once
against this worktree, and requires byte-identical stdout, stderr and exit status (after replacing the
two source roots by a placeholder).  Also checks that the worktree copy really is lazy.

Usage: /venv/bin/python selfcheck.py
"""
import io
import itertools
import os
import subprocess
import sys
import tarfile
import tempfile

HERE = os.path.dirname(os.path.abspath(__file__))

PRELUDES = {
    'sv': '',
    'bs4-sv': 'import bs4\n',
    'BS-sv': 'from bs4 import BeautifulSoup\n',
    'sv-bs4': 'import soupsieve\nimport bs4\n',
}

# Each body runs after the prelude.  `show` prints a stable description of an object.
COMMON = r'''
import sys, types
def show(x):
    if isinstance(x, types.ModuleType):
        return 'module:' + x.__name__
    if isinstance(x, types.FunctionType):
        return 'function:' + x.__module__ + '.' + x.__qualname__
    return repr(x)
def attempt(f):
    try:
        return show(f())
    except BaseException as e:
        return type(e).__name__ + ':' + str(e) + ':' + repr(getattr(e, 'name', None))
'''

BODIES = {
    'import_submodule': r'''
import soupsieve.pretty
print(show(soupsieve.pretty), show(soupsieve.pretty.pretty), show(sys.modules['soupsieve.pretty']))
print(soupsieve.pretty is sys.modules['soupsieve.pretty'])
''',
    'from_import': r'''
from soupsieve import pretty
import soupsieve
print(show(pretty), pretty is sys.modules['soupsieve.pretty'], pretty is soupsieve.pretty)
''',
    'from_submodule_import': r'''
from soupsieve.pretty import pretty, TOKENS
print(show(pretty), sorted(TOKENS))
''',
    'star': r'''
ns = {}
exec('from soupsieve import *', ns)
ns.pop('__builtins__')
print(sorted(ns))
ns = {}
exec('from soupsieve.css_types import *', ns)
ns.pop('__builtins__')
print(sorted(ns))
''',
    'import_module': r'''
import importlib
m = importlib.import_module('soupsieve.pretty')
m2 = importlib.import_module('.pretty', 'soupsieve')
import soupsieve
print(show(m), m is m2, m is soupsieve.pretty, m is getattr(soupsieve, 'pretty'))
''',
    'getattr': r'''
import soupsieve
print(show(getattr(soupsieve, 'pretty')))
print(hasattr(soupsieve, 'pretty'), show(getattr(soupsieve, 'pretty', None)))
print(getattr(soupsieve, 'pretty') is sys.modules.get('soupsieve.pretty'))
print(attempt(lambda: soupsieve.nope))
print(attempt(lambda: soupsieve.Pretty))
print(attempt(lambda: soupsieve.__wrapped__))
print(hasattr(soupsieve, '__path__'), hasattr(soupsieve, 'nope'), getattr(soupsieve, 'nope', 5))
try:
    from soupsieve import nope
except ImportError as e:
    print(type(e).__name__, e.name, str(e).split(' (')[0])
''',
    'dir_all': r'''
import soupsieve
import soupsieve.css_types as ct
print(dir(soupsieve))
print(soupsieve.__all__, type(soupsieve.__all__).__name__)
print(dir(ct))
print(ct.__all__)
print(sorted(k for k in dir(soupsieve) if not hasattr(soupsieve, k)))
print(sorted(k for k in dir(ct) if not hasattr(ct, k)))
import inspect
print([k for k, v in inspect.getmembers(soupsieve, inspect.ismodule)])
print(dir(soupsieve))
print(dir(ct))
''',
    'css_types_pretty': r'''
import soupsieve
import soupsieve.css_types as ct
print(show(ct.pretty), show(getattr(ct, 'pretty')), hasattr(ct, 'pretty'))
from soupsieve.css_types import pretty as p
print(p is ct.pretty, p is sys.modules['soupsieve.pretty'].pretty)
print(attempt(lambda: ct.nope))
print(show(ct.Immutable.pretty), show(ct.SelectorList.pretty))
''',
    'pretty_method_first': r'''
import soupsieve as sv
# NB: no attribute / nth selectors here: the UNMODIFIED formatter loops forever on `re.compile(..., re.X|re.Y)`
s = sv.compile('this > that.class, :is(a, b):not(.c) ~ d:lang(en, "de-*"):root', flags=0)
s.selectors.pretty()
s.selectors[0].pretty()
s.selectors[0].tag.pretty()
print(show(sv.pretty), show(sv.css_types.pretty))
''',
    'pretty_method_patched': r'''
import soupsieve as sv
import soupsieve.css_types as ct
s = sv.compile('a.b')
ct.pretty = lambda obj: 'PATCHED<%s>' % type(obj).__name__
s.selectors.pretty()
print(show(sv.pretty))
''',
    'pretty_function': r'''
import soupsieve as sv
print(sv.pretty.pretty(sv.compile('x|a#i:lang(en, "de-*") + :not(b, .c)', {'x': 'y'}).selectors))
print(sv.pretty.pretty({'a': [1, 2, ('x', "y")], 'b': {}}))
''',
    'debug_flag': r'''
import soupsieve as sv
from bs4 import BeautifulSoup
soup = BeautifulSoup('<div><p class="a" id="x">1</p><p>2</p><span>3</span></div>', 'html.parser')
for pat in ('div > p.a', 'p:nth-child(2n+1 of .a), span:not(#x)', ':is(p, span):has(+ span)', 'p:-soup-contains("2")'):
    r = sv.select(pat, soup, flags=sv.DEBUG)
    print([str(t) for t in r])
    print([str(t) for t in soup.select(pat, flags=sv.DEBUG)])
try:
    sv.compile('p:nope(', flags=sv.DEBUG)
except Exception as e:
    print(type(e).__name__, e)
sv.compile(':--c > b', custom={':--c': 'a.b'}, flags=sv.DEBUG)
print(sv.DEBUG, sv.util.DEBUG)
''',
    'queries': r'''
import soupsieve as sv
import copy, pickle
from bs4 import BeautifulSoup
markup = '<html><body><div id="d"><p class="a b" lang="en">x<i>y</i></p><p>z</p><a href="h">l</a></div></body></html>'
soup = BeautifulSoup(markup, 'html.parser')
before = str(soup)
for pat in ('p', 'div > p.a', 'p:lang(en)', ':root', 'a:any-link', 'p:has(> i)', 'p:nth-of-type(2)', 'i, a'):
    c = sv.compile(pat)
    assert c is sv.compile(pat) and c is sv.compile(c)
    r1 = [str(t) for t in sv.select(pat, soup)]
    r2 = [str(t) for t in soup.select(pat)]
    r3 = [str(t) for t in soup.find_all(True) if sv.match(pat, t)]
    print(pat, r1 == r2 == r3, r1)
    for d in (pickle.loads(pickle.dumps(c)), copy.copy(c), copy.deepcopy(c)):
        assert d == c and hash(d) == hash(c) and [str(t) for t in d.select(soup)] == r1
    print(repr(c))
print(str(soup) == before)
print(sv.css_parser._cached_css_compile.cache_info())
sv.purge()
print(sv.css_parser._cached_css_compile.cache_info())
for args in ((sv.compile('a'), {'a': 'b'}), (sv.compile('a'), None, 1)):
    try:
        sv.compile(*args)
    except ValueError as e:
        print(e)
''',
    'silence_and_state': r'''
import io, contextlib, warnings, threading, gc, signal, locale, copyreg
import sys as _sys
base = dict(
    filters=list(warnings.filters), path=list(_sys.path), hooks=list(_sys.meta_path), ph=list(_sys.path_hooks),
    rec=_sys.getrecursionlimit(), sw=_sys.getswitchinterval(), thr=threading.active_count(),
    exc=_sys.excepthook, disp=_sys.displayhook, gc=(gc.isenabled(), gc.get_threshold()),
    sig=signal.getsignal(signal.SIGINT), loc=locale.setlocale(locale.LC_ALL), trace=_sys.gettrace(),
    prof=_sys.getprofile(), out=_sys.stdout, err=_sys.stderr,
)
o, e = io.StringIO(), io.StringIO()
with contextlib.redirect_stdout(o), contextlib.redirect_stderr(e), warnings.catch_warnings(record=True) as w:
    warnings.simplefilter('always')
    import soupsieve
    import bs4
    got_w = [str(x.message) for x in w]
after = dict(
    filters=list(warnings.filters), path=list(_sys.path), hooks=list(_sys.meta_path), ph=list(_sys.path_hooks),
    rec=_sys.getrecursionlimit(), sw=_sys.getswitchinterval(), thr=threading.active_count(),
    exc=_sys.excepthook, disp=_sys.displayhook, gc=(gc.isenabled(), gc.get_threshold()),
    sig=signal.getsignal(signal.SIGINT), loc=locale.setlocale(locale.LC_ALL), trace=_sys.gettrace(),
    prof=_sys.getprofile(), out=_sys.stdout, err=_sys.stderr,
)
print(repr(o.getvalue()), repr(e.getvalue()), got_w)
print([k for k in base if base[k] != after[k]])
print(sorted(m for m in _sys.modules if m.startswith('soupsieve') and m != 'soupsieve.pretty'))
print(type(soupsieve).__name__, type(soupsieve) is types.ModuleType)
''',
    'reload': r'''
import importlib, soupsieve
importlib.reload(soupsieve)
print(show(soupsieve.pretty), dir(soupsieve))
importlib.reload(soupsieve.css_types)
print(show(soupsieve.css_types.pretty))
importlib.reload(soupsieve.pretty)
print(show(soupsieve.pretty))
''',
    'threads_first_use': r'''
import threading, io, contextlib
import soupsieve as sv
s = sv.compile('a > b.c')
N = 16
bar = threading.Barrier(N)
res, errs = [], []
def run(i):
    try:
        bar.wait()
        if i % 4 == 0:
            res.append(show(sv.pretty))
        elif i % 4 == 1:
            res.append(show(sv.css_types.pretty))
        elif i % 4 == 2:
            import soupsieve.pretty as p
            res.append(show(p))
        else:
            res.append(sv.pretty.pretty(s.selectors)[:20])
    except BaseException as e:
        errs.append(repr(e))
ts = [threading.Thread(target=run, args=(i,)) for i in range(N)]
[t.start() for t in ts]; [t.join() for t in ts]
print(sorted(res), errs)
s.selectors.pretty()
''',
}

LAZY_CHECK = r'''
import sys
import soupsieve, bs4
from bs4 import BeautifulSoup
assert 'soupsieve.pretty' not in sys.modules, 'pretty imported eagerly'
assert 'pretty' not in vars(soupsieve) and 'pretty' not in vars(soupsieve.css_types)
soupsieve.select('p.a', BeautifulSoup('<p class="a">', 'html.parser'), flags=soupsieve.DEBUG)
dir(soupsieve); soupsieve.__all__
assert 'soupsieve.pretty' not in sys.modules, 'pretty imported by ordinary use'
soupsieve.compile('a').selectors.pretty()
assert sys.modules['soupsieve.pretty'] is vars(soupsieve)['pretty']
assert vars(soupsieve.css_types)['pretty'] is soupsieve.pretty.pretty
print('lazy ok')
'''


def run(root, script):
    env = dict(os.environ, PYTHONPATH=root, PYTHONHASHSEED='0', PYTHONDONTWRITEBYTECODE='1')
    p = subprocess.run(
        [sys.executable, '-W', 'error', '-c', script], env=env, capture_output=True, cwd=tempfile.gettempdir(), timeout=60
    )
    norm = lambda b: b.replace(root.encode(), b'<ROOT>')  # noqa: E731
    return p.returncode, norm(p.stdout), norm(p.stderr)


def main():
    ref = tempfile.mkdtemp(prefix='svref_')
    tar = subprocess.run(['git', 'archive', 'HEAD', 'soupsieve'], cwd=HERE, capture_output=True, check=True).stdout
    tarfile.open(fileobj=io.BytesIO(tar)).extractall(ref)

    bad = 0
    for (pn, pre), (bn, body) in itertools.product(PRELUDES.items(), BODIES.items()):
        script = pre + COMMON + body
        a = run(ref, script)
        b = run(HERE, script)
        ok = a == b and a[0] == 0
        if not ok:
            bad += 1
            print(f'FAIL {pn}/{bn}')
            print('  ref    :', a)
            print('  patched:', b)
    rc, out, err = run(HERE, LAZY_CHECK)
    if rc or b'lazy ok' not in out or err:
        bad += 1
        print('FAIL lazy check', rc, out[-300:], err[-600:])
    rc2, _, _ = run(ref, LAZY_CHECK)
    print(f'{len(PRELUDES) * len(BODIES)} differential scenarios, lazy check rc={rc} (reference rc={rc2}, expected 1)')
    print('SELFCHECK', 'FAILED' if bad else 'PASSED')
    return 1 if bad else 0


if __name__ == '__main__':
    sys.exit(main())
