"""
Differential self check of the parser refactor.

The working tree version of `soupsieve` is compared with the unmodified sources of `HEAD`, that are
extracted with `git show` into a temporary package named `soupsieve_ref`. For thousands of generated
patterns (valid and invalid) both versions must produce a structurally identical compiled object (same
`repr`, same structure down to the regular expressions, same hash) or raise the same exception (type
and message), emit the same warnings, and print the same debug output to `sys.stdout`.

Additional sections check the cache, threads, aborted compiles and the import-time tables.

Run: cd /tmp/wt_ok8 && PYTHONPATH=/tmp/wt_ok8 /venv/bin/python selfcheck.py [seed] [count]
"""
from __future__ import annotations
import contextlib
import functools
import importlib
import io
import os
import pickle
import pickletools
import random
import re
import shutil
import signal
import subprocess
import sys
import tempfile
import threading
import time
import types
import warnings

HERE = os.path.dirname(os.path.abspath(__file__))
SEED = int(sys.argv[1]) if len(sys.argv) > 1 else 20261001
COUNT = int(sys.argv[2]) if len(sys.argv) > 2 else 8000

failures = []  # type: list[str]
stats = {}  # type: dict[str, int]


def fail(msg):
    """Record a failure."""

    failures.append(msg)
    if len(failures) <= 25:
        print('FAIL:', msg)


def bump(key, n=1):
    """Count."""

    stats[key] = stats.get(key, 0) + n


###############################################################################
# Load both versions
###############################################################################

def load_reference(tmp):
    """Extract the sources of `HEAD` as the package `soupsieve_ref`."""

    pkg = os.path.join(tmp, 'soupsieve_ref')
    os.mkdir(pkg)
    names = subprocess.check_output(
        ['git', 'ls-tree', '--name-only', 'HEAD', 'soupsieve/'], cwd=HERE, text=True
    ).split()
    for name in names:
        data = subprocess.check_output(['git', 'show', f'HEAD:{name}'], cwd=HERE)
        with open(os.path.join(pkg, os.path.basename(name)), 'wb') as f:
            f.write(data)
    sys.path.insert(0, tmp)
    return importlib.import_module('soupsieve_ref')


sys.path.insert(0, HERE)
sys.dont_write_bytecode = True
import soupsieve as new  # noqa: E402

TMP = tempfile.mkdtemp(prefix='selfcheck_ref_')
ref = load_reference(TMP)

assert os.path.dirname(os.path.abspath(new.__file__)) == os.path.join(HERE, 'soupsieve'), new.__file__
assert os.path.abspath(ref.__file__).startswith(TMP), ref.__file__
assert new.cp is not ref.cp and new.ct is not ref.ct and new.util is not ref.util


###############################################################################
# Canonical form of compiled objects and of outcomes
###############################################################################

PATTERN_TYPE = type(re.compile(''))


def canon(obj):
    """Canonical, package independent form of a compiled object (regular expressions are not truncated)."""

    if obj is None or isinstance(obj, (str, int, bool)):
        return (type(obj).__name__, obj)
    if isinstance(obj, PATTERN_TYPE):
        return ('re', obj.pattern, obj.flags)
    if isinstance(obj, (tuple, list)):
        return (type(obj).__name__, tuple(canon(x) for x in obj))
    cls = type(obj)
    if hasattr(obj, '_d') and hasattr(obj, '_hash'):
        return (cls.__name__, tuple((canon(k), canon(v)) for k, v in obj._d.items()), obj._hash)
    if hasattr(cls, '__slots__'):
        slots = [s for s in cls.__slots__ if s != '_hash']
        return (cls.__name__, tuple((s, canon(getattr(obj, s))) for s in slots), hash(obj))
    raise TypeError(f'Unexpected object in a compiled selector: {obj!r}')


def pickle_ops(obj):
    """Pickle as a list of operations, independent of the name of the package."""

    return tuple(
        (op.name, arg.replace('soupsieve_ref', 'soupsieve') if isinstance(arg, str) else arg)
        for op, arg, _ in pickletools.genops(pickle.dumps(obj)) if op.name != 'FRAME'
    )


def outcome(mod, pattern, namespaces, custom, flags):
    """Compile with the given version; the outcome is the result or the error, the warnings and the output."""

    out = io.StringIO()
    with warnings.catch_warnings(record=True) as caught:
        warnings.simplefilter('always')
        with contextlib.redirect_stdout(out):
            try:
                compiled = mod.compile(pattern, namespaces, flags, custom=custom)
                # A second compile must be served by the cache
                if mod.compile(pattern, namespaces, flags, custom=custom) is not compiled:
                    result = ('not-cached',)
                else:
                    result = (
                        'ok', repr(compiled), repr(compiled.selectors), canon(compiled), hash(compiled),
                        pickle_ops(compiled)
                    )
            except Exception as e:  # noqa: BLE001
                result = ('error', type(e).__name__, str(e), [type(x).__name__ for x in type(e).__mro__],
                          getattr(e, 'line', None), getattr(e, 'col', None), getattr(e, 'context', None))
    warns = tuple((w.category.__name__, str(w.message)) for w in caught)
    return result, warns, out.getvalue()


def compare(pattern, namespaces, custom, flags, where='seq'):
    """Compare the outcome of the two versions."""

    a = outcome(ref, pattern, namespaces, custom, flags)
    b = outcome(new, pattern, namespaces, custom, flags)
    bump('compared')
    bump('valid' if a[0][0] == 'ok' else 'invalid:' + a[0][1])
    if flags & 1:
        bump('debug')
        if a[2].startswith('## PARSING'):
            # Nothing is printed when the compiled pattern is found in the cache
            bump('debug with output')
    if a[1]:
        bump('with warnings')
    if a != b:
        for label, x, y in (('result', a[0], b[0]), ('warnings', a[1], b[1]), ('stdout', a[2], b[2])):
            if x != y:
                fail(
                    f'[{where}] {label} differs for pattern={pattern!r} namespaces={namespaces!r} '
                    f'custom={custom!r} flags={flags!r}\n   ref: {x!r}\n   new: {y!r}'
                )
    return a


###############################################################################
# Pattern generator
###############################################################################

PSEUDO_SIMPLE = sorted(ref.cp.PSEUDO_SIMPLE)
PSEUDO_SIMPLE_NO_MATCH = sorted(ref.cp.PSEUDO_SIMPLE_NO_MATCH)
PSEUDO_COMPLEX = sorted(ref.cp.PSEUDO_COMPLEX)
PSEUDO_COMPLEX_NO_MATCH = sorted(ref.cp.PSEUDO_COMPLEX_NO_MATCH)
PSEUDO_SPECIAL = sorted(ref.cp.PSEUDO_SPECIAL)

IDENTS = [
    'a', 'div', 'Span', 'P', 'x-y', '_u', '--v', '-a', 'é', 'input', 'type', 'TYPE', 'html', 'of', 'n', 'even',
    '\\31 23', '\\41', '\\41 b', '\\000041x', '\\0', '\\0 z', '\\110000', '\\d800', '\\ffffff', 'a\\ b', 'a\\.b',
    '\\:root', 'a\\', '\\{', 'ns', 'svg', 'an\x00b'
]
WS = [' ', ' ', ' ', '  ', '\t', '\n', '\r\n', '\r', '\f', ' /* c */ ', '/**/', '/* * / ** */', ' /*a*//*b*/ ', '']
VALUES = [
    'b', 'B', '"b c"', "'b c'", '""', "''", '"a\\"b"', "'\\41 x'", '"\\\nz"', '"\\\r\nz"', '\\41', 'x\\ y', '"/* no */"',
    '1', '"1"', 'radio', '"RADIO"', 'é', '"\\0"', '"\\110000"', 'a b', '"a\nb"', '\\41/**/'
]
NTH = [
    'even', 'odd', 'EVEN', '2n+1', '2n + 1', '-n+3', '+n', 'n', '5', '+5', '-5', '0n+0', '2N-1', 'n-0', '-2n - 3',
    '2n/**/+/**/1', '007n+08', 'e\\ven', '2n+', 'foo', '', 'n+', '+ 5', '2n 1', '1.5', '--n'
]
LANGS = ['en', 'EN-us', '"de-*"', "'*-ch'", '*-de', '\\*-de', '""', 'fr /**/ , de', "en,'de'", 'en,', ',en', '', '1']
DIRS = ['ltr', 'rtl', 'LTR', 'Rtl', ' ltr ', '/**/rtl/**/', 'auto', '', '"ltr"', 'l\\tr']
COMBINATORS = [' ', '>', '+', '~', ',', ' > ', ' + ', ' ~ ', ' , ', '\n>\n', '/**/>/**/', ' /**/ ', '>>', '> +', ', ,', '||']
GARBAGE = [
    '::before', 'a::after', '@page', '@Pfoo', '&', '& > a', '$', '!', '%', '.', '#', ':', '[', ']', '(', ')', '.1',
    '#-', '[a', '[a=]', '[=b]', "['a']", '[a=b', '[a="b]', '[a=b c]', '[a==b]', '[a=b x]', ':is(', ':not', ':has',
    ':unknown', ':unknown(a)', ':root(a)', ':not a', ':nth-child', ':nth-child(', ':lang', ':dir', ':--', ':-',
    ':contains', ':contains(', ':-soup-contains(a', 'a)', ')', '*|', '|', 'a|', '*|*|*', 'a||b', '\\', '/*', '/**/',
    '', ' ', '\x00', '\ufffd', 'a\x00', ':\\', ':is(a))', ':is((a))', ':current', ':host', ':host-context', ':dir(ltr',
    ':nth-child(2n+1 of', ':nth-child(2n+1 of)', ':nth-child(2n+1 of )', ':nth-of-type(2n+1 of a)'
]


EDGES = [
    ':is(a, b > )', ':is(a >)', ':is(a> )', ':where(a, b + )', ':is(a b )', ':is(, a >)', ':not(a >)', ':not(a, b ~ )',
    ':has(a >)', ':has(> a, )', ':has(> )', ':has()', ':has( )', ':has(,)', ':has(> a >)', ':has(a,, b)', ':has(> > a)',
    ':has(a > > b)', ':has(+ a, ~ b c)', ':has(a) b', ':has(, > a)', ':has(> a,, + b)', ':has(a b, )', ':has(~)',
    ':is()', ':is( )', ':is(,)', ':is(,,a)', ':is( , )', ':is(a,)', ':is(a, )', ':is(a,,b)', ':is(/**/)', ':where()',
    ':not()', ':not(,)', ':not( )', ':matches()', ':matches(a,)', 'a:is()', ':is(a', ':is(a,', ':is(a >', ':is(', ':is(a) )',
    ':nth-child(2 of )', ':nth-child(2 of a >)', ':nth-child(2 of a, )', ':nth-child(2 of a', ':nth-child(2 of ,a)',
    ':nth-last-child(odd of :is())', ':nth-child(n of :is(a, b > ))', ':host(a > )', ':host( )', ':current( )',
    ':current(a, )', ':host-context(a', ':host-context(,)', 'a >', 'a > ', 'a ~', '> a', '+ a', ', a', 'a,', 'a ,', 'a,, b',
    'a > > b', 'a > , b', 'a , > b', 'a + ~ b', 'a  b', 'a\n\nb', 'a)', 'a )', ')', ' ) ', 'a > )', 'a, )', '*', '*|*', '&', '& &',
    'a&', '&a', 'a a', 'a*', '*a', '.a*', '[a]b', ':root a', ':root*', 'a:root b:empty', ':is(a b)c', ':is(a)b'
]


def mix_case(rnd, text):
    """Randomly change the case of ASCII letters."""

    return ''.join((c.upper() if rnd.random() < 0.3 else c) for c in text)


def escape_some(rnd, text):
    """Randomly replace a character (not the leading colon or dashes) with an escape."""

    chars = list(text)
    positions = [i for i, c in enumerate(chars) if c.isalpha()]
    if positions and rnd.random() < 0.5:
        i = rnd.choice(positions)
        kind = rnd.random()
        if kind < 0.4:
            chars[i] = f'\\{ord(chars[i]):x} '
        elif kind < 0.7:
            chars[i] = f'\\{ord(chars[i]):06x}'
        elif chars[i] not in 'abcdefABCDEF':
            chars[i] = '\\' + chars[i]
    return ''.join(chars)


def pseudo_name(rnd, name):
    """Variation of a pseudo-class name."""

    r = rnd.random()
    if r < 0.6:
        return name
    if r < 0.85:
        return mix_case(rnd, name)
    return escape_some(rnd, name)


class Gen:
    """Random pattern generator."""

    def __init__(self, rnd, custom_names):
        """Initialize."""

        self.rnd = rnd
        self.custom_names = custom_names

    def ws(self):
        """Optional whitespace or comment."""

        return self.rnd.choice(WS) if self.rnd.random() < 0.35 else ''

    def ident(self):
        """Identifier."""

        return self.rnd.choice(IDENTS)

    def tag(self):
        """Tag."""

        r = self.rnd.random()
        name = self.ident() if r < 0.8 else '*'
        r = self.rnd.random()
        if r < 0.7:
            return name
        if r < 0.8:
            return f'{self.ident()}|{name}'
        if r < 0.9:
            return f'*|{name}'
        return f'|{name}'

    def attribute(self):
        """Attribute selector."""

        rnd = self.rnd
        name = rnd.choice(['a', 'type', 'TYPE', 'Type', 'name', 'href', 'data-x', '\\74ype', 'ns|a', '*|a', '|a', 'xml|lang'])
        if rnd.random() < 0.25:
            return f'[{self.ws()}{name}{self.ws()}]'
        op = rnd.choice(['=', '~=', '|=', '^=', '$=', '*=', '!=', '=', '=='])
        case = rnd.choice(['', '', '', ' i', ' s', ' I', ' S', 'i', '/**/i', ' x'])
        return f'[{self.ws()}{name}{self.ws()}{op}{self.ws()}{rnd.choice(VALUES)}{case}{self.ws()}]'

    def values(self):
        """List of values."""

        rnd = self.rnd
        items = [rnd.choice(VALUES) for _ in range(rnd.choice([1, 1, 1, 2, 3]))]
        return (self.ws() + ',' + self.ws()).join(items)

    def pseudo(self, depth):
        """Pseudo class of any family."""

        rnd = self.rnd
        r = rnd.random()
        if r < 0.30:
            return pseudo_name(rnd, rnd.choice(PSEUDO_SIMPLE))
        if r < 0.36:
            return pseudo_name(rnd, rnd.choice(PSEUDO_SIMPLE_NO_MATCH))
        if r < 0.40:
            # Wrong syntax for the family
            return pseudo_name(rnd, rnd.choice(PSEUDO_SIMPLE + PSEUDO_SIMPLE_NO_MATCH)) + f'({self.selector_list(depth + 1)})'
        if r < 0.43:
            return pseudo_name(rnd, rnd.choice(PSEUDO_COMPLEX + PSEUDO_SPECIAL + PSEUDO_COMPLEX_NO_MATCH))
        if r < 0.60:
            name = rnd.choice([':is', ':not', ':where', ':has', ':matches', ':is', ':not', ':has'])
            relative = name == ':has' and rnd.random() < 0.6
            inner = self.selector_list(depth + 1, relative=relative, forgiving=True)
            close = ')' if rnd.random() < 0.96 else ''
            return f'{pseudo_name(rnd, name)}({self.ws()}{inner}{self.ws()}{close}'
        if r < 0.68:
            name = rnd.choice([':contains', ':-soup-contains', ':-soup-contains-own'])
            return f'{pseudo_name(rnd, name)}({self.ws()}{self.values()}{self.ws()})'
        if r < 0.80:
            name = rnd.choice([':nth-child', ':nth-last-child', ':nth-of-type', ':nth-last-of-type'])
            of = ''
            if rnd.random() < 0.35:
                sep1 = rnd.choice([' ', ' ', '/**/ ', ' /**/', '/**/', '\n', ''])
                sep2 = rnd.choice([' ', ' ', '/**/ ', ' /**/', '/**/', '\n', ''])
                of = f'{sep1}{mix_case(rnd, "of")}{sep2}{self.selector_list(depth + 1, forgiving=rnd.random() < 0.1)}'
            return f'{pseudo_name(rnd, name)}({self.ws()}{rnd.choice(NTH)}{of}{self.ws()})'
        if r < 0.86:
            return f'{pseudo_name(rnd, ":lang")}({self.ws()}{rnd.choice(LANGS)}{self.ws()})'
        if r < 0.91:
            return f'{pseudo_name(rnd, ":dir")}({rnd.choice(DIRS)})'
        if r < 0.95:
            name = rnd.choice(PSEUDO_COMPLEX_NO_MATCH)
            return f'{pseudo_name(rnd, name)}({self.selector_list(depth + 1, forgiving=rnd.random() < 0.2)})'
        if self.custom_names:
            return pseudo_name(rnd, rnd.choice(self.custom_names))
        return ':--undefined'

    def compound(self, depth):
        """Compound selector."""

        rnd = self.rnd
        parts = []
        if rnd.random() < 0.6:
            parts.append(self.tag())
        for _ in range(rnd.choice([0, 0, 1, 1, 1, 2, 3])):
            r = rnd.random()
            if r < 0.15:
                parts.append('.' + self.ident())
            elif r < 0.25:
                parts.append('#' + self.ident())
            elif r < 0.45:
                parts.append(self.attribute())
            elif r < 0.48:
                parts.append('&')
            elif r < 0.50:
                # Tag that is not at the start
                parts.append(self.tag())
            elif depth < 3:
                parts.append(self.pseudo(depth))
            else:
                parts.append(pseudo_name(rnd, rnd.choice(PSEUDO_SIMPLE)))
        if not parts and rnd.random() < 0.8:
            parts.append(self.tag())
        return ''.join(parts)

    def selector_list(self, depth=0, relative=False, forgiving=False):
        """Selector list."""

        rnd = self.rnd
        out = []
        if relative:
            out.append(rnd.choice(['>', '+', '~', ' ', '> ', '>>', '']))
        n = rnd.choice([1, 1, 1, 2, 2, 3, 4])
        for i in range(n):
            if forgiving and rnd.random() < 0.12:
                piece = ''
            else:
                piece = self.compound(depth)
            out.append(piece)
            if i < n - 1:
                comb = rnd.choice(COMBINATORS)
                out.append(comb)
                if relative and comb.strip() == ',' and rnd.random() < 0.7:
                    out.append(rnd.choice(['>', '+', '~', '> ']))
        if rnd.random() < 0.03:
            out.append(rnd.choice(COMBINATORS))
        return ''.join(out)

    def pattern(self):
        """Pattern."""

        rnd = self.rnd
        r = rnd.random()
        if r < 0.04:
            return rnd.choice(GARBAGE)
        text = rnd.choice(WS) + self.selector_list() + rnd.choice(WS)
        if r < 0.12:
            return text + rnd.choice(GARBAGE)
        if r < 0.16:
            return rnd.choice(GARBAGE) + text
        if r < 0.32 and text:
            # Mutate: delete, duplicate, replace or insert a character
            chars = list(text)
            for _ in range(rnd.choice([1, 1, 2, 3])):
                i = rnd.randrange(len(chars)) if chars else 0
                k = rnd.random()
                if not chars:
                    break
                if k < 0.35:
                    del chars[i]
                elif k < 0.5:
                    chars.insert(i, chars[i])
                elif k < 0.75:
                    chars[i] = rnd.choice('()[]:.#,>+~*|"\'\\/ &@!=-nN0\n')
                else:
                    chars.insert(i, rnd.choice('()[]:.#,>+~*|"\'\\/ &@!=-nN0\n'))
            return ''.join(chars)
        return text


NAMESPACES = [
    None, None, {}, {'html': 'http://www.w3.org/1999/xhtml'}, {'': 'http://default', 'ns': 'http://ns', 'svg': 'svg'},
    {'xml': 'http://www.w3.org/XML/1998/namespace', 'a': 'a'}
]

CUSTOMS = [
    None,
    None,
    {},
    # Chain of aliases
    {':--a': 'div', ':--b': ':--a > p', ':--c': ':is(:--b, :--a):not(.x)', ':--d': ':--c:--c :--b'},
    # Mixed case and escaped names
    {':--Upper': 'a[href]', ':--\\41 b': 'p:first-child', ':--x\\.y': ':root', ':--é': ':has(> a)'},
    # Cycles (direct and indirect), undefined names
    {':--self': ':--self', ':--x': 'a:--y', ':--y': 'b:--z', ':--z': ':is(c, :--x)', ':--u': 'a, :--missing', ':--ok': 'p'},
    # Broken bodies (the error is reported for the body)
    {':--bad': 'div >', ':--bad2': ':is(a', ':--bad3': 'a::before', ':--bad4': '@page', ':--usesbad': 'p:--bad',
     ':--good': 'p.x', ':--empty': '', ':--ws': '  /**/ ', ':--chr': '\\110000', ':--cmt': ':-soup-contains(\\41/**/,b)'},
    # Bodies with all kind of pseudo-classes, warnings, line breaks
    {':--old': ':contains(x)', ':--nth': 'li:nth-child(2n+1 of :--item)', ':--item': '.item:not(:--old)',
     ':--lines': 'a,\n b >\r\n c:dir(rtl)', ':--lang': ':lang(en, "de")', ':--list': ':--old, :--nth , :--lines',
     ':--form': ':checked:enabled:read-write:in-range'},
    # Invalid names
    {'--a': 'div'},
    {':-a': 'div'},
    {':--a b': 'div'},
    {':--': 'div'},
    # Names that collide after lower casing
    {':--dup': 'a', ':--DUP': 'b'},
    # Same name after unescaping only (no collision is detected)
    {':--\\61': 'a', ':--a': 'b'}
]


# Tables that are rejected as a whole (invalid or duplicate names) are used less often
CUSTOM_WEIGHTS = [0.1 if i in (8, 9, 10, 11, 12) else 1 for i in range(len(CUSTOMS))]


def custom_names(custom):
    """Names that can be used in a pattern to refer to aliases."""

    if not custom:
        return [':--undefined']
    names = [k for k in custom if k.startswith(':--')]
    return names + [':--undefined', ':--A']


###############################################################################
# 1. Import time tables
###############################################################################

def check_tables():
    """Check the tables that are built at import."""

    cp = new.cp
    flags, lists, nth = set(cp.PSEUDO_SIMPLE_FLAGS), set(cp.PSEUDO_SIMPLE_LISTS), set(cp.PSEUDO_SIMPLE_NTH)
    if flags | lists | nth != set(cp.PSEUDO_SIMPLE) or len(flags) + len(lists) + len(nth) != len(cp.PSEUDO_SIMPLE):
        fail('the tables of simple pseudo-classes do not partition PSEUDO_SIMPLE')
    for table in (cp.PSEUDO_SIMPLE_FLAGS, cp.PSEUDO_SIMPLE_LISTS, cp.PSEUDO_SIMPLE_NTH):
        if not isinstance(table, types.MappingProxyType):
            fail('table of simple pseudo-classes is not read-only')
    if hasattr(cp, '_pseudo_simple_lists') or hasattr(cp, '_pseudo_simple_list'):
        fail('the registration helpers are still reachable')
    for name in dir(ref.cp):
        if name.startswith('CSS_'):
            if canon(getattr(ref.cp, name)) != canon(getattr(cp, name, None)):
                fail(f'precompiled list {name} differs')
            bump('precompiled lists')
    for name in (
        'PSEUDO_SIMPLE', 'PSEUDO_SIMPLE_NO_MATCH', 'PSEUDO_COMPLEX', 'PSEUDO_COMPLEX_NO_MATCH', 'PSEUDO_SPECIAL',
        'PSEUDO_SUPPORTED', '_MAXCACHE'
    ) + tuple(n for n in dir(ref.cp) if n.startswith(('PAT_', 'FLG_'))):
        if getattr(ref.cp, name) != getattr(cp, name):
            fail(f'constant {name} differs')
    for name in dir(ref.cp):
        if name.startswith('RE_'):
            a, b = getattr(ref.cp, name), getattr(cp, name)
            if (a.pattern, a.flags) != (b.pattern, b.flags):
                fail(f'regular expression {name} differs')
    # Token table: same names, same expressions, same order; matching is stateless
    old_tokens, new_tokens = ref.cp.CSSParser.css_tokens, cp.CSSParser.css_tokens

    def describe(tokens):
        out = []
        for t in tokens:
            if hasattr(t, 'patterns'):
                out.append(tuple(
                    (k, v.name, v.re_pattern.pattern, v.re_pattern.flags) for k, v in t.patterns.items()
                ) + (t.re_pseudo_name.pattern, t.re_pseudo_name.flags))
            else:
                out.append((t.name, t.re_pattern.pattern, t.re_pattern.flags))
        return out

    if describe(old_tokens) != describe(new_tokens):
        fail('token table differs')
    for t in new_tokens:
        before = {k: v for k, v in vars(t).items()}
        for text in ('a', ':nth-child(2n+1)', ':lang(en)', ':dir(ltr)', ':-soup-contains(a)', ':nth-of-type(1)', ')'):
            res = t.match(text, 0, 0)
            if res is not None and not (isinstance(res, tuple) and isinstance(res[0], str) and res[0]):
                fail(f'match of {t!r} returned {res!r}')
        if vars(t) != before or any(isinstance(v, threading.local) for v in vars(t).values()):
            fail(f'matching changed the state of the shared pattern {t!r}')
    # Cache and `lower`
    for mod in (ref, new):
        cached = mod.cp._cached_css_compile
        if cached.cache_parameters() != {'maxsize': mod.cp._MAXCACHE, 'typed': False} or mod.cp._MAXCACHE != 500:
            fail(f'cache parameters {cached.cache_parameters()}')
        if not hasattr(mod.util.lower, 'cache_info') or mod.util.lower.cache_parameters()['maxsize'] != 512:
            fail('util.lower is not cached as before')
    if type(cp._cached_css_compile) is not type(functools.lru_cache(maxsize=1)(len)):
        fail('_cached_css_compile is not an lru_cache')
    for text in ('', 'ABC', 'aBc-É\u0130Z[@`{', '\ud800A'):
        if new.util.lower(text) != ref.util.lower(text):
            fail(f'lower({text!r})')


###############################################################################
# 2. `css_unescape`
###############################################################################

def check_unescape(rnd):
    """Compare `css_unescape` of both versions."""

    pieces = ['\\', '\\41', '\\41 ', '\\000041', '\\0000411', '\\0', '\\000000', '\\110000', '\\ffffff', '\\d800', '\\g',
              '\\\n', '\\\r\n', '\\\r', '\\\f', 'a', ' ', 'F', '/**/', '/* x */', '"', '\n', '\\\\', '\\10ffff', '\t', 'é']
    for _ in range(4000):
        text = ''.join(rnd.choice(pieces) for _ in range(rnd.randrange(0, 6)))
        for string in (False, True):
            res = []
            for mod in (ref, new):
                try:
                    res.append(('ok', mod.cp.css_unescape(text, string)))
                except Exception as e:  # noqa: BLE001
                    res.append(('error', type(e).__name__, str(e)))
            bump('unescape')
            if res[0] != res[1]:
                fail(f'css_unescape({text!r}, {string}) ref={res[0]!r} new={res[1]!r}')


###############################################################################
# 3. Sequential differential run
###############################################################################

def make_cases(rnd, count):
    """Generate the cases."""

    cases = []
    for i in range(count):
        custom = rnd.choices(CUSTOMS, CUSTOM_WEIGHTS)[0]
        gen = Gen(rnd, custom_names(custom))
        pattern = gen.pattern()
        flags = rnd.choice([0, 0, 0, 1, 1, 2, 3])
        cases.append((pattern, rnd.choice(NAMESPACES), custom, flags))
    # Every simple pseudo-class, alone and in every syntax, with and without debug
    for name in sorted(ref.cp.PSEUDO_SUPPORTED) + [':unknown', ':--a', ':ROOT', ':\\72oot', ':root\\ ', ':nth-child\\(']:
        for form in ('{0}', 'p{0}', '{0}(a)', '{0}()', '{0}( )', '{0}(2n+1)', '{0}(en)', '{0}(ltr)', '{0}("x")', '{0}(> a)',
                     '{0}(', '{0}(a', ':not({0})', ':is({0}, {0}(a))', 'a:has(+ {0})', '{0}{0}', '{0}(2n+1 of a, b)'):
            for flags in (0, 1):
                cases.append((form.format(name), None, {':--a': 'div'} if '--' in name else None, flags))
    # Every alias of every custom map, used first and used last
    for custom in CUSTOMS:
        if not custom:
            continue
        names = custom_names(custom)
        for name in names:
            for flags in (0, 1):
                cases.append((name, None, custom, flags))
                cases.append((f'{name}, {name}', None, custom, flags))
                cases.append((f'a:is({", ".join(names)}) > {name}', None, custom, flags))
                cases.append((f'{", ".join(reversed(names))}', None, custom, flags))
    for text in GARBAGE:
        for flags in (0, 1):
            cases.append((text, None, None, flags))
    # Empty slots, dangling combinators and closes (the reported position is the one of the last complete token)
    for text in EDGES:
        for form in ('{0}', ' {0} ', 'p{0}', '/**/{0}/**/', '{0}, b', 'b, {0}', ':not({0})', ':is({0})', ':has(> {0})', 'x:is( {0} ) y'):
            for flags in (0, 1):
                cases.append((form.format(text), None, None, flags))
    return cases


class TooSlow(Exception):
    """The time budget of a compile is exhausted."""


def _alarm(signum, frame):
    """Signal handler."""

    raise TooSlow()


def too_slow(pattern, namespaces, custom, budget=0.4):
    """
    Check if the reference needs more than the budget to parse the pattern.

    Some unterminated strings make the (unchanged) regular expressions backtrack for minutes, in both versions.
    The cache is bypassed, so that its statistics are not affected.
    """

    signal.signal(signal.SIGALRM, _alarm)
    signal.setitimer(signal.ITIMER_REAL, budget)
    try:
        with warnings.catch_warnings():
            warnings.simplefilter('ignore')
            ref.cp._cached_css_compile.__wrapped__(
                pattern,
                ref.ct.Namespaces(namespaces) if namespaces is not None else None,
                ref.ct.CustomSelectors(custom) if custom is not None else None,
                0
            )
    except TooSlow:
        return True
    except Exception:  # noqa: BLE001
        pass
    finally:
        signal.setitimer(signal.ITIMER_REAL, 0)
    return False


def check_sequential(cases):
    """Compile all the cases with both versions and compare, including the cache statistics."""

    ref.purge()
    new.purge()
    results = {}
    for i, (pattern, namespaces, custom, flags) in enumerate(cases):
        if too_slow(pattern, namespaces, custom):
            bump('skipped (catastrophic backtracking in the unchanged regular expressions)')
            continue
        try:
            res = compare(pattern, namespaces, custom, flags)
        except Exception as e:  # noqa: BLE001
            fail(f'harness error for {pattern!r}: {type(e).__name__}: {e}')
            continue
        results[i] = res
        if i % 997 == 0:
            a, b = ref.cp._cached_css_compile.cache_info(), new.cp._cached_css_compile.cache_info()
            if a != b:
                fail(f'cache statistics differ after {i} cases: {a} / {b}')
            if i % (997 * 3) == 0:
                ref.purge()
                new.purge()
                if new.cp._cached_css_compile.cache_info().currsize != 0:
                    fail('purge did not clear the cache')
    a, b = ref.cp._cached_css_compile.cache_info(), new.cp._cached_css_compile.cache_info()
    if a != b:
        fail(f'cache statistics differ at the end: {a} / {b}')
    # Eviction: the cache is bounded, the oldest entries are dropped, a purge empties it
    infos = []
    for mod in (ref, new):
        mod.purge()
        first = mod.compile('p.c0')
        for n in range(1, 650):
            mod.compile(f'p.c{n}')
        recent = mod.compile('p.c649')
        again = mod.compile('p.c0')
        infos.append((mod.cp._cached_css_compile.cache_info(), again is first, mod.compile('p.c649') is recent))
        mod.purge()
        infos[-1] += (mod.cp._cached_css_compile.cache_info(),)
    if infos[0] != infos[1] or infos[1][0].currsize != 500 or infos[1][1] or not infos[1][2] or infos[1][3].currsize:
        fail(f'cache eviction differs: {infos!r}')
    return results


###############################################################################
# 4. Equality and hash inside the new version
###############################################################################

def check_equality(cases, results, rnd):
    """Objects compiled twice (without the cache) by the new version are equal, and pickle."""

    indexes = [i for i, r in results.items() if r[0][0] == 'ok']
    for i in rnd.sample(indexes, min(400, len(indexes))):
        pattern, namespaces, custom, flags = cases[i]
        flags &= ~1
        with warnings.catch_warnings():
            warnings.simplefilter('ignore')
            new.purge()
            one = new.compile(pattern, namespaces, flags, custom=custom)
            new.purge()
            two = new.compile(pattern, namespaces, flags, custom=custom)
        if one is two or one != two or hash(one) != hash(two) or repr(one.selectors) != repr(two.selectors):
            fail(f'recompiled object differs for {pattern!r}')
        three = pickle.loads(pickle.dumps(one))
        if three != one or hash(three) != hash(one):
            fail(f'pickle round trip differs for {pattern!r}')
        bump('equality')


###############################################################################
# 5. Threads
###############################################################################

def check_threads(cases, results, rnd):
    """Several threads compile at the same time, with and without the cache; results must be the sequential ones."""

    indexes = [i for i in results if not cases[i][3] & 1]
    work = rnd.sample(indexes, min(1500, len(indexes)))
    expected = {i: results[i][0] for i in work}
    errors = []
    old_interval = sys.getswitchinterval()
    sys.setswitchinterval(1e-6)
    barrier = threading.Barrier(6)

    def run(seed, bypass_cache):
        local = random.Random(seed)
        order = list(work)
        local.shuffle(order)
        barrier.wait()
        for n, i in enumerate(order):
            pattern, namespaces, custom, flags = cases[i]
            try:
                if bypass_cache:
                    compiled = new.cp._cached_css_compile.__wrapped__(
                        pattern,
                        new.ct.Namespaces(namespaces) if namespaces is not None else None,
                        new.ct.CustomSelectors(custom) if custom is not None else None,
                        flags
                    )
                else:
                    compiled = new.compile(pattern, namespaces, flags, custom=custom)
                    if n % 50 == 0:
                        new.purge()
                got = ('ok', repr(compiled), repr(compiled.selectors), canon(compiled), hash(compiled))
            except Exception as e:  # noqa: BLE001
                got = ('error', type(e).__name__, str(e))
            want = expected[i]
            if got != want[:len(got)]:
                errors.append(f'thread result differs for {pattern!r} custom={custom!r}:\n   want {want!r}\n   got  {got!r}')

    # `warnings.catch_warnings` is not thread safe: ignore the warnings for the whole stage
    saved_filters = warnings.filters[:]
    warnings.simplefilter('ignore')
    try:
        for bypass in (True, False):
            threads = [threading.Thread(target=run, args=(SEED + k, bypass)) for k in range(6)]
            for t in threads:
                t.start()
            for t in threads:
                t.join()
            bump('thread compiles', 6 * len(work))
    finally:
        sys.setswitchinterval(old_interval)
        warnings.filters[:] = saved_filters
    for e in errors[:10]:
        fail(e)
    if len(errors) > 10:
        fail(f'... and {len(errors) - 10} more thread failures')


###############################################################################
# 6. Aborted compiles
###############################################################################

class Abort(Exception):
    """Injected failure."""


def check_aborted(cases, results, rnd):
    """
    Abort compiles in the middle and check that later compiles are not affected.

    The exception is raised when the n-th function of the parser is called or returns (never between statements).
    """

    parser_file = new.cp.__file__
    probes = [i for i in results if not cases[i][3] & 1]
    probes = rnd.sample(probes, min(60, len(probes)))
    victims = [i for i, r in results.items() if r[0][0] == 'ok' and cases[i][2] and len(cases[i][0]) > 8]
    victims = rnd.sample(victims, min(40, len(victims))) + rnd.sample(sorted(results), 40)

    # A token generator can be finalized while the tracer is armed: the injected exception is then ignored by Python
    sys.unraisablehook = lambda unraisable: bump('injected exceptions ignored by Python')

    for i in victims:
        pattern, namespaces, custom, flags = cases[i]
        for event_kind in ('call', 'return'):
            for nth in (1, 2, 3, 5, 8, 13, 21, 34, 55, 89):
                count = [0]

                def tracer(frame, event, arg):
                    if frame.f_code.co_filename != parser_file:
                        return None
                    if event == 'call' and event_kind == 'call':
                        count[0] += 1
                        if count[0] == nth:
                            raise Abort()
                    return local_tracer if event_kind == 'return' else None

                def local_tracer(frame, event, arg):
                    if event == 'return' and arg is not None and frame.f_code.co_name != '<genexpr>':
                        count[0] += 1
                        if count[0] == nth:
                            count[0] += 1
                            raise Abort()
                    return local_tracer

                new.purge()
                out = io.StringIO()
                aborted = False
                with warnings.catch_warnings():
                    warnings.simplefilter('ignore')
                    sys.settrace(tracer)
                    try:
                        with contextlib.redirect_stdout(out):
                            new.compile(pattern, namespaces, flags, custom=custom)
                    except Abort:
                        aborted = True
                    except Exception:  # noqa: BLE001
                        pass
                    finally:
                        sys.settrace(None)
                if not aborted:
                    continue
                bump('aborted compiles')
                # The aborted compile is not cached, and the same compile gives the expected result afterwards
                if new.cp._cached_css_compile.cache_info().currsize != 0:
                    fail('an aborted compile was cached')
                for j in [i] + rnd.sample(probes, 6):
                    p, n, c, f = cases[j]
                    got = outcome(new, p, n, c, f)
                    if got != results[j]:
                        fail(f'compile of {p!r} differs after an aborted compile of {pattern!r}')


def check_custom_restored():
    """An alias whose body fails to compile is put back in the (private) table of the compile."""

    for custom, pattern in (
        ({':--bad': 'div >', ':--good': 'p'}, ':--good:--bad'),
        ({':--x': ':--y', ':--y': ':--x'}, ':--x'),
        ({':--a': ':is(:--b)', ':--b': 'a::before'}, 'p :--a')
    ):
        res = []
        for mod in (ref, new):
            table = mod.cp.process_custom(mod.ct.CustomSelectors(custom))
            before = dict(table)
            try:
                mod.cp.CSSParser(pattern, custom=table).process_selectors()
                res.append('ok')
            except Exception as e:  # noqa: BLE001
                res.append((type(e).__name__, str(e)))
            if mod is new and {k: v for k, v in table.items() if isinstance(v, str)} != {
                k: v for k, v in before.items() if isinstance(table[k], str)
            } or (mod is new and set(table) != set(before)):
                fail(f'alias table not restored after a failed compile: {table!r}')
        if res[0] != res[1]:
            fail(f'custom failure differs: {res!r}')
        bump('custom restore')


###############################################################################
# Main
###############################################################################

def stage(name, func, *args):
    """Run a stage of the check and report its duration."""

    start = time.time()
    res = func(*args)
    print(f'stage {name!r}: {time.time() - start:.1f}s, {len(failures)} failures so far', flush=True)
    return res


def main():
    """Run all the checks."""

    rnd = random.Random(SEED)
    print('new:', new.__file__)
    print('ref:', ref.__file__)
    try:
        stage('tables', check_tables)
        stage('unescape', check_unescape, rnd)
        cases = make_cases(rnd, COUNT)
        print(f'{len(cases)} cases ({len({c[0] for c in cases})} distinct patterns), seed {SEED}', flush=True)
        results = stage('sequential', check_sequential, cases)
        stage('equality', check_equality, cases, results, rnd)
        stage('threads', check_threads, cases, results, rnd)
        stage('aborted', check_aborted, cases, results, rnd)
        sys.unraisablehook = sys.__unraisablehook__
        stage('custom restore', check_custom_restored)
    finally:
        shutil.rmtree(TMP, ignore_errors=True)
    width = max(len(k) for k in stats)
    for k in sorted(stats):
        print(f'  {k:<{width}} {stats[k]}')
    if failures:
        print(f'{len(failures)} FAILURES')
        return 1
    print('OK: no difference found')
    return 0


if __name__ == '__main__':
    sys.exit(main())
