"""
Stress test for the lazily compiled internal selector lists of `soupsieve.css_parser`.

Run as:  cd /tmp/wt_ok3 && PYTHONPATH=/tmp/wt_ok3 /venv/bin/python stress.py [rounds]

Everything that matters happens on the *first* use of a pseudo-class in a process, so every
scenario runs in a fresh subprocess:

  reference  one thread, one pseudo-class after the other -> expected results (JSON)
  threads    many threads released by a barrier, each using a different pseudo-class for the very
             first time at once (plus threads that purge() all the time), tiny switch interval;
             every result is compared with the reference
  faults     the first compile of a selector is aborted by KeyboardInterrupt / MemoryError raised
             at the k-th executed line of css_parser.py, for every k; afterwards nothing partial may
             be published and the same compile must give the reference result
  order      `import bs4; import soupsieve` and the reverse, with -W error, must print nothing
"""
from __future__ import annotations
import json
import os
import subprocess
import sys

HERE = os.path.dirname(os.path.abspath(__file__))

HTML = """
<html><head><title>t</title></head><body>
<a id="a1" href="http://x">x</a><a id="a2">y</a><map><area id="ar1" href="#"></map>
<form id="f1">
 <input id="i1" type="checkbox" checked><input id="i2" type="checkbox" indeterminate>
 <input id="i3" type="radio" name="r" checked><input id="i4" type="radio" name="r">
 <input id="i5" type="radio" name="q"><input id="i6" type="radio" name="q">
 <input id="i7" type="text" required placeholder="p"><input id="i8" type="text" readonly value="v">
 <input id="i9" type="number" min="0" max="10" value="5"><input id="i10" type="number" min="0" max="10" value="50">
 <input id="i11" type="hidden" disabled><input id="i12" type="text" disabled>
 <input id="i13" type="date" min="2000-01-01" value="1999-01-01"><input id="i14" type="range" max="3" value="1">
 <select id="s1" required><option id="o1" selected>1</option><option id="o2">2</option>
  <optgroup id="og1" disabled><option id="o3">3</option></optgroup></select>
 <textarea id="t1" placeholder="x"></textarea><textarea id="t2" readonly>zz</textarea>
 <fieldset id="fs1" disabled><legend><input id="i15" type="text"></legend><input id="i16" type="text">
  <button id="b0">b</button></fieldset>
 <button id="b1" type="submit">go</button><input id="i17" type="submit"><button id="b2">no</button>
 <progress id="p1"></progress><progress id="p2" value="1"></progress>
</form>
<div id="d1" contenteditable="true"><p id="p3">a</p><p id="p4">b</p><p id="p5">c</p></div>
<div id="d2" contenteditable="">e</div>
</body></html>
"""

SELECTORS = [
    ':checked', ':default', ':link', ':any-link', ':read-only', ':read-write', ':enabled', ':disabled',
    ':in-range', ':out-of-range', ':required', ':optional', ':placeholder-shown', ':indeterminate',
    'p:nth-child(2)', 'p:nth-last-child(2n+1)', 'input:not(:read-only)', ':is(:default, :enabled):not(:link)',
    'form :read-only:optional', ':root:has(:checked)', 'p:nth-child(2 of :read-only)', 'div:has(> :nth-child(3))'
]
BUILTINS = [
    'CSS_LINK', 'CSS_CHECKED', 'CSS_DEFAULT', 'CSS_INDETERMINATE', 'CSS_DISABLED', 'CSS_ENABLED', 'CSS_REQUIRED',
    'CSS_OPTIONAL', 'CSS_PLACEHOLDER_SHOWN', 'CSS_NTH_OF_S_DEFAULT', 'CSS_READ_WRITE', 'CSS_READ_ONLY',
    'CSS_IN_RANGE', 'CSS_OUT_OF_RANGE'
]


def sig(pat):
    """Full description of a compiled selector (its own repr does not show the parsed structure)."""

    return repr(pat) + ' :: ' + repr(pat.selectors)


def observe(sv, soup, selector, how):
    """Use `selector` through one of the API entry points and return something JSON comparable."""

    pat = sv.compile(selector)
    ids = [t.get('id') or t.name for t in soup.select(selector)] if how == 'bs4' else \
        [t.get('id') or t.name for t in sv.select(selector, soup)]
    tags = soup.find_all(True)
    return {
        'repr': sig(pat),
        'ids': ids,
        'match': [t.get('id') or t.name for t in tags if sv.match(selector, t)],
        'filter': [t.get('id') or t.name for t in sv.filter(selector, tags)],
        'closest': [getattr(sv.closest(selector, t), 'name', None) for t in tags[::7]]
    }


def check_state(sv, reference):
    """Everything published must be complete and equal to the reference; the cache must be sane."""

    import soupsieve.css_parser as cp
    problems = []
    for name, value in list(cp._builtin_selector_lists.items()):
        if repr(value) != reference['builtins'][name]:
            problems.append(f'published {name} differs from reference')
    for sel in SELECTORS:
        if sig(sv.compile(sel)) != reference['results'][sel]['repr']:
            problems.append(f'compile({sel!r}) differs after the run')
    sv.purge()
    for sel in SELECTORS:
        if sig(sv.compile(sel)) != reference['results'][sel]['repr']:
            problems.append(f'compile({sel!r}) differs after purge')
    return problems


# ----------------------------------------------------------------------------------------------
# child modes
# ----------------------------------------------------------------------------------------------
def child_reference():
    import bs4
    import soupsieve as sv
    import soupsieve.css_parser as cp
    assert os.path.dirname(os.path.dirname(os.path.abspath(sv.__file__))) == HERE, sv.__file__
    assert cp._builtin_selector_lists == {}, 'nothing may be compiled at import'
    soup = bs4.BeautifulSoup(HTML, 'html.parser')
    results = {sel: observe(sv, soup, sel, 'sv') for sel in SELECTORS}
    builtins = {name: repr(getattr(cp, name)) for name in BUILTINS}
    print(json.dumps({'results': results, 'builtins': builtins}))


def child_threads(seed):
    import random
    import threading
    import bs4
    import soupsieve as sv
    import soupsieve.css_parser as cp
    reference = json.load(sys.stdin)
    assert cp._builtin_selector_lists == {}
    rnd = random.Random(seed)
    sys.setswitchinterval(rnd.choice([1e-6, 1e-5, 1e-4]))
    order = SELECTORS * 2
    rnd.shuffle(order)
    npurge = rnd.randint(0, 2)
    barrier = threading.Barrier(len(order) + npurge)
    stop = threading.Event()
    problems = []

    def user(sel, how):
        # Every thread has its own document: bs4 trees are not meant to be shared between threads.
        soup = bs4.BeautifulSoup(HTML, 'html.parser')
        barrier.wait()
        try:
            for _ in range(2):
                got = observe(sv, soup, sel, how)
                if got != reference['results'][sel]:
                    problems.append(f'{sel!r} via {how}: {got} != {reference["results"][sel]}')
        except BaseException as e:  # noqa: BLE001
            problems.append(f'{sel!r} via {how}: raised {e!r}')

    def purger():
        barrier.wait()
        while not stop.is_set():
            sv.purge()

    users = [threading.Thread(target=user, args=(sel, rnd.choice(['sv', 'bs4']))) for sel in order]
    purgers = [threading.Thread(target=purger) for _ in range(npurge)]
    for t in users + purgers:
        t.start()
    for t in users:
        t.join(120)
        if t.is_alive():
            problems.append('a thread hangs')
    stop.set()
    for t in purgers:
        t.join(120)
    problems.extend(check_state(sv, reference))
    print(json.dumps(problems))


def child_faults(selector, excname):
    """Abort the first compile of `selector` at every line of css_parser.py, one process, many resets."""

    import soupsieve as sv
    import soupsieve.css_parser as cp
    reference = json.load(sys.stdin)
    exc = {'KeyboardInterrupt': KeyboardInterrupt, 'MemoryError': MemoryError}[excname]
    target = cp.__file__
    problems = []
    k = 0
    aborted = 0
    while True:
        # Back to the state of a process that has not used anything yet.
        cp._builtin_selector_lists.clear()
        sv.purge()
        k += 1
        count = [0]

        def tracer(frame, event, arg):
            if frame.f_code.co_filename != target:
                return None
            if event == 'line':
                count[0] += 1
                if count[0] == k:
                    raise exc('injected')
            return tracer

        sys.settrace(tracer)
        try:
            pat = sv.compile(selector)
        except exc:
            pat = None
        finally:
            sys.settrace(None)
        if pat is not None:
            # Ran to completion without reaching line event k: all injection points are covered.
            if sig(pat) != reference['results'][selector]['repr']:
                problems.append('untouched run differs')
            break
        aborted += 1
        for name, value in list(cp._builtin_selector_lists.items()):
            if repr(value) != reference['builtins'][name]:
                problems.append(f'k={k}: published {name} is not a complete value')
        if cp._cached_css_compile.cache_info().currsize:
            problems.append(f'k={k}: aborted compile left something in the pattern cache')
        for sel in (selector, ':default', ':enabled'):
            if sig(sv.compile(sel)) != reference['results'][sel]['repr']:
                problems.append(f'k={k}: compile({sel!r}) after abort differs from a fresh parse')
        if len(problems) > 20:
            break
    print(json.dumps({'aborted': aborted, 'problems': problems}))


# ----------------------------------------------------------------------------------------------
# parent
# ----------------------------------------------------------------------------------------------
def run_child(args, stdin=None, extra=()):
    env = dict(os.environ, PYTHONPATH=HERE)
    p = subprocess.run(
        [sys.executable, *extra, os.path.abspath(__file__), *args],
        input=stdin, capture_output=True, text=True, env=env, cwd=HERE, timeout=600
    )
    if p.returncode or p.stderr:
        raise SystemExit(f'child {args} failed rc={p.returncode}\n{p.stdout}\n{p.stderr}')
    return p.stdout


def main():
    rounds = int(sys.argv[1]) if len(sys.argv) > 1 else 40
    failed = False

    ref_text = run_child(['reference'])
    if run_child(['reference']) != ref_text:
        raise SystemExit('reference run is not deterministic')
    print(f'reference: {len(SELECTORS)} selectors, {len(BUILTINS)} internal lists')

    for seed in range(rounds):
        problems = json.loads(run_child(['threads', str(seed)], ref_text))
        if problems:
            failed = True
            print(f'threads seed={seed}: {len(problems)} problem(s)')
            for p in problems[:5]:
                print('   ', p[:300])
    print(f'threads: {rounds} fresh processes x {2 * len(SELECTORS)} first-use threads done')

    for selector in (':read-only', ':default', 'p:nth-child(2)', ':is(:default, :enabled):not(:link)'):
        for excname in ('KeyboardInterrupt', 'MemoryError'):
            if excname == 'MemoryError' and selector.startswith(':is('):
                continue  # same injection points as above, only the exception type differs; saves minutes
            out = json.loads(run_child(['faults', selector, excname], ref_text))
            print(f'faults: {selector!r} {excname}: aborted at {out["aborted"]} different lines, '
                  f'{len(out["problems"])} problem(s)')
            if out['problems'] or not out['aborted']:
                failed = True
                for p in out['problems'][:5]:
                    print('   ', p[:300])

    for code in ('import bs4; import soupsieve', 'import soupsieve; import bs4',
                 'import soupsieve.css_parser as cp; import bs4; assert not cp._builtin_selector_lists'):
        p = subprocess.run([sys.executable, '-W', 'error', '-c', code], capture_output=True, text=True,
                           env=dict(os.environ, PYTHONPATH=HERE), cwd=HERE)
        if p.returncode or p.stdout or p.stderr:
            failed = True
            print(f'order: {code!r} was not silent: rc={p.returncode} {p.stdout!r} {p.stderr!r}')
    print('order: both import orders are silent')

    print('FAILED' if failed else 'OK')
    return 1 if failed else 0


if __name__ == '__main__':
    if len(sys.argv) > 1 and sys.argv[1] == 'reference':
        child_reference()
    elif len(sys.argv) > 1 and sys.argv[1] == 'threads':
        child_threads(int(sys.argv[2]))
    elif len(sys.argv) > 1 and sys.argv[1] == 'faults':
        child_faults(sys.argv[2], sys.argv[3])
    else:
        sys.exit(main())
