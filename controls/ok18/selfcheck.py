"""
Differential self-check for the selector-constant caches in soupsieve/css_match.py.

Usage:  /venv/bin/python selfcheck.py

1. Extracts the unmodified sources (`git archive HEAD soupsieve`) into a temporary directory.
2. Runs the same workload in two fresh interpreters (baseline / worktree) and compares a full transcript
   (results of select / match / filter / closest, element-by-element answers, exception types and messages,
   serialisation of the document before and after, pickle/copy/eq/hash of compiled selectors, import output).
3. In-process unit checks of the two cached helpers against the expressions they replace, plus a thread hammer,
   a bound check and an exception-in-flight check.
"""
from __future__ import annotations
import json
import os
import random
import subprocess
import sys
import tarfile
import tempfile
import io
import threading

HERE = os.path.dirname(os.path.abspath(__file__))

WORKLOAD = r'''
import sys, json, io, contextlib, warnings, copy, pickle, random, threading
buf_out, buf_err = io.StringIO(), io.StringIO()
with contextlib.redirect_stdout(buf_out), contextlib.redirect_stderr(buf_err), warnings.catch_warnings(record=True) as w:
    warnings.simplefilter('always')
    import soupsieve as sv
    import_noise = [buf_out.getvalue(), buf_err.getvalue(), [str(x.message) for x in w]]
import bs4
from bs4 import BeautifulSoup
from soupsieve import css_match as cm, css_types as ct

out = {'file': None, 'import_noise': import_noise, 'runs': []}

HTML = """
<html lang="en-US"><head><meta http-equiv="content-language" content="fr-CA"><title>t</title></head>
<body>
<DIV id="a" CLASS="x y" Data-Foo="Bar" lang="de-Latn-DE-1996"><P Title="T">one</P><p lang="">two</p></DIV>
<div id="b" lang="zh-Hant-TW"><span LANG="en-gb-oed" dAtA-fOO="bar">s</span><svg:rect xlink:href="#a"/></div>
<div id="c" lang="*-x"><input type="RADIO" name="r"><INPUT TYPE="checkbox" checked></div>
<iframe><html lang="es"><body><p id="in">x</p></body></html></iframe>
<p id="d" lang="de-DE-x-a">d</p><p id="e" lang="DE-de">e</p><p id="f" lang="de-a-DE">f</p>
</body></html>
"""
NOLANG = """<html><head><meta http-equiv="Content-Language" content="en-US"></head>
<body><p id="1">a</p><div><p id="2" Title="x">b</p></div></body></html>"""
XML = """<?xml version="1.0" encoding="UTF-8"?>
<root xmlns:x="http://example.com/x" xmlns:xml2="http://www.w3.org/XML/1998/namespace" xml:lang="en-US">
<Item ID="1" x:Attr="A" xml:lang="de-CH"><x:Sub attr="a">t</x:Sub></Item>
<item id="2" x:attr="a" xml:lang="fr"><x:sub Attr="A">u</x:sub></item>
<ITEM lang="en"/>
</root>
"""
XHTML = """<?xml version="1.0" encoding="UTF-8"?>
<!DOCTYPE html PUBLIC "-//W3C//DTD XHTML 1.1//EN" "http://www.w3.org/TR/xhtml11/DTD/xhtml11.dtd">
<html xmlns="http://www.w3.org/1999/xhtml" xmlns:xlink="http://www.w3.org/1999/xlink" lang="en" xml:lang="en">
<head><meta http-equiv="content-language" content="en-GB"/></head>
<body><div id="q" xml:lang="de-AT" Title="Z"><p xlink:href="u" TITLE="z">p</p></div><P lang="fr-FR">q</P></body></html>
"""
DOCS = [
    ('html.parser', HTML), ('lxml', HTML), ('html5lib', HTML),
    ('html.parser', NOLANG), ('html5lib', NOLANG),
    ('xml', XML), ('lxml-xml', XHTML), ('html5lib', XHTML),
]
NS = {'x': 'http://example.com/x', 'xlink': 'http://www.w3.org/1999/xlink', 'svg': 'http://www.w3.org/2000/svg',
      'xml': 'http://www.w3.org/XML/1998/namespace', '': 'http://www.w3.org/1999/xhtml'}
NS2 = {'x': 'http://example.com/x', 'X': 'http://example.com/other'}
SELECTORS = [
    'div', 'DIV', 'Div', 'p', 'P', 'item', 'Item', 'ITEM', '*', 'x|sub', 'x|Sub', 'X|sub', '*|Sub', '|item', 'svg|rect',
    '[data-foo]', '[DATA-FOO]', '[Data-Foo=Bar]', '[data-foo=bar i]', '[data-foo="bar" s]', '[title]', '[TITLE]',
    '[Title="z" i]', '[x|attr]', '[x|Attr]', '[X|attr]', '[*|attr]', '[*|ATTR]', '[xlink|href]', '[xlink\\:href]',
    '[xml\\:lang]', '[xml|lang]', '[lang]', '[LANG]', '[id]', '[ID="1"]', '[type=radio]', '[type="radio" i]', '[TYPE]',
    ':lang(en)', ':lang(EN)', ':lang(en-US)', ':lang("*-US")', ':lang(de-DE)', ':lang(de-*-DE)', ':lang("*")',
    ':lang("")', ':lang(de, fr)', ':lang(de):lang("*-DE")', ':lang("de-*-*-1996")', ':lang("*-*")', ':lang("de-*")',
    ':lang(zh-TW)', ':lang("zh-*-TW")', ':lang(en-oed)', ':lang("*-x")', ':lang(de-x)', ':lang(fr-CA)', ':lang(fr)',
    ':lang(en-GB)', ':lang(es)', 'p:lang(de-a)', ':lang("de-*-a")', ':lang(\\*-de)', ':not(:lang(en))',
    'div:has(> p[title]):lang(de)', 'DIV > P', 'div p:is([TITLE], :lang(de))', ':root', 'p:not([title])',
    'iframe p', 'html:lang(es)', 'span[data-foo]:lang("en-*-oed")', ':indeterminate', ':checked', ':default',
]

def ident(doc):
    table = {}
    for i, el in enumerate(doc.find_all(True)):
        table[id(el)] = i
    table[id(doc)] = -1
    return table

def run(call):
    try:
        return ['ok', call()]
    except BaseException as e:
        return ['exc', type(e).__name__, str(e)]

for parser, markup in DOCS:
    for ns in (None, NS, NS2):
        soup = BeautifulSoup(markup, parser)
        before = soup.decode()
        table = ident(soup)
        els = soup.find_all(True)
        rec = {'parser': parser, 'ns': sorted(ns) if ns else None, 'res': []}
        order = list(SELECTORS)
        random.Random(len(markup) + len(parser)).shuffle(order)
        for sel in order:
            r = run(lambda: [table[id(e)] for e in sv.select(sel, soup, namespaces=ns)])
            m = run(lambda: [i for i, e in enumerate(els) if sv.match(sel, e, namespaces=ns)])
            f = run(lambda: [table[id(e)] for e in sv.filter(sel, els, namespaces=ns)])
            c = run(lambda: [table.get(id(sv.closest(sel, e, namespaces=ns)), None) for e in els[-4:]])
            b = run(lambda: [table[id(e)] for e in soup.select(sel, namespaces=ns)])
            rec['res'].append([sel, r, m, f, c, b])
        rec['unchanged'] = soup.decode() == before
        rec['same_nodes'] = ident(soup) == table
        out['runs'].append(rec)

# Compiled selector protocol.
prot = []
for sel in SELECTORS:
    def one():
        a = sv.compile(sel, NS)
        sv.purge()
        b = sv.compile(sel, NS)
        return [a == b, hash(a) == hash(b), pickle.loads(pickle.dumps(a)) == a, copy.copy(a) == a,
                copy.deepcopy(a) == a, sv.compile(a) is a, repr(a) == repr(b)]
    prot.append([sel, run(one)])
out['protocol'] = prot

# Direct calls to the refactored methods, with odd inputs.
soup = BeautifulSoup(HTML, 'html.parser')
xsoup = BeautifulSoup(XML, 'xml')
direct = []
class S(str):
    pass
for doc in (soup, xsoup):
    m = cm.CSSMatch(sv.compile('p').selectors, doc, {}, 0)
    for rng in ['de', 'DE-*-de', '*', '', '*-*', 'de-*', 'a-*-*-b-*', S('De-*'), None, 5, b'de']:
        for tag in ['de-DE', 'DE-latn-de', '', 'x', 'de-a-DE', S('de-de'), None, ['de'], b'de',
                    bs4.element.NavigableString('de-Latn-DE')]:
            direct.append([repr(rng), repr(tag), run(lambda: m.extended_language_filter(rng, tag))])
    el = doc.find(True)
    for t in doc.find_all(True)[:8]:
        for attr in ['id', 'ID', 'Data-Foo', 'x:Attr', 'attr', S('Id'), None, 5, bs4.element.NamespacedAttribute('x', 'Attr')]:
            for prefix in [None, '', 'x', '*', 'nope']:
                direct.append([repr(attr), repr(prefix), run(lambda: m.match_attribute_name(t, attr, prefix))])
        for name in ['p', 'P', 'Item', '*', None, S('DIV'), 5]:
            for prefix in [None, '', 'x', '*']:
                direct.append([repr(name), repr(prefix), run(lambda: m.match_tag(t, ct.SelectorTag(name, prefix)))])
out['direct'] = direct

# Threads: many patterns, shared and private documents.
errors = []
expected = {}
soups = [BeautifulSoup(HTML, 'html.parser'), BeautifulSoup(XML, 'xml'), BeautifulSoup(XHTML, 'lxml-xml')]
for di, d in enumerate(soups):
    t = ident(d)
    for sel in SELECTORS:
        expected[(di, sel)] = run(lambda: [t[id(e)] for e in sv.select(sel, d, namespaces=NS)])
sv.purge()
def worker(seed):
    rnd = random.Random(seed)
    for _ in range(400):
        di = rnd.randrange(len(soups))
        sel = rnd.choice(SELECTORS)
        d = soups[di]
        t = ident(d)
        got = run(lambda: [t[id(e)] for e in sv.select(sel, d, namespaces=NS)])
        if got != expected[(di, sel)]:
            errors.append([di, sel, got, expected[(di, sel)]])
ths = [threading.Thread(target=worker, args=(i,)) for i in range(8)]
for th in ths: th.start()
for th in ths: th.join()
out['thread_errors'] = errors
print(json.dumps(out, sort_keys=True))
'''


def extract_baseline(dest: str) -> None:
    data = subprocess.run(
        ['git', 'archive', 'HEAD', 'soupsieve'], cwd=HERE, check=True, stdout=subprocess.PIPE
    ).stdout
    with tarfile.open(fileobj=io.BytesIO(data)) as tf:
        tf.extractall(dest)


def run_workload(path: str) -> dict:
    env = dict(os.environ, PYTHONPATH=path, PYTHONHASHSEED='0')
    p = subprocess.run(
        [sys.executable, '-c', WORKLOAD + "\n"], env=env, cwd='/', stdout=subprocess.PIPE, stderr=subprocess.PIPE
    )
    if p.returncode != 0:
        raise SystemExit(f"workload failed under {path}:\n{p.stderr.decode()}")
    return json.loads(p.stdout.decode())


def differential() -> None:
    with tempfile.TemporaryDirectory() as base:
        extract_baseline(base)
        a = run_workload(base)
        b = run_workload(HERE)
    assert a['import_noise'] == b['import_noise'] == ['', '', []], (a['import_noise'], b['import_noise'])
    assert not a['thread_errors'] and not b['thread_errors'], (a['thread_errors'][:3], b['thread_errors'][:3])
    for key in ('runs', 'protocol', 'direct'):
        if a[key] != b[key]:
            for x, y in zip(a[key], b[key]):
                if x != y:
                    raise SystemExit(f'DIFFERENCE in {key}:\n base: {x}\n mine: {y}')
            raise SystemExit(f'DIFFERENCE in {key} (length)')
    n = sum(len(r['res']) for r in a['runs'])
    assert all(r['unchanged'] and r['same_nodes'] for r in b['runs'])
    print(f"differential: identical ({n} selector/document/namespace cases x 5 entry points, "
          f"{len(a['direct'])} direct calls, {len(a['protocol'])} protocol checks, threads ok)")


def unit() -> None:
    sys.path.insert(0, HERE)
    from soupsieve import css_match as cm, util

    assert cm.__file__.startswith(HERE), cm.__file__
    rnd = random.Random(12345)
    alphabet = (
        [chr(c) for c in range(0, 0x250)] + ['İ', 'K', 'ſ', '\ud800', '\udfff', '\U0001F600', 'ß', 'İ', 'K']
    )
    for _ in range(20000):
        s = ''.join(rnd.choice(alphabet) for _ in range(rnd.randrange(0, 12)))
        got = cm._fold_selector_name(s)
        assert got == util.lower.__wrapped__(s) and type(got) is str, (s, got)
    pieces = ['*', 'de', 'DE', 'Latn', '', 'x', 'a', '1996', '**', 'İ', 'ß']
    for _ in range(20000):
        s = '-'.join(rnd.choice(pieces) for _ in range(rnd.randrange(1, 7)))
        got = cm._split_lang_range(s)
        assert list(got) == cm.RE_WILD_STRIP.sub('-', s).lower().split('-') and type(got) is tuple, (s, got)

    # Bounded.
    for f in (cm._fold_selector_name, cm._split_lang_range):
        info = f.cache_info()
        assert info.maxsize is not None and info.currsize <= info.maxsize, info

    # An exception in flight leaves nothing behind and the next call is correct.
    cm._split_lang_range.cache_clear()
    real = cm.RE_WILD_STRIP

    class Boom:
        def sub(self, *a):
            raise KeyboardInterrupt

    cm.RE_WILD_STRIP = Boom()
    try:
        try:
            cm._split_lang_range('de-*-DE')
        except KeyboardInterrupt:
            pass
        else:
            raise AssertionError('expected KeyboardInterrupt')
    finally:
        cm.RE_WILD_STRIP = real
    assert cm._split_lang_range.cache_info().currsize == 0
    assert cm._split_lang_range('de-*-DE') == ('de', 'de')

    # Thread hammer on the helpers themselves (more keys than the bound, so eviction runs concurrently).
    keys = [f'K{i}-*-Zz{i % 7}' for i in range(2000)]
    want_f = {k: util.lower.__wrapped__(k) for k in keys}
    want_s = {k: tuple(real.sub('-', k).lower().split('-')) for k in keys}
    bad = []

    def worker(seed: int) -> None:
        r = random.Random(seed)
        for _ in range(20000):
            k = r.choice(keys)
            if cm._fold_selector_name(k) != want_f[k] or cm._split_lang_range(k) != want_s[k]:
                bad.append(k)

    ths = [threading.Thread(target=worker, args=(i,)) for i in range(8)]
    for t in ths:
        t.start()
    for t in ths:
        t.join()
    assert not bad, bad[:5]
    for f in (cm._fold_selector_name, cm._split_lang_range):
        info = f.cache_info()
        assert info.currsize <= info.maxsize, info
    print('unit: helpers equal the expressions they replace; bounded; clean after exception; thread hammer ok')


if __name__ == '__main__':
    differential()
    unit()
    print('SELFCHECK OK')
