"""
Differential self-check: the worktree's `soupsieve` against `git archive HEAD soupsieve`.

Both copies are loaded side by side in this process (the base one under the name `soupsieve_base`),
the same scenario is played against each on its own freshly parsed copy of the document, and the
traces (results as document positions, exception types and messages, attribute-comparison call logs,
document serialisations) must be identical.

Run: cd /tmp/wt_ok17 && PYTHONPATH=/tmp/wt_ok17 /venv/bin/python selfcheck.py [seeds]
"""
from __future__ import annotations
import importlib.util
import io
import os
import random
import subprocess
import sys
import tarfile
import tempfile
import threading
import time

HERE = os.path.dirname(os.path.abspath(__file__))
sys.path.insert(0, HERE)

import bs4  # noqa: E402
import soupsieve as new  # noqa: E402

assert os.path.dirname(os.path.abspath(new.__file__)) == os.path.join(HERE, 'soupsieve'), new.__file__


def load_base():
    """Extract HEAD's package and import it as `soupsieve_base`."""

    tmp = tempfile.mkdtemp(prefix='ss_base_')
    data = subprocess.check_output(['git', 'archive', 'HEAD', 'soupsieve'], cwd=HERE)
    with tarfile.open(fileobj=io.BytesIO(data)) as tf:
        tf.extractall(tmp, filter='data')
    pkg = os.path.join(tmp, 'soupsieve')
    spec = importlib.util.spec_from_file_location(
        'soupsieve_base', os.path.join(pkg, '__init__.py'), submodule_search_locations=[pkg]
    )
    mod = importlib.util.module_from_spec(spec)
    sys.modules['soupsieve_base'] = mod
    spec.loader.exec_module(mod)
    return mod


base = load_base()
assert base.__file__ != new.__file__

LOG = []


class EvilStr(str):
    """A string whose comparisons are observable, and can be made to fail."""

    boom = False

    def __eq__(self, other):
        LOG.append(('eq', str.__str__(self), repr(other)))
        if self.boom:
            raise RuntimeError(f'boom {str.__str__(self)}')
        return str.__eq__(self, other)

    def __ne__(self, other):
        LOG.append(('ne', str.__str__(self), repr(other)))
        return str.__ne__(self, other)

    __hash__ = str.__hash__


class AlwaysEqual(str):
    """Equal to anything."""

    def __eq__(self, other):
        LOG.append(('aeq', str.__str__(self), repr(other)))
        return True

    __hash__ = str.__hash__


class BoomStr(EvilStr):
    """Comparison raises."""

    boom = True


SELECTORS = [
    ':default', ':indeterminate', ':checked', ':dir(ltr)', ':dir(rtl)',
    ':lang(en)', ':lang("*-US")', ':lang(de, fr)', ':lang("")',
    'input:indeterminate', 'form :default', ':not(:indeterminate)', ':not(:default)',
    'form:has(:indeterminate)', 'form:has(:default)', ':is(:default, :indeterminate)',
    'input:indeterminate:dir(ltr)', ':default:lang(en)', 'input:not(:checked):indeterminate',
    'iframe :default', 'iframe :indeterminate', ':root:lang(en)', 'p:lang(fr):dir(rtl)',
    'input:default ~ input:indeterminate', ':indeterminate + :indeterminate', 'option:default',
    'input[type=radio]:indeterminate, button:default', 'progress:indeterminate', 'input[type=checkbox]:indeterminate',
]

NAMES = ['a', 'A', 'b', 'grp', 'Grp', 'GRP', 'x y', '', 'é', 'É']
TYPES = ['radio', 'RADIO', 'Radio', 'checkbox', 'submit', 'SUBMIT', 'text', 'tel', 'search', 'image', '']
TEXTS = ['', 'hello', 'שלום', 'مرحبا', '123', ' \n ', '123 abc', '١٢٣ שלום']
LANGS = ['en', 'en-US', 'fr', 'de-DE', '', 'EN-us', 'zh-Hant']
DIRS = ['ltr', 'rtl', 'auto', 'AUTO', 'bogus', '']


def rnd_input(r):
    kind = r.random()
    attrs = []
    if kind < 0.55:
        t = r.choice(['radio', 'radio', 'radio', 'RADIO', 'checkbox'])
    else:
        t = r.choice(TYPES)
    tattr = r.choice(['type', 'type', 'TYPE', 'Type'])
    nattr = r.choice(['name', 'name', 'NAME'])
    attrs.append(f'{tattr}="{t}"')
    if r.random() < 0.9:
        attrs.append(f'{nattr}="{r.choice(NAMES)}"')
    if r.random() < 0.15:
        attrs.append(r.choice(['checked', 'CHECKED', 'checked=""']))
    if r.random() < 0.2:
        attrs.append(f'dir="{r.choice(DIRS)}"')
    if r.random() < 0.3:
        attrs.append(f'value="{r.choice(TEXTS)}"')
    if r.random() < 0.1:
        attrs.append('indeterminate')
    r.shuffle(attrs)
    return f'<input {" ".join(attrs)}/>'


def rnd_block(r, depth=0, xml=False):
    out = []
    for _ in range(r.randint(1, 5)):
        c = r.random()
        if c < 0.35:
            out.append(rnd_input(r))
        elif c < 0.45:
            t = r.choice(['submit', 'Submit', 'button', 'reset'])
            out.append(f'<button type="{t}">{r.choice(TEXTS)}</button>')
        elif c < 0.55 and depth < 3:
            fa = ''
            if r.random() < 0.3:
                fa += f' lang="{r.choice(LANGS)}"'
            if r.random() < 0.3:
                fa += f' dir="{r.choice(DIRS)}"'
            out.append(f'<form{fa}>{rnd_block(r, depth + 1, xml)}</form>')
        elif c < 0.7 and depth < 4:
            tag = r.choice(['div', 'p', 'span', 'bdi', 'fieldset', 'section'])
            a = ''
            if r.random() < 0.3:
                a += f' lang="{r.choice(LANGS)}"'
            if r.random() < 0.4:
                a += f' dir="{r.choice(DIRS)}"'
            out.append(f'<{tag}{a}>{r.choice(TEXTS)}{rnd_block(r, depth + 1, xml)}</{tag}>')
        elif c < 0.76 and depth < 3 and not xml:
            meta = ''
            if r.random() < 0.5:
                meta = f'<meta http-equiv="content-language" content="{r.choice(LANGS)}">'
            out.append(
                f'<iframe><html><head>{meta}</head><body>{rnd_block(r, depth + 1, xml)}</body></html></iframe>'
            )
        elif c < 0.82:
            out.append(f'<textarea dir="{r.choice(DIRS)}">{r.choice(TEXTS)}</textarea>')
        elif c < 0.88:
            out.append('<select><option selected>1</option><option>2</option></select>')
        elif c < 0.92:
            out.append(r.choice(['<progress></progress>', '<progress value="1"></progress>']))
        else:
            out.append(r.choice(TEXTS))
    return ''.join(out)


def rnd_doc(r):
    """Return (markup, parser)."""

    kind = r.random()
    meta = ''
    if r.random() < 0.6:
        he = r.choice(['content-language', 'Content-Language'])
        meta = f'<meta http-equiv="{he}" content="{r.choice(LANGS)}"/>'
    if r.random() < 0.2:
        meta += '<meta http-equiv="content-language" content=""/>'
    hattr = ''
    if r.random() < 0.3:
        hattr = f' lang="{r.choice(LANGS)}"'
    if r.random() < 0.2:
        hattr += f' dir="{r.choice(DIRS)}"'
    if kind < 0.55:
        body = rnd_block(r)
        return f'<html{hattr}><head>{meta}</head><body>{body}</body></html>', r.choice(
            ['html.parser', 'html.parser', 'lxml', 'html5lib']
        )
    if kind < 0.8:
        body = rnd_block(r, xml=True)
        return (
            '<?xml version="1.0" encoding="UTF-8"?>'
            f'<html xmlns="http://www.w3.org/1999/xhtml"{hattr}><head>{meta}</head><body>{body}</body></html>',
            'xml'
        )
    if kind < 0.9:
        body = rnd_block(r, xml=True)
        return f'<?xml version="1.0" encoding="UTF-8"?><root xml:lang="{r.choice(LANGS)}">{body}</root>', 'xml'
    # A fragment without html/head
    return rnd_block(r), 'html.parser'


def tags_of(soup):
    return [t for t in soup.descendants if isinstance(t, bs4.Tag)]


def pos_map(soup):
    return {id(t): i for i, t in enumerate(tags_of(soup))}


def spoil(r, soup):
    """Give some attributes odd values (the same ones for the same seed)."""

    for t in tags_of(soup):
        if t.name != 'input':
            continue
        c = r.random()
        key = 'name'
        if c < 0.06:
            t[key] = [r.choice(NAMES), r.choice(NAMES)]
        elif c < 0.12:
            t[key] = EvilStr(r.choice(NAMES))
        elif c < 0.15:
            t[key] = AlwaysEqual(r.choice(NAMES))
        elif c < 0.17:
            t[key] = BoomStr(r.choice(NAMES))
        elif c < 0.19:
            t[key] = r.choice([7, 7.5, None, b'a', ('a', 'b')])
        elif c < 0.21:
            t['type'] = ['radio']
        elif c < 0.23:
            t['type'] = EvilStr('radio')
        elif c < 0.25:
            t['dir'] = ['auto']
        elif c < 0.27:
            t['checked'] = BoomStr('x')


def edit(r, soup, step):
    """A deterministic tree edit, made while a generator is suspended."""

    tags = tags_of(soup)
    if not tags:
        return
    c = r.random()
    t = r.choice(tags)
    if c < 0.2:
        for i in tags:
            if i.name == 'input':
                i['checked'] = ''
                break
    elif c < 0.35:
        for i in tags:
            if i.name == 'input' and i.has_attr('checked'):
                del i['checked']
                break
    elif c < 0.5:
        for f in tags:
            if f.name == 'form':
                b = soup.new_tag('input')
                b['type'] = 'submit'
                f.insert(0, b)
                break
    elif c < 0.6:
        for f in tags:
            if f.name in ('button', 'input') and str(f.get('type', '')).lower() == 'submit':
                f.extract()
                break
    elif c < 0.7:
        for m in tags:
            if m.name == 'meta':
                m['content'] = r.choice(LANGS)
                break
    elif c < 0.8:
        for m in tags:
            if m.name == 'meta':
                m.extract()
                break
    elif c < 0.9:
        t['lang'] = r.choice(LANGS)
    else:
        t['name'] = r.choice(NAMES)


def call(fn):
    try:
        return ('ok', fn())
    except RecursionError:
        raise
    except BaseException as e:  # noqa: BLE001
        return ('exc', type(e).__name__, str(e))


def play(mod, seed):
    """Play the scenario of `seed` against implementation `mod`; return a trace."""

    del LOG[:]
    r = random.Random(seed)
    markup, parser = rnd_doc(r)
    soup = bs4.BeautifulSoup(markup, parser)
    if r.random() < 0.5:
        spoil(r, soup)
    pm = pos_map(soup)
    before = soup.decode()
    trace = [('doc', parser, len(pm))]
    mod.purge()

    def P(res):
        if isinstance(res, list):
            return [pm.get(id(x), '?') for x in res]
        if isinstance(res, bs4.Tag):
            return pm.get(id(res), '?')
        return res

    sels = r.sample(SELECTORS, 8)
    for sel in sels:
        comp = mod.compile(sel)
        tags = tags_of(soup)
        trace.append((sel, 'select', call(lambda: P(mod.select(sel, soup)))))
        trace.append((sel, 'select_one', call(lambda: P(comp.select_one(soup)))))
        trace.append((sel, 'limit2', call(lambda: P(comp.select(soup, limit=2)))))
        order = list(tags)
        r.shuffle(order)
        trace.append((sel, 'match', [call(lambda t=t: comp.match(t)) for t in order]))
        trace.append((sel, 'filter-tag', [call(lambda t=t: P(comp.filter(t))) for t in order[:6]]))
        trace.append((sel, 'filter-list', call(lambda: P(comp.filter(order)))))
        trace.append((sel, 'closest', [call(lambda t=t: P(comp.closest(t))) for t in order[:10]]))
        for t in order[:4]:
            trace.append((sel, 'subselect', call(lambda t=t: P(comp.select(t)))))
        # The bs4 front door
        trace.append((sel, 'bs4', call(lambda: P(list(soup.select(sel))) if mod is new else P(comp.select(soup)))))
    trace.append(('log', list(LOG)))
    trace.append(('unchanged', soup.decode() == before, [id(t) in pm for t in tags_of(soup)].count(False)))

    # Lazily consumed generators, suspended while the tree is edited; one is abandoned.
    for sel in sels[:4]:
        del LOG[:]
        comp = mod.compile(sel)
        gen = comp.iselect(soup)
        other = mod.iselect(sels[-1], soup)
        got = []
        step = 0
        while True:
            try:
                x = next(gen)
            except StopIteration:
                break
            except BaseException as e:  # noqa: BLE001
                got.append(('exc', type(e).__name__, str(e)))
                break
            got.append(pm.get(id(x), 'new'))
            step += 1
            if step <= 3:
                edit(r, soup, step)
                # Somebody else asks in the meantime: must see the tree as it is now
                got.append(('fresh', call(lambda: [pm.get(id(y), 'new') for y in comp.select(soup)])))
                got.append(('other', call(lambda: pm.get(id(next(other, None)), 'new'))))
        del other
        trace.append((sel, 'iselect+edits', got, list(LOG)))
        trace.append((sel, 'after', call(lambda: [pm.get(id(y), 'new') for y in comp.select(soup)])))
        trace.append(('ser', soup.decode()))
    return trace


def check_seeds(n):
    bad = 0
    for seed in range(n):
        a = play(base, seed)
        b = play(new, seed)
        if a != b:
            bad += 1
            print('MISMATCH seed', seed)
            for x, y in zip(a, b):
                if x != y:
                    print('  base:', repr(x)[:600])
                    print('  new :', repr(y)[:600])
                    break
    return bad


def check_odd_names(n):
    """One form, radio buttons whose `name` values are of every odd kind, in random order."""

    def make(r):
        kinds = [
            lambda: 'a', lambda: 'b', lambda: 'A', lambda: EvilStr('a'), lambda: EvilStr('b'),
            lambda: AlwaysEqual('z'), lambda: ['a', 'b'], lambda: ['a', EvilStr('b')], lambda: BoomStr('a'),
            lambda: 7, lambda: None, lambda: b'a', lambda: ('a', 'b'), lambda: '',
        ]
        count = r.randint(2, 12)
        soup = bs4.BeautifulSoup(
            '<html><body><form>' + '<input type="radio" name="a">' * count + '</form>'
            '<input type="radio" name="a"><input type="radio" name="b" checked></body></html>',
            'html.parser'
        )
        for t in soup.find_all('input'):
            if r.random() < 0.7:
                t['name'] = r.choice(kinds)()
            if r.random() < 0.1:
                t['checked'] = ''
        return soup

    bad = 0
    for seed in range(n):
        traces = []
        for mod in (base, new):
            del LOG[:]
            r = random.Random(seed)
            soup = make(r)
            pm = pos_map(soup)
            tr = []
            for sel in (':indeterminate', 'input:not(:indeterminate)', ':is(:indeterminate, :default)'):
                tr.append(call(lambda: [pm[id(x)] for x in mod.select(sel, soup)]))
                g = mod.iselect(sel, soup)
                tr.append(call(lambda: pm.get(id(next(g, None)))))
                tr.append(call(lambda: pm.get(id(next(g, None)))))
                tr.append([call(lambda t=t: mod.match(sel, t)) for t in tags_of(soup)])
            tr.append(list(LOG))
            traces.append(tr)
        if traces[0] != traces[1]:
            bad += 1
            print('ODD-NAME MISMATCH seed', seed)
            for x, y in zip(*traces):
                if x != y:
                    print('  base:', repr(x)[:600])
                    print('  new :', repr(y)[:600])
                    break
    return bad


def check_threads():
    """Same answers when many threads query at once."""

    r = random.Random(99)
    docs = []
    while len(docs) < 6:
        markup, parser = rnd_doc(r)
        docs.append(bs4.BeautifulSoup(markup, parser))
    expected = {}
    for di, d in enumerate(docs):
        pm = pos_map(d)
        for sel in SELECTORS:
            expected[di, sel] = [pm[id(x)] for x in base.select(sel, d)]
    errors = []

    def worker(k):
        rr = random.Random(k)
        try:
            for _ in range(150):
                di = rr.randrange(len(docs))
                sel = rr.choice(SELECTORS)
                pm = pos_map(docs[di])
                if rr.random() < 0.1:
                    new.purge()
                got = [pm[id(x)] for x in new.select(sel, docs[di])]
                if got != expected[di, sel]:
                    errors.append((di, sel, got, expected[di, sel]))
        except BaseException as e:  # noqa: BLE001
            errors.append(repr(e))

    ts = [threading.Thread(target=worker, args=(k,)) for k in range(8)]
    for t in ts:
        t.start()
    for t in ts:
        t.join()
    return errors


def check_cache_and_identity():
    """Compiled selectors: equal, hashable, picklable, as before; memo tables are per object."""

    import copy
    import pickle
    from soupsieve import css_match as cm
    problems = []
    for sel in SELECTORS:
        a, b = new.compile(sel), base.compile(sel)
        if a.pattern != b.pattern or repr(a.selectors) != repr(b.selectors):
            problems.append(('structure', sel))
        if pickle.loads(pickle.dumps(a)) != a or copy.deepcopy(a) != a or hash(copy.copy(a)) != hash(a):
            problems.append(('pickle', sel))
        if new.compile(a) is not a:
            problems.append(('identity', sel))
    soup = bs4.BeautifulSoup('<form><input type=radio name=a><input type=submit></form>', 'html.parser')
    m1 = cm.CSSMatch(new.compile(':default, :indeterminate, :lang(en)').selectors, soup, None, 0)
    m2 = cm.CSSMatch(new.compile(':default, :indeterminate, :lang(en)').selectors, soup, None, 0)
    list(m1.select())
    if not (m1.cached_default_forms and m1.cached_indeterminate_forms):
        problems.append('memo not used')
    if m2.cached_default_forms or m2.cached_indeterminate_forms or m2.cached_meta_lang:
        problems.append('memo shared between objects')
    for table in (m1.cached_default_forms, m1.cached_indeterminate_forms, m1.cached_meta_lang):
        for k, v in table.items():
            if id(v[0]) != k:
                problems.append('key is not the id of the node kept beside the value')
    if [k for k in vars(cm) if k not in vars(sys.modules['soupsieve_base.css_match'])]:
        problems.append('new module level names')
    return problems


def bench():
    """Many forms / many radio groups: the case the change is about."""

    forms = ''.join(
        '<form>' + ''.join(f'<input type="radio" name="g{i}_{j}">' * 2 for j in range(20)) +
        '<input type="submit"></form>'
        for i in range(150)
    )
    soup = bs4.BeautifulSoup(f'<html><body>{forms}</body></html>', 'html.parser')
    out = {}
    for mod, label in ((base, 'base'), (new, 'new')):
        t = time.perf_counter()
        res = (len(mod.select(':indeterminate', soup)), len(mod.select(':default', soup)))
        out[label] = (round(time.perf_counter() - t, 3), res)
    return out


if __name__ == '__main__':
    n = int(sys.argv[1]) if len(sys.argv) > 1 else 400
    bad = check_seeds(n)
    odd = check_odd_names(n)
    terr = check_threads()
    prob = check_cache_and_identity()
    print('seeds:', n, 'mismatches:', bad)
    print('odd-name scenarios:', n, 'mismatches:', odd)
    print('thread errors:', terr[:3], len(terr))
    print('cache/identity problems:', prob)
    print('bench (seconds, counts):', bench())
    sys.exit(1 if bad or odd or terr or prob else 0)
