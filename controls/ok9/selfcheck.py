"""
Self-check for the `custom=` forwarding fix in the module level API.

Run with:  cd /tmp/wt_ok9 && PYTHONPATH=/tmp/wt_ok9 /venv/bin/python selfcheck.py
"""
import copy
import os
import pickle
import subprocess
import sys
import threading
import warnings

HERE = os.path.dirname(os.path.abspath(__file__))
sys.path.insert(0, HERE)

CHECKS = 0


def ok(cond, msg):
    """Assert with counter."""

    global CHECKS
    CHECKS += 1
    if not cond:
        raise AssertionError(msg)


def raises(exc, func, *args, **kwargs):
    """Assert that a call raises."""

    global CHECKS
    CHECKS += 1
    try:
        func(*args, **kwargs)
    except exc as e:
        return e
    raise AssertionError(f"{func} did not raise {exc} for {args} {kwargs}")


HTML = """
<html><head><title>t</title></head><body>
<div id="d1"><h1 id="a">A</h1><p id="p1" class="x">one <span id="s1">s</span></p></div>
<div id="d2"><h2 id="b">B</h2><p id="p2">two</p><h3 id="c">C</h3></div>
</body></html>
"""

XML = """<?xml version="1.0"?>
<root xmlns:x="http://example.com/x"><x:item id="i1"/><item id="i2"/><x:item id="i3"/></root>
"""


def ids(tags):
    """Get ids."""

    return [t.get('id') for t in tags]


def in_process():
    """Checks run inside this process."""

    import bs4
    import soupsieve as sv
    from soupsieve import css_parser as cp

    ok(os.path.dirname(os.path.abspath(sv.__file__)) == os.path.join(HERE, 'soupsieve'), sv.__file__)

    soup = bs4.BeautifulSoup(HTML, 'html.parser')
    xsoup = bs4.BeautifulSoup(XML, 'xml')
    ns = {'x': 'http://example.com/x'}
    span = soup.find(id='s1')
    p1 = soup.find(id='p1')
    custom = {':--header': 'h1, h2', ':--para': 'p:is(.x, :--never)', ':--never': ':not(*)'}

    with warnings.catch_warnings():
        warnings.simplefilter('error')

        # ---- public surface unchanged
        ok(sv.__all__ == (
            'DEBUG', 'SelectorSyntaxError', 'SoupSieve', 'closest', 'compile', 'filter', 'iselect',
            'match', 'select', 'select_one'
        ), '__all__ changed')
        import inspect
        expect = {
            'compile': ['pattern', 'namespaces', 'flags', 'custom', 'kwargs'],
            'closest': ['select', 'tag', 'namespaces', 'flags', 'custom', 'kwargs'],
            'match': ['select', 'tag', 'namespaces', 'flags', 'custom', 'kwargs'],
            'filter': ['select', 'iterable', 'namespaces', 'flags', 'custom', 'kwargs'],
            'select_one': ['select', 'tag', 'namespaces', 'flags', 'custom', 'kwargs'],
            'select': ['select', 'tag', 'namespaces', 'limit', 'flags', 'custom', 'kwargs'],
            'iselect': ['select', 'tag', 'namespaces', 'limit', 'flags', 'custom', 'kwargs'],
            'escape': ['ident'],
            'purge': []
        }
        for name, params in expect.items():
            ok(list(inspect.signature(getattr(sv, name)).parameters) == params, f'signature of {name}')

        # ---- direct, positional and keyword forms (existing behaviour)
        ok(ids(sv.select('p', soup)) == ['p1', 'p2'], 'select positional')
        ok(ids(sv.select('p', soup, None, 1)) == ['p1'], 'select positional limit')
        ok(ids(sv.select('p', soup, None, 0, 0)) == ['p1', 'p2'], 'select positional flags')
        ok(ids(sv.select(select='p', tag=soup, namespaces=None, limit=1, flags=0)) == ['p1'], 'select kw')
        ok(ids(sv.select('p', soup, limit=1, custom=None)) == ['p1'], 'select custom=None')
        ok(ids(sv.select('p', soup, whatever=1)) == ['p1', 'p2'], 'select extra kwargs')
        ok(ids(sv.select('x|item', xsoup, ns)) == ['i1', 'i3'], 'select ns positional')
        ok(ids(sv.select('x|item', xsoup, ns, 1)) == ['i1'], 'select ns limit positional')
        ok(ids(sv.select('x|item', xsoup, namespaces=ns, limit=1)) == ['i1'], 'select ns kw')
        it = sv.iselect('p', soup, None, 1)
        ok(iter(it) is it and not isinstance(it, list), 'iselect is lazy iterator')
        ok(ids(it) == ['p1'], 'iselect positional')
        ok(ids(sv.iselect('x|item', xsoup, ns, 0, 0)) == ['i1', 'i3'], 'iselect ns positional')
        ok(ids(sv.iselect(select='p', tag=soup, limit=1)) == ['p1'], 'iselect kw')
        ok(sv.select_one('p', soup).get('id') == 'p1', 'select_one')
        ok(sv.select_one('x|item', xsoup, ns, 0).get('id') == 'i1', 'select_one positional')
        ok(sv.select_one('nothing', soup) is None, 'select_one none')
        ok(sv.closest('div', span).get('id') == 'd1', 'closest')
        ok(sv.closest('div', span, None, 0).get('id') == 'd1', 'closest positional')
        ok(sv.closest(select='section', tag=span) is None, 'closest none')
        ok(sv.match('p.x', p1) is True and sv.match('p.y', p1, None, 0) is False, 'match')
        ok(ids(sv.filter('p', soup.find(id='d1'))) == ['p1'], 'filter tag')
        ok(ids(sv.filter('p', [p1, span, bs4.NavigableString('text')], None, 0)) == ['p1'], 'filter iterable')
        ok(sv.escape('.foo#bar') == '\\.foo\\#bar', 'escape')
        ok(sv.escape(ident='1a') == '\\31 a', 'escape kw')
        raises(sv.SelectorSyntaxError, sv.select, 'p[', soup)
        raises(sv.SelectorSyntaxError, sv.select, ':--header', soup)
        raises(sv.SelectorSyntaxError, sv.select, ':--header', soup, custom=None)
        raises(TypeError, sv.select, 'p', soup, None, 0, 0, custom)  # custom stays keyword only

        # ---- compile and compiled objects
        c = sv.compile('p')
        ok(sv.compile('p') is c, 'cache returns same object')
        ok(sv.compile(c) is c, 'compile(compiled) identity')
        ok(sv.compile(c, None, 0) is c and sv.compile(c, custom=None) is c, 'compile(compiled, defaults)')
        cn = sv.compile('x|item', ns, sv.DEBUG * 0, custom=custom)
        for obj in (c, cn):
            raises(ValueError, sv.compile, obj, {})
            raises(ValueError, sv.compile, obj, ns)
            raises(ValueError, sv.compile, obj, namespaces=obj.namespaces or {})
            raises(ValueError, sv.compile, obj, None, 1)
            raises(ValueError, sv.compile, obj, flags=sv.DEBUG)
            raises(ValueError, sv.compile, obj, custom={})
            raises(ValueError, sv.compile, obj, custom=custom)
            raises(ValueError, sv.compile, obj, custom=obj.custom or {})
        e = raises(ValueError, sv.compile, c, {}, 1, custom={})
        ok('flags' in str(e), 'flags checked first')
        e = raises(ValueError, sv.compile, c, {}, 0, custom={})
        ok('namespaces' in str(e), 'namespaces checked second')

        ok(isinstance(c, sv.SoupSieve) and sv.SoupSieve is sv.css_match.SoupSieve, 'SoupSieve type')
        raises(AttributeError, setattr, c, 'pattern', 'q')
        raises(AttributeError, setattr, c, 'other', 'q')
        ok(hash(c) == hash(sv.compile('p')) and c == sv.compile('p'), 'hash/eq')
        ok(c != sv.compile('p', {}) and c != sv.compile('p', custom={}) and c != sv.compile('div'), 'inequality')
        for obj in (c, cn):
            r = pickle.loads(pickle.dumps(obj))
            ok(r == obj and hash(r) == hash(obj) and r is not obj, 'pickle')
            ok(copy.copy(obj) == obj and copy.deepcopy(obj) == obj, 'copy')
            ok(len({obj, r, copy.copy(obj)}) == 1, 'set dedupe')
        ok(ids(pickle.loads(pickle.dumps(cn)).select(xsoup)) == ['i1', 'i3'], 'unpickled works')

        # ---- compiled object as first argument of module functions (behaviour kept)
        ok(ids(sv.select(c, soup)) == ['p1', 'p2'], 'select(compiled)')
        ok(ids(sv.select(c, soup, None, 1)) == ['p1'], 'select(compiled, limit)')
        ok(ids(sv.select(c, soup, limit=1, custom=None)) == ['p1'], 'select(compiled, custom=None)')
        ok(ids(sv.iselect(c, soup, None, 1, 0, custom=None)) == ['p1'], 'iselect(compiled)')
        ok(sv.select_one(c, soup, custom=None).get('id') == 'p1', 'select_one(compiled)')
        ok(sv.match(c, p1, custom=None) is True, 'match(compiled)')
        ok(sv.closest(sv.compile('div'), span, custom=None).get('id') == 'd1', 'closest(compiled)')
        ok(ids(sv.filter(c, [p1, span], custom=None)) == ['p1'], 'filter(compiled)')
        for fn in (sv.select, sv.select_one, sv.match, sv.closest, sv.filter):
            raises(ValueError, fn, c, p1, {})
            raises(ValueError, fn, c, p1, ns)
            raises(ValueError, fn, c, p1, flags=1)
        raises(ValueError, sv.select, c, p1, None, 0, 1)
        raises(ValueError, list, sv.iselect(c, p1, {}))
        raises(ValueError, list, sv.iselect(c, p1, None, 0, 1))
        # historically `custom` was never looked at by these functions; a compiled selector keeps that
        ok(ids(sv.select(c, soup, custom={})) == ['p1', 'p2'], 'select(compiled, custom={}) as before')
        ok(ids(sv.select(c, soup, custom=custom)) == ['p1', 'p2'], 'select(compiled, custom=map) as before')
        ok(ids(sv.iselect(c, soup, custom=custom)) == ['p1', 'p2'], 'iselect(compiled, custom=map) as before')
        ok(sv.select_one(c, soup, custom=custom).get('id') == 'p1', 'select_one(compiled, custom=map) as before')
        ok(sv.match(c, p1, custom=custom) is True, 'match(compiled, custom=map) as before')
        ok(sv.closest(c, span, custom=custom).get('id') == 'p1', 'closest(compiled, custom=map) as before')
        ok(ids(sv.filter(c, [p1], custom=custom)) == ['p1'], 'filter(compiled, custom=map) as before')
        ch = sv.compile(':--header', custom=custom)
        ok(ids(sv.select(ch, soup)) == ['a', 'b'], 'compiled with custom through select')

        # ---- THE FIX: custom= is forwarded for string selectors
        ok(ids(sv.select(':--header', soup, custom=custom)) == ['a', 'b'], 'select custom')
        ok(ids(sv.select(':--header', soup, None, 1, 0, custom=custom)) == ['a'], 'select custom positional')
        ok(ids(sv.select(':--header', soup, limit=1, custom={':--header': 'h2, h3'})) == ['b'], 'select custom 2')
        ok(ids(sv.iselect(':--header', soup, custom=custom)) == ['a', 'b'], 'iselect custom')
        ok(ids(sv.iselect(':--header', soup, None, 1, custom=custom)) == ['a'], 'iselect custom limit')
        ok(sv.select_one(':--header', soup, custom=custom).get('id') == 'a', 'select_one custom')
        ok(sv.select_one(':--para', soup, custom=custom).get('id') == 'p1', 'select_one nested custom')
        ok(sv.match(':--para', p1, custom=custom) is True, 'match custom')
        ok(sv.match(':--header', p1, None, 0, custom=custom) is False, 'match custom false')
        ok(sv.closest(':--para', span, custom=custom).get('id') == 'p1', 'closest custom')
        ok(ids(sv.filter(':--header', soup.find(id='d2'), custom=custom)) == ['b'], 'filter custom')
        ok(ids(sv.filter(':--header', list(soup.find_all(True)), custom=custom)) == ['a', 'b'], 'filter custom list')
        ok(ids(sv.select('x|item:--first', xsoup, ns, custom={':--first': ':first-child'})) == ['i1'], 'ns + custom')
        # Same results and same cached object as the documented compile() route
        ok(
            ids(sv.select(':--header', soup, custom=custom)) == ids(sv.compile(':--header', custom=custom).select(soup)),
            'agrees with compile'
        )
        # errors agree with compile(custom=...)
        raises(sv.SelectorSyntaxError, sv.select, ':--missing', soup, custom=custom)
        raises(sv.SelectorSyntaxError, sv.select, 'p', soup, custom={'bad-name': 'p'})
        raises(sv.SelectorSyntaxError, sv.compile, 'p', custom={'bad-name': 'p'})
        raises(KeyError, sv.match, 'p', p1, custom={':--a': 'p', ':--A': 'p'})
        raises(KeyError, sv.compile, 'p', custom={':--a': 'p', ':--A': 'p'})
        raises(sv.SelectorSyntaxError, list, sv.iselect(':--missing', soup, custom=custom))
        # the caller's dict is not modified or retained mutable
        mine = {':--header': 'h1'}
        ok(ids(sv.select(':--header', soup, custom=mine)) == ['a'], 'custom h1')
        mine[':--header'] = 'h3'
        ok(mine == {':--header': 'h3'}, 'dict untouched')
        ok(ids(sv.select(':--header', soup, custom=mine)) == ['c'], 'changed map gives new result, no stale cache')

        # ---- cache: transparent, bounded, purge empties
        sv.purge()
        ok(cp._cached_css_compile.cache_info().currsize == 0, 'purge empties')
        maxsize = cp._cached_css_compile.cache_info().maxsize
        ok(maxsize == cp._MAXCACHE, 'maxsize unchanged')
        sv.select('p', soup)
        sv.select('p', soup, custom=None)
        sv.select(c, soup)
        ok(cp._cached_css_compile.cache_info().currsize == 1, 'custom=None and compiled add no entries')
        sv.select(':--header', soup, custom=custom)
        sv.match(':--header', p1, custom=dict(custom))
        ok(cp._cached_css_compile.cache_info().currsize == 2, 'equal custom maps share an entry')
        ok(sv.compile(':--header', custom=custom) is sv.compile(':--header', custom=dict(custom)), 'cached identity')
        for i in range(maxsize + 50):
            sv.select(f'p.c{i}', soup, custom={':--k': f'.c{i}'})
        ok(cp._cached_css_compile.cache_info().currsize == maxsize, 'bounded')
        raises(sv.SelectorSyntaxError, sv.select, 'p[', soup, custom=custom)
        ok(cp._cached_css_compile.cache_info().currsize == maxsize, 'aborted call leaves cache consistent')
        sv.purge()
        ok(cp._cached_css_compile.cache_info().currsize == 0, 'purge empties again')
        raises(sv.SelectorSyntaxError, sv.select, ':--missing', soup, custom=custom)
        ok(cp._cached_css_compile.cache_info().currsize == 0, 'failed compile not cached')
        ok(ids(sv.select(':--header', soup, custom=custom)) == ['a', 'b'], 'works after purge')

        # ---- threads
        errors = []

        def worker(n):
            try:
                for i in range(150):
                    if i % 37 == 0:
                        sv.purge()
                    assert ids(sv.select(':--header', soup, custom=custom)) == ['a', 'b']
                    assert ids(sv.select('p', soup, None, 1)) == ['p1']
                    assert ids(sv.select(c, soup, custom=None)) == ['p1', 'p2']
                    assert sv.match(':--para', p1, custom=custom)
                    assert ids(sv.iselect(f':--h{n}', soup, custom={f':--h{n}': 'h3'})) == ['c']
                    try:
                        sv.select(':--header', soup)
                    except sv.SelectorSyntaxError:
                        pass
                    else:
                        raise AssertionError('undefined custom must still raise')
            except BaseException as exc:  # noqa: B036
                errors.append(exc)

        threads = [threading.Thread(target=worker, args=(n,)) for n in range(8)]
        for t in threads:
            t.start()
        for t in threads:
            t.join()
        ok(not errors, f'thread errors: {errors[:1]}')
        ok(cp._cached_css_compile.cache_info().currsize <= maxsize, 'bounded after threads')

        # ---- through Beautiful Soup
        sv.purge()
        ok(ids(soup.select('p')) == ['p1', 'p2'], 'soup.select(sel)')
        ok(ids(soup.select('p', limit=1)) == ['p1'], 'soup.select(sel, limit=1)')
        ok(ids(xsoup.select('x|item', ns, 1)) == ['i1'], 'soup.select(sel, ns, limit)')
        ok(ids(xsoup.select('x|item', ns)) == ['i1', 'i3'], 'soup.select(sel, ns)')
        ok(ids(xsoup.select('x|item')) == ['i1', 'i3'], 'soup.select(sel) with document namespaces')
        ok(ids(xsoup.root.css.iselect('x|item', ns, 1)) == ['i1'], 'tag.css.iselect(sel, ns, limit)')
        ok(ids(soup.body.css.iselect('p')) == ['p1', 'p2'], 'tag.css.iselect(sel)')
        ok(ids(soup.select(c)) == ['p1', 'p2'], 'soup.select(compiled)')
        ok(ids(soup.select(c, limit=1)) == ['p1'], 'soup.select(compiled, limit=1)')
        ok(ids(soup.css.select(ch)) == ['a', 'b'], 'soup.css.select(compiled with custom)')
        ok(soup.select_one('p').get('id') == 'p1', 'soup.select_one')
        ok(soup.select_one(c).get('id') == 'p1', 'soup.select_one(compiled)')
        ok(soup.css.escape('.foo#bar') == '\\.foo\\#bar', 'soup.css.escape')
        ok(span.css.closest('div').get('id') == 'd1', 'tag.css.closest')
        ok(p1.css.match('p.x') is True, 'tag.css.match')
        ok(ids(soup.find(id='d1').css.filter('p')) == ['p1'], 'tag.css.filter')
        ok(soup.css.compile('p') is sv.compile('p', soup._namespaces), 'soup.css.compile shares the cache')
        ok(isinstance(soup.css.compile('p'), sv.SoupSieve), 'isinstance through bs4')
        # bs4 forwards **kwargs, so the fix is reachable through Beautiful Soup as well
        ok(ids(soup.select(':--header', custom=custom)) == ['a', 'b'], 'soup.select(custom=)')
        ok(ids(soup.select(':--header', None, 1, custom=custom)) == ['a'], 'soup.select(ns, limit, custom=)')
        ok(soup.select_one(':--header', custom=custom).get('id') == 'a', 'soup.select_one(custom=)')
        ok(ids(soup.css.iselect(':--header', custom=custom)) == ['a', 'b'], 'css.iselect(custom=)')
        ok(span.css.closest(':--para', custom=custom).get('id') == 'p1', 'css.closest(custom=)')
        ok(p1.css.match(':--para', custom=custom) is True, 'css.match(custom=)')
        ok(ids(soup.find(id='d2').css.filter(':--header', custom=custom)) == ['b'], 'css.filter(custom=)')
        ok(
            soup.css.compile(':--header', custom=custom) is sv.compile(':--header', soup._namespaces, custom=custom),
            'css.compile(custom=)'
        )


SUB = r'''
import sys, io, warnings
warnings.simplefilter('error')
before = set(sys.modules)
{imports}
assert soupsieve.__file__.startswith({here!r}), soupsieve.__file__
from soupsieve import css_parser as cp
assert cp._cached_css_compile.cache_info().currsize == 0, 'import populated the cache'
assert bs4.css.soupsieve is soupsieve
soup = bs4.BeautifulSoup('<div><h1 id="a">A</h1><p id="p">x</p><h2 id="b">B</h2></div>', 'html.parser')
ids = lambda ts: [t.get('id') for t in ts]
cus = {{':--header': 'h1, h2'}}
assert ids(soup.select('p')) == ['p']
assert ids(soup.select('h1, h2', None, 1)) == ['a']
assert ids(soup.select('h1, h2', limit=1)) == ['a']
assert ids(soup.div.css.iselect('h1, h2', None, 1)) == ['a']
c = soupsieve.compile('p')
assert ids(soup.select(c)) == ['p'] and soupsieve.compile(c) is c
assert isinstance(c, soupsieve.SoupSieve)
assert soup.css.escape('a.b') == 'a\\.b'
assert ids(soupsieve.select(':--header', soup, custom=cus)) == ['a', 'b']
assert ids(soup.select(':--header', custom=cus)) == ['a', 'b']
assert ids(soupsieve.select(c, soup, custom=None)) == ['p']
try:
    soupsieve.select(':--header', soup)
except soupsieve.SelectorSyntaxError:
    pass
else:
    raise AssertionError('undefined custom selector must raise')
print('SUBOK')
'''


def subprocesses():
    """Both import orders, fresh interpreters, warnings as errors, no output on import."""

    env = dict(os.environ, PYTHONPATH=HERE)
    for imports in ('import bs4\nimport soupsieve', 'import soupsieve\nimport bs4'):
        code = SUB.format(imports=imports, here=HERE)
        r = subprocess.run(
            [sys.executable, '-W', 'error', '-c', code], env=env, cwd=HERE, capture_output=True, text=True
        )
        ok(r.returncode == 0, f'subprocess failed ({imports!r}):\n{r.stdout}\n{r.stderr}')
        ok(r.stdout == 'SUBOK\n' and r.stderr == '', f'unexpected output: {r.stdout!r} {r.stderr!r}')
    # bare import prints nothing at all
    for mod in ('soupsieve', 'bs4'):
        r = subprocess.run(
            [sys.executable, '-W', 'error', '-c', f'import {mod}'], env=env, cwd=HERE, capture_output=True, text=True
        )
        ok(r.returncode == 0 and r.stdout == '' and r.stderr == '', f'import {mod} not silent: {r.stderr!r}')


if __name__ == '__main__':
    in_process()
    subprocesses()
    print(f'selfcheck OK ({CHECKS} checks)')
