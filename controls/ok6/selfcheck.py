#!/usr/bin/env python
"""
Self check for the "no module-level `import bs4` in `soupsieve.css_match`" refactor.

Every probe runs in a FRESH interpreter (subprocess) with PYTHONPATH pointing at the tree under test, for
every combination of

- import form used as the very first statement (bs4 first, soupsieve first, submodules first, star import, ...),
- interpreter flags (none, -O, -OO, -B, -W error, -W always, combinations),
- optional third-party packages visible or hidden (lxml, html5lib, chardet, charset_normalizer).

Two kinds of children are spawned:

1. "bare" children: the import form is literally the only statement. stdout and stderr must be empty (also at
   interpreter exit) and the exit status must be 0 (run with `-W error`, so any warning is fatal).
2. "instrumented" children: snapshot process-wide state, run the import form with all warnings recorded,
   compare the state, check the package structure, then run a matching workload through the Beautiful Soup API
   (`Tag.select`, `Tag.select_one`, `Tag.css.*`) and through `soupsieve.*` directly and print one JSON document.

The parent requires that

- within a child, both APIs agree on every probe,
- all children (all import orders, all interpreter configurations) produce the SAME workload results,
- the results are identical to the ones produced by the pristine `HEAD` sources (`git archive HEAD soupsieve`),
  which is what makes this a behaviour preservation check and not only a self consistency check.

Usage: /venv/bin/python selfcheck.py [--quick]
"""
from __future__ import annotations
import itertools
import json
import os
import subprocess
import sys
import tempfile

HERE = os.path.dirname(os.path.abspath(__file__))
PYTHON = sys.executable

SUBMODULES = ('css_match', 'css_parser', 'css_types', 'util', 'pretty', '__meta__')

IMPORT_FORMS = [
    'import bs4',
    'from bs4 import BeautifulSoup',
    'import bs4.element',
    'import bs4.css',
    'import soupsieve',
    *[f'import soupsieve.{name}' for name in SUBMODULES],
    'from soupsieve import css_match',
    'from soupsieve import css_parser, css_types, util, pretty, __meta__',
    'from soupsieve.css_types import SelectorList',
    'from soupsieve.css_match import SoupSieve',
    'from soupsieve import *',
    'from soupsieve import SoupSieve, compile, select',
    'import soupsieve, bs4',
    'import bs4, soupsieve',
]

FLAG_SETS = [
    [],
    ['-O'],
    ['-OO'],
    ['-B'],
    ['-W', 'error'],
    ['-W', 'always'],
    ['-O', '-W', 'error'],
    ['-OO', '-B', '-W', 'error'],
    ['-X', 'dev'],
]  # `-I` / `-E` ignore PYTHONPATH, so they cannot select the tree under test and are left out on purpose.

OPTIONAL = ('lxml', 'html5lib', 'chardet', 'charset_normalizer')
HIDE_SETS = [
    (),
    OPTIONAL,
    ('lxml',),
    ('html5lib',),
    ('chardet', 'charset_normalizer'),
]

# The instrumented child. `@@IMPORT@@` is replaced by the import form and `@@HIDE@@` by the hidden packages.
# Only standard library modules are imported in the preamble.
CHILD = r'''
import sys, os, json, warnings, logging, signal, locale, threading, atexit, copyreg, importlib.abc

HIDE = @@HIDE@@


class _Hide(importlib.abc.MetaPathFinder):
    """Make the hidden third-party packages unimportable, as if they were not installed."""

    def find_spec(self, name, path=None, target=None):
        if name.split('.')[0] in HIDE:
            raise ModuleNotFoundError("No module named %r (hidden by selfcheck)" % name, name=name)
        return None


if HIDE:
    sys.meta_path.insert(0, _Hide())

_atexit_calls = []
_orig_register = atexit.register
atexit.register = lambda *a, **k: (_atexit_calls.append(repr(a[:1])), _orig_register(*a, **k))[1]


def _signals():
    out = {}
    for s in signal.valid_signals():
        try:
            out[int(s)] = repr(signal.getsignal(s))
        except (ValueError, OSError):
            pass
    return out


def snapshot():
    root = logging.getLogger()
    return {
        'filters': [repr(f) for f in warnings.filters],
        'sys.path': list(sys.path),
        # `six` (a dependency of html5lib, loaded by Beautiful Soup's html5lib tree builder) installs its own
        # importer; that is a third-party effect which is identical with the pristine sources.
        'meta_path': [repr(f) for f in sys.meta_path if type(f).__module__ != 'six'],
        'path_hooks': [repr(f) for f in sys.path_hooks],
        'recursion': sys.getrecursionlimit(),
        'switchinterval': sys.getswitchinterval(),
        'log.root.level': root.level,
        'log.root.handlers': [repr(h) for h in root.handlers],
        'log.disable': logging.root.manager.disable,
        'log.lastResort': repr(logging.lastResort),
        'log.raise': logging.raiseExceptions,
        'signals': _signals(),
        'locale': [locale.setlocale(c) for c in (locale.LC_ALL, locale.LC_CTYPE, locale.LC_COLLATE, locale.LC_NUMERIC)],
        'environ': dict(os.environ),
        'cwd': os.getcwd(),
        'umask': (lambda m: (os.umask(m), m)[1])(os.umask(0o22)),
        'excepthook': repr(sys.excepthook),
        'unraisablehook': repr(sys.unraisablehook),
        'threading.excepthook': repr(threading.excepthook),
        'displayhook': repr(sys.displayhook),
        'threads': sorted(t.name for t in threading.enumerate()),
        'atexit': atexit._ncallbacks(),
        'atexit.calls': list(_atexit_calls),
        'stdout': repr(sys.stdout), 'stderr': repr(sys.stderr), 'stdin': repr(sys.stdin),
        'flags': repr(sys.flags),
        'trace': repr(sys.gettrace()), 'profile': repr(sys.getprofile()),
        'showwarning': repr(warnings.showwarning), 'formatwarning': repr(warnings.formatwarning),
        'dont_write_bytecode': sys.dont_write_bytecode,
        'builtins': sorted(__import__('builtins').__dict__),
    }


copyreg_before = dict(copyreg.dispatch_table)
problems = []
recorded = []
with warnings.catch_warnings(record=True) as caught:
    warnings.simplefilter('always')
    before = snapshot()
    @@IMPORT@@
    after = snapshot()
    recorded = [(w.category.__name__, str(w.message), w.filename) for w in caught]

for key in before:
    if before[key] != after[key]:
        problems.append('process state changed by import: %s: %r -> %r' % (key, before[key], after[key]))

for cat, msg, filename in recorded:
    if 'soupsieve' in filename.replace('\\', '/').split('/') or 'soupsieve' in msg.lower():
        problems.append('warning attributed to soupsieve: %s %s %s' % (cat, msg, filename))

new_pickle = {k for k in copyreg.dispatch_table if k not in copyreg_before}
foreign = sorted(repr(k) for k in new_pickle if not getattr(k, '__module__', '').startswith('soupsieve'))
# Beautiful Soup registers nothing either; anything foreign would be a surprise worth reporting.
if foreign:
    problems.append('foreign copyreg registrations: %r' % foreign)

import soupsieve
import bs4
from bs4 import BeautifulSoup

tree = os.path.realpath(os.environ['SELFCHECK_TREE'])
if os.path.realpath(os.path.dirname(os.path.dirname(soupsieve.__file__))) != tree:
    problems.append('wrong soupsieve imported: %s (expected under %s)' % (soupsieve.__file__, tree))

# Package structure.
SUBMODULES = ('css_match', 'css_parser', 'css_types', 'util', 'pretty', '__meta__')
for name in SUBMODULES:
    mod = sys.modules.get('soupsieve.' + name)
    if mod is None:
        problems.append('submodule not imported eagerly: ' + name)
    elif getattr(soupsieve, name, None) is not mod:
        problems.append('package attribute does not alias submodule: ' + name)
for name in soupsieve.__all__:
    if not hasattr(soupsieve, name):
        problems.append('missing public name: ' + name)
if soupsieve.SoupSieve is not soupsieve.css_match.SoupSieve:
    problems.append('SoupSieve identity')
if soupsieve.SelectorSyntaxError is not soupsieve.util.SelectorSyntaxError:
    problems.append('SelectorSyntaxError identity')
if sys.modules.get('bs4') is not bs4 or not hasattr(bs4, 'Tag') or bs4.css.soupsieve is not soupsieve:
    problems.append('bs4 <-> soupsieve wiring')
star = {}
exec('from soupsieve import *', star)
if sorted(k for k in star if k != '__builtins__') != sorted(soupsieve.__all__):
    problems.append('star import: %r' % sorted(star))

# Beautiful Soup classes must be untouched: compare with what the class bodies define.
for cls in (bs4.Tag, bs4.BeautifulSoup, bs4.element.PageElement, bs4.element.NavigableString, bs4.css.CSS):
    for attr, value in vars(cls).items():
        mod = getattr(value, '__module__', None) or getattr(getattr(value, '__func__', None), '__module__', None)
        if isinstance(mod, str) and mod.startswith('soupsieve'):
            problems.append('soupsieve object installed on %s.%s' % (cls.__name__, attr))

# Workload.
HTML = """<!DOCTYPE html><html lang="en"><head><title>T</title><meta http-equiv="content-language" content="en"></head>
<body><div id="main" class="a b"><p id="p1" class="x">one <b>bold</b> <i>it</i></p><!-- c --><p id="p2" lang="fr">deux
<span dir="rtl">s1</span><span>s2</span></p><ul><li class="x">1</li><li>2</li><li class="x y">3</li><li>4</li></ul>
<form id="f"><input type="checkbox" checked id="c1"><input type="radio" name="r" id="r1"><input type="radio" name="r"
id="r2"><input type="number" min="1" max="5" value="7" id="n1"><input type="text" placeholder="ph" id="t1">
<button id="b1">go</button><select id="s"><option id="o1" selected>a</option><option id="o2">b</option></select></form>
<a href="http://example.com/x" id="a1">link</a><a id="a2">nolink</a><iframe id="fr"></iframe><p id="e"> </p><p id="e2"></p>
<my-el id="custom"></my-el></div><div id="second"><p id="p3">three</p><![CDATA[cd]]></div></body></html>"""
XML = """<?xml version="1.0"?><root xmlns="http://d.example/" xmlns:n="http://n.example/" xml:lang="de">
<n:item id="i1" n:attr="v">x</n:item><item id="i2">y<n:item id="i3"/></item><Item ID="i4"/></root>"""
NS = {'n': 'http://n.example/', 'd': 'http://d.example/'}

SELECTORS = [
    'p', 'div > p', 'p.x', '#p2 span', 'li:nth-child(2n+1)', 'li:nth-last-of-type(2)', 'li:nth-child(2 of .x)',
    'div:has(> ul > li.y)', 'p:not(.x)', ':root', 'p:empty', ':is(b, i, span)', 'p:lang(fr)', 'p:lang(en)',
    'span:dir(rtl)', 'span:dir(ltr)', 'input:checked', 'input:indeterminate', ':default', 'input:out-of-range',
    'input:in-range', 'input:placeholder-shown', 'a:any-link', ':defined', 'p:-soup-contains("one")',
    'p:-soup-contains-own("deux")', 'li ~ li.x', 'li + li', 'DIV P', '[class~=b]', '[id^=p]', '[id$="2" i]',
    'p:first-child, p:last-child', 'p:only-of-type', 'form :enabled', ':root > body > div', 'html:has(meta) p#p3',
    'option:checked', ':scope > p', 'li:where(.x):not(.y)',
]
XML_SELECTORS = [('n|item', NS), ('d|item', NS), ('*|item', NS), ('item', None), ('[n|attr=v]', NS),
                 ('|item', NS), ('root > *', None), ('Item', None), (':root:lang(de) *|item', NS)]
BAD = ['p:', 'div >', '[a=', ':nth-child(x)', '!', 'a,,b', ':has()', ':not(', 'p:unknown-pseudo', 'a b >> c', '#']


def ident(el):
    return None if el is None else '%s#%s' % (el.name, el.get('id') or el.get('ID'))


def idents(els):
    return [ident(e) for e in els]


def both(label, via_bs4, via_sv):
    """Evaluate through both APIs, require equality, return the (JSON friendly) value."""
    out = []
    for fn in (via_bs4, via_sv):
        try:
            out.append(('ok', fn()))
        except soupsieve.SelectorSyntaxError as e:
            out.append(('SelectorSyntaxError', str(e)))
        except Exception as e:
            out.append((type(e).__name__, str(e)))
    if out[0] != out[1]:
        problems.append('API mismatch %s: bs4=%r soupsieve=%r' % (label, out[0], out[1]))
    return list(out[1])


parsers = ['html.parser']
for feature, mod in (('lxml', 'lxml'), ('html5lib', 'html5lib')):
    try:
        __import__(mod)
    except ImportError:
        if mod not in HIDE:
            problems.append('unexpected ImportError for ' + mod)
    else:
        if mod in HIDE:
            problems.append('hidden package importable: ' + mod)
        parsers.append(feature)
xml_parsers = ['lxml-xml'] if 'lxml' in parsers else []

results = {}
for parser in parsers:
    soup = BeautifulSoup(HTML, parser)
    main = soup.find(id='main')
    leaf = soup.find(id='p1').b
    res = results[parser] = {}
    for sel in SELECTORS:
        compiled = soupsieve.compile(sel)
        for scope_name, scope in (('doc', soup), ('main', main)):
            k = '%s @%s' % (sel, scope_name)
            res[k + ' select'] = both(k, lambda: idents(scope.select(sel)), lambda: idents(soupsieve.select(sel, scope)))
            res[k + ' css.select'] = both(k, lambda: idents(scope.css.select(sel)),
                                          lambda: idents(soupsieve.select(sel, scope)))
            res[k + ' limit'] = both(k, lambda: idents(scope.select(sel, limit=2)),
                                     lambda: idents(soupsieve.select(sel, scope, limit=2)))
            res[k + ' one'] = both(k, lambda: ident(scope.select_one(sel)), lambda: ident(soupsieve.select_one(sel, scope)))
            res[k + ' iselect'] = both(k, lambda: idents(scope.css.iselect(sel, limit=3)),
                                       lambda: idents(soupsieve.iselect(sel, scope, limit=3)))
            res[k + ' filter'] = both(k, lambda: idents(scope.css.filter(sel)), lambda: idents(soupsieve.filter(sel, scope)))
            res[k + ' compiled'] = both(k, lambda: idents(scope.select(compiled)), lambda: idents(compiled.select(scope)))
            res[k + ' compiled.css'] = both(k, lambda: idents(scope.css.select(compiled, limit=1)),
                                            lambda: idents(compiled.select(scope, limit=1)))
        k = sel + ' @leaf'
        res[k + ' closest'] = both(k, lambda: ident(leaf.css.closest(sel)), lambda: ident(soupsieve.closest(sel, leaf)))
        res[k + ' match'] = both(k, lambda: leaf.css.match(sel), lambda: soupsieve.match(sel, leaf))
        res[k + ' match main'] = both(k, lambda: main.css.match(sel), lambda: soupsieve.match(sel, main))
        # An iterable (not a tag) takes the other branch of `SoupSieve.filter`.
        res[k + ' filter list'] = [idents(soupsieve.filter(sel, list(main.children)))]
    for sel in BAD:
        r = both('bad ' + sel, lambda: soup.select(sel), lambda: soupsieve.select(sel, soup))
        if r[0] != 'SelectorSyntaxError':
            problems.append('malformed selector %r did not raise SelectorSyntaxError: %r' % (sel, r))
        r2 = both('bad one ' + sel, lambda: soup.css.select_one(sel), lambda: soupsieve.select_one(sel, soup))
        res['bad ' + sel] = [r, r2]
    # Pseudo-elements are valid CSS that is deliberately unsupported: `NotImplementedError` through both APIs.
    res['pseudo-element'] = both('pseudo-element', lambda: soup.select('p::before'), lambda: soupsieve.select('p::before', soup))
    if res['pseudo-element'][0] != 'NotImplementedError':
        problems.append('pseudo-element: %r' % res['pseudo-element'])
    # Wrong input type.
    res['typeerror'] = both('typeerror', lambda: soupsieve.select('p', 'not a tag'), lambda: soupsieve.match('p', 'x'))[0]
    res['string child'] = [soupsieve.compile('p').match(soup.find(id='p1')), ident(soupsieve.closest('div', leaf))]

for parser in xml_parsers:
    soup = BeautifulSoup(XML, parser)
    res = results[parser] = {}
    for sel, ns in XML_SELECTORS:
        k = '%s ns=%s' % (sel, sorted(ns) if ns else ns)
        res[k + ' select'] = both(k, lambda: idents(soup.select(sel, namespaces=ns)),
                                  lambda: idents(soupsieve.select(sel, soup, namespaces=ns)))
        res[k + ' one'] = both(k, lambda: ident(soup.select_one(sel, namespaces=ns)),
                               lambda: ident(soupsieve.select_one(sel, soup, namespaces=ns)))
        res[k + ' css'] = both(k, lambda: idents(soup.css.select(sel, namespaces=ns, limit=2)),
                               lambda: idents(soupsieve.select(sel, soup, namespaces=ns, limit=2)))
        compiled = soupsieve.compile(sel, namespaces=ns)
        res[k + ' compiled'] = both(k, lambda: idents(soup.select(compiled)), lambda: idents(compiled.select(soup)))
    # Document namespaces picked up by Beautiful Soup when none are given.
    res['default ns'] = both('default ns', lambda: idents(soup.select('n|item')),
                             lambda: idents(soupsieve.select('n|item', soup, namespaces=soup._namespaces)))

misc = {
    'escape': both('escape', lambda: [bs4.css.CSS(BeautifulSoup('', 'html.parser')).escape(s) for s in ('1a', 'a b', '-', 'é#')],
                   lambda: [soupsieve.escape(s) for s in ('1a', 'a b', '-', 'é#')]),
    'all': sorted(soupsieve.__all__),
    'version': soupsieve.__version__,
}

# Caching / pickling are part of "no behavioural change".
import pickle
c1 = soupsieve.compile('div > p.x:nth-child(1)')
if soupsieve.compile('div > p.x:nth-child(1)') is not c1:
    problems.append('compile cache miss')
if pickle.loads(pickle.dumps(c1)) != c1:
    problems.append('pickle round trip')
soupsieve.purge()
if soupsieve.compile('div > p.x:nth-child(1)') is c1:
    problems.append('purge did not purge')

print(json.dumps({'problems': problems, 'results': results, 'misc': misc, 'file': soupsieve.__file__,
                  'warnings': recorded, 'debug': __debug__, 'optimize': sys.flags.optimize}))
'''


def run(tree: str, flags: list[str], source: str, env_extra: dict[str, str] | None = None) -> subprocess.CompletedProcess:
    """Run `source` in a fresh interpreter against `tree`."""

    env = {k: v for k, v in os.environ.items() if not k.startswith('PYTHON')}
    env['PYTHONPATH'] = tree
    env['SELFCHECK_TREE'] = tree
    env['PYTHONHASHSEED'] = '0'
    env.update(env_extra or {})
    with tempfile.TemporaryDirectory() as cwd:
        # Run from an empty directory: only PYTHONPATH decides which `soupsieve` is imported.
        return subprocess.run(
            [PYTHON, *flags, '-c', source], env=env, cwd=cwd, capture_output=True, text=True, timeout=300
        )


def pristine_tree(tmp: str) -> str:
    """Extract the unmodified `HEAD` sources of `soupsieve`."""

    dest = os.path.join(tmp, 'head')
    os.mkdir(dest)
    archive = subprocess.run(['git', '-C', HERE, 'archive', 'HEAD', 'soupsieve'], capture_output=True, check=True)
    subprocess.run(['tar', '-x', '-C', dest], input=archive.stdout, check=True)
    return dest


def main() -> int:
    quick = '--quick' in sys.argv[1:]
    failures = []  # type: list[str]
    count = 0

    which = run(HERE, [], 'import soupsieve; print(soupsieve.__file__)')
    print('tree under test  :', which.stdout.strip())
    if os.path.realpath(which.stdout.strip()) != os.path.realpath(os.path.join(HERE, 'soupsieve', '__init__.py')):
        print('FAIL: the worktree copy is not the one imported')
        return 1

    forms = IMPORT_FORMS
    flag_sets = FLAG_SETS[:5] if quick else FLAG_SETS
    hide_sets = HIDE_SETS[:2] if quick else HIDE_SETS

    # 1. Bare children: the import form is the whole program; everything must be silent and succeed.
    for form, flags in itertools.product(forms, flag_sets):
        for extra in ([], ['-W', 'error']):
            if extra and '-W' in flags:
                continue
            count += 1
            proc = run(HERE, [*flags, *extra], form)
            if proc.returncode != 0 or proc.stdout or proc.stderr:
                failures.append(f'bare {flags + extra} {form!r}: rc={proc.returncode} out={proc.stdout!r} err={proc.stderr!r}')

    # Hidden optional packages for the bare children as well (through a sitecustomize-free preamble).
    hide_preamble = (
        "import sys, importlib.abc\n"
        "class H(importlib.abc.MetaPathFinder):\n"
        "    def find_spec(self, name, path=None, target=None):\n"
        "        if name.split('.')[0] in {hide!r}: raise ModuleNotFoundError(name, name=name)\n"
        "sys.meta_path.insert(0, H())\n"
    )
    for form, hide in itertools.product(forms, hide_sets[1:]):
        count += 1
        proc = run(HERE, ['-W', 'error'], hide_preamble.format(hide=tuple(hide)) + form)
        if proc.returncode != 0 or proc.stdout or proc.stderr:
            failures.append(f'bare hidden={hide} {form!r}: rc={proc.returncode} out={proc.stdout!r} err={proc.stderr!r}')

    # 2. Instrumented children, patched tree and pristine tree.
    with tempfile.TemporaryDirectory() as tmp:
        head = pristine_tree(tmp)
        reference = {}  # type: dict[tuple[str, ...], tuple[str, object]]

        def instrumented(tree: str, form: str, flags: list[str], hide: tuple[str, ...]) -> None:
            nonlocal count
            count += 1
            label = f'{"HEAD" if tree == head else "patched"} {flags} hidden={list(hide)} {form!r}'
            source = CHILD.replace('@@IMPORT@@', form).replace('@@HIDE@@', repr(tuple(hide)))
            proc = run(tree, flags, source)
            if proc.returncode != 0 or proc.stderr:
                failures.append(f'{label}: rc={proc.returncode} err={proc.stderr[-2000:]!r}')
                return
            try:
                data = json.loads(proc.stdout)
            except ValueError:
                failures.append(f'{label}: unexpected stdout {proc.stdout[:500]!r}')
                return
            for problem in data['problems']:
                failures.append(f'{label}: {problem}')
            if not data['results'].get('html.parser'):
                failures.append(f'{label}: empty workload')
            # Same answers in every import order and interpreter configuration (per set of visible parsers),
            # and html.parser answers identical across ALL configurations.
            for key, value in (((*hide, 'all'), data['results']), (('html.parser-only',), data['results']['html.parser']),
                               (('misc',), data['misc'])):
                if key not in reference:
                    reference[key] = (label, value)
                elif reference[key][1] != value:
                    failures.append(f'{label}: results differ from {reference[key][0]} for {key}')

        # The pristine sources go first so that they define the reference results.
        for hide in hide_sets:
            instrumented(head, 'import bs4', [], tuple(hide))
            instrumented(head, 'import soupsieve', ['-OO'], tuple(hide))
        for form, flags in itertools.product(forms, flag_sets):
            instrumented(HERE, form, flags, ())
        for form, hide in itertools.product(forms, hide_sets[1:]):
            instrumented(HERE, form, ['-W', 'error'], tuple(hide))

        sizes = {k: len(json.dumps(v[1])) for k, v in reference.items()}
        print('reference result sizes (bytes of JSON):', sizes)

    print(f'{count} fresh interpreters spawned')
    if failures:
        print(f'FAIL: {len(failures)} problem(s)')
        for failure in failures[:40]:
            print(' -', failure)
        return 1
    print('OK: all import forms silent, state preserved, both APIs agree, results identical to HEAD')
    return 0


if __name__ == '__main__':
    sys.exit(main())
