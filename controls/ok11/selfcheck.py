"""
Self check for the "performance and robustness" patch.

Usage: cd /tmp/wt_ok11 && PYTHONPATH=/tmp/wt_ok11 /venv/bin/python selfcheck.py

The driver extracts the unmodified sources (`git archive HEAD soupsieve`) to a temporary directory and then

1. runs the same deterministic corpus (compiles, queries, errors, warnings, DEBUG output, cache statistics) in two
   fresh interpreters, one importing the patched tree and one importing the unmodified sources, and compares
   the transcripts line by line,
2. stresses the patched tree with many threads,
3. injects an exception at every n-th function call of a compile / a select (`sys.settrace`, 'call' events) and
   checks that everything is consistent afterwards,
4. pickles in one process and loads in another one that runs with another `PYTHONHASHSEED` (all four combinations of
   patched / unmodified writer and reader),
5. imports the package in fresh interpreters in both orders and in every submodule form and checks that the
   import is silent and free of side effects,
6. checks the value semantics of the immutable types.

Everything but the driver is run with `--worker <name>` in a sub process.
"""
from __future__ import annotations
import sys
import os
import io
import json
import copy
import random
import pickle
import hashlib
import tempfile
import threading
import subprocess
import contextlib
import warnings

HERE = os.path.dirname(os.path.abspath(__file__))
PY = sys.executable

###############################################################################
# Documents
###############################################################################

HTML = """<!DOCTYPE html>
<html lang="en-US" dir="ltr">
<head>
<meta http-equiv="content-language" content="en-GB">
<title>Title</title>
</head>
<body id="body" class="main page">
<!-- comment -->
<div id="div" class="a b  c" data-x="1">
<p id="p1" class="a" lang="de-DE-1996">Text <span id="s1" CLASS="b">span one</span> and <span id="s2">two</span></p>
<p id="p2" lang="fr" dir="rtl">Deux <a id="a1" href="http://x.y/z">link</a> <a id="a2">nolink</a></p>
<p id="p3" dir="auto">&#x5d0;&#x5d1; text</p>
<p id="p4" lang="">empty lang</p>
<p id="p5"></p>
<p id="p6">   </p>
<pre id="pre" title="One two  three" data-Mixed="Yes">pre
text</pre>
<ul id="ul"><li id="l1">1</li><li id="l2" class="x">2</li><li id="l3">3</li><li id="l4" class="x">4</li><li id="l5">5</li>
<li id="l6" class="x y">6</li></ul>
<custom-el id="c1">x</custom-el><bdi id="bdi">&#x627;bc</bdi>
</div>
<form id="f1" action="#">
<input id="i0" type="hidden" name="h" value="1">
<input id="i1" type="text" name="t" placeholder="ph" value="">
<input id="i2" type="TEXT" placeholder="ph" value="v" required>
<input id="i3" type="checkbox" name="c" checked>
<input id="i4" type="checkbox" name="c" indeterminate>
<input id="r1" type="radio" name="g1">
<input id="r2" type="radio" name="g1">
<input id="r3" type="radio" name="g2" checked>
<input id="r4" type="radio" name="g2">
<input id="r5" type="radio">
<input id="r6" type="radio" name="">
<input id="n1" type="number" min="0" max="10" value="5">
<input id="n2" type="number" min="0" max="10" value="50">
<input id="n3" type="number" min="0" max="10" value="-1">
<input id="n4" type="range" min="1" value="0">
<input id="d1" type="date" min="1980-02-20" max="2004-08-14" value="1999-05-16">
<input id="d2" type="date" min="1980-02-20" max="2004-08-14" value="1979-02-20">
<input id="d3" type="month" min="1980-02" max="2004-08" value="2005-01">
<input id="d4" type="week" min="1980-W53" max="2004-W20" value="1999-W05">
<input id="d5" type="time" min="22:00" max="06:00" value="12:00">
<input id="d6" type="datetime-local" min="1980-02-20T01:30" max="2004-08-14T18:45" value="2030-01-01T00:00">
<input id="d7" type="date" min="bad" value="2000-13-45">
<input id="tel" type="tel" value="123" dir="auto">
<input id="em" type="email" dir="auto" value="&#x5d0;">
<textarea id="ta1" placeholder="x"></textarea>
<textarea id="ta2" placeholder="x" dir="auto">some</textarea>
<textarea id="ta3" readonly>ro</textarea>
<select id="sel" required><optgroup id="og" disabled><option id="o1">1</option></optgroup>
<option id="o2" selected>2</option><option id="o3" disabled>3</option></select>
<fieldset id="fs" disabled><legend id="lg"><input id="li" type="text"></legend><input id="fi" type="text">
<div><button id="fb">b</button></div></fieldset>
<button id="b0" type="button">no</button>
<button id="b1" type="submit">yes</button>
<input id="b2" type="submit">
<progress id="pr1"></progress><progress id="pr2" value="1"></progress>
<div id="ce1" contenteditable="">e</div><div id="ce2" contenteditable="TRUE">e</div>
</form>
<form id="f2"><input id="q1" type="radio" name="g1"><input id="q2" type="radio" name="g1" checked>
<span><input id="q3" type="SUBMIT"></span><button id="q4">implicit</button></form>
<input id="x1" type="radio" name="g1"><input id="x2" type="radio" name="g1">
<iframe id="if1"><html lang="ja" dir="rtl"><head><meta http-equiv="content-language" content="ko"></head>
<body id="ib"><p id="ip1">inner <span id="is1">text</span></p><form id="if"><input id="ir1" type="radio" name="g1">
<button id="ibt" type="submit">s</button></form></body></html></iframe>
<div id="after"><p id="ap" class="a">after <b id="ab">bold</b></p><p id="aq" class="a">after <b id="ac">bold</b></p></div>
<div id="twin1"><form><input type="radio" name="z"><input type="radio" name="z"><p lang="x-y">t</p>
<button type="submit">a</button><button type="submit">b</button></form></div>
<div id="twin2"><form><input type="radio" name="z"><input type="radio" name="z"><p lang="x-y">t</p>
<button type="submit">a</button><button type="submit">b</button></form></div>
<math id="m"><mi id="mi">x</mi></math><svg id="svg"><a id="sa" href="#">svg link</a></svg>
</body>
</html>
"""

XML = """<?xml version="1.0" encoding="UTF-8"?>
<root xmlns="http://default.ns" xmlns:a="http://a.ns" xmlns:b="http://b.ns" xml:lang="en" id="root">
<!-- comment --><?pi data?>
<a:item id="1" a:attr="A" b:attr="B" type="Radio" Name="N">text <![CDATA[cdata]]></a:item>
<b:item id="2" xml:lang="de-CH" type="radio" name="n">zwei</b:item>
<item id="3" class="x y" CLASS="z"><sub id="4"/><Sub id="5">S</Sub><sub id="6" xml:lang=""/></item>
<item id="7"><input type="radio" name="g"/><input type="radio" name="g" checked=""/><input type="Radio" name="g"/></item>
<iframe id="8"><p id="9">not html</p></iframe>
<h:html xmlns:h="http://www.w3.org/1999/xhtml" id="10"><h:body><h:p id="11" lang="fr" class="k">p</h:p>
<h:input id="12" type="checkbox" checked="checked"/><h:iframe id="13"><h:p id="14">x</h:p></h:iframe></h:body></h:html>
</root>
"""

XHTML = """<?xml version="1.0" encoding="UTF-8"?>
<!DOCTYPE html PUBLIC "-//W3C//DTD XHTML 1.1//EN" "http://www.w3.org/TR/xhtml11/DTD/xhtml11.dtd">
<html xmlns="http://www.w3.org/1999/xhtml" xml:lang="en" lang="en">
<head><meta http-equiv="content-language" content="en-AU"/><title>t</title></head>
<body><div id="d" class="A b"><p id="p" xml:lang="de">P</p><P id="P2">upper</P>
<form id="f"><input id="r1" type="radio" name="n"/><input id="r2" type="RADIO" name="n" checked="checked"/>
<input id="s" type="submit"/></form><custom-x id="cx"/><svg xmlns="http://www.w3.org/2000/svg" id="svg"><a id="sa"/></svg>
</div></body></html>
"""

NAMESPACES = {'': 'http://default.ns', 'a': 'http://a.ns', 'b': 'http://b.ns', 'h': 'http://www.w3.org/1999/xhtml',
              'html': 'http://www.w3.org/1999/xhtml', 'svg': 'http://www.w3.org/2000/svg', 'X': 'http://a.ns'}

CUSTOM = {
    ':--para': 'p:is(.a, #p2)',
    ':--PARA-span': ':--para > span',
    ':--form-stuff': ':is(:default, :indeterminate, :checked):not(:disabled)',
    ':--nested': ':--para-span, :--form-stuff, li:nth-child(2n of .x)',
    ':--esc\\:aped': 'a[href]'
}

SELECTORS = [
    '*', 'p', 'P', 'div p', 'div > p', 'p + p', 'p ~ p', 'p, span', '#p1', '#P1', '.a', '.A', '.a.b', 'p.a#p1',
    '[id]', '[ID]', '[id=p1]', '[id="p1"]', "[id='p1' i]", '[id=P1 s]', '[id!=p1]', '[class~=b]', '[class~="a b"]',
    '[class~=""]', '[class|=a]', '[lang|=de]', '[id^=p]', '[id$="1"]', '[id*=a]', '[title*="two  "]', '[type=text]',
    '[type="TEXT"]', '[type=text s]', '[data-mixed]', '[data-Mixed=yes i]', '[href]', '[a|attr]', '[*|attr]',
    '[|attr]', '[b|attr=B]', '[xml|lang]', '[xml\\:lang]', 'a|item', 'b|*', '*|item', '|item', 'X|item', 'h|p',
    'nope|p', '*|*', 'item', 'Sub', 'sub', 'html|p', 'svg|a', 'html|*:is(a, area)[href]',
    ':root', ':root > body', ':root:empty', ':empty', ':scope', ':scope > *', ':scope > div p', '& > div', ':defined',
    'custom-el:defined', ':not(:defined)', ':first-child', ':last-child', ':only-child', ':first-of-type',
    ':last-of-type', ':only-of-type', 'li:nth-child(2)', 'li:nth-child(2n+1)', 'li:nth-child(-n+3)',
    'li:nth-child(even)', 'li:nth-child(ODD)', 'li:nth-last-child(2)', 'li:nth-child(2 of .x)',
    'li:nth-last-child(-2n+3 of .x, #l1)', 'li:nth-of-type(3n)', 'li:nth-last-of-type(n+2)', ':nth-child(0n+1)',
    ':nth-child(n)', ':nth-child(-n)', ':nth-child(10n-1)', ':nth-child( 2n + 1 )', ':NTH-CHILD(2N+1 OF P)',
    'p:nth-of-type(2):nth-last-of-type(5)', ':nth-child(2):lang(de, fr)', 'p:lang(de)', 'p:lang("de-DE")',
    ':lang("*-1996")', ':lang(en)', ':lang(en-GB)', ':lang(ja)', ':lang(ko)', ':lang("")', ':lang(x)', ':lang("*")',
    ':lang(de-CH, en-AU)', 'p:lang(fr):dir(rtl)', ':dir(ltr)', ':dir(rtl)', ':DIR(LTR)', 'input:dir(ltr)',
    'textarea:dir(ltr)', 'bdi:dir(rtl)', ':dir(ltr):dir(rtl)', ':is(p, span)', ':is()', ':is(, p)', ':is(p, )',
    ':where(p > span, li)', ':matches(p)', ':not(p)', ':not(p, span, div)', ':not()', 'p:not(.a):not(#p2)',
    ':has(> span)', ':has(+ p)', ':has(~ ul)', ':has(span, a)', 'div:has(> p:has(> a[href]))', ':has(:scope)',
    'p:has(+ p:has(+ p))', ':not(:has(*))', ':-soup-contains("span")', ':-soup-contains(two, link)',
    ':-soup-contains-own("Text")', 'p:-soup-contains("inner")', ':contains(link)', 'body:-soup-contains("inner")',
    ':link', ':any-link', ':checked', ':default', ':indeterminate', ':disabled', ':enabled', ':required',
    ':optional', ':read-only', ':read-write', ':in-range', ':out-of-range', ':placeholder-shown',
    'form :default', ':default:indeterminate', ':indeterminate, :default, :lang(en)',
    ':lang(en):default, :indeterminate', 'input:indeterminate:not(:default)', ':is(:default, :lang(ko))',
    ':not(:indeterminate):is(input)', 'form:has(:indeterminate) :default', ':checked + :indeterminate',
    ':active', ':focus', ':hover', ':visited', ':target', ':current', ':current(p)', ':host', ':host(p)',
    ':host-context(p)', ':past', ':future', ':paused', ':playing', ':local-link', ':focus-within', ':focus-visible',
    ':target-within', ':user-invalid', 'p:not(:hover)', ':is(:hover, p)',
    'iframe p', 'iframe > html', 'body p', 'iframe :root', ':root p', 'iframe body :default', 'iframe :lang(ja)',
    'iframe form :indeterminate', 'div /* c */ > /* d */ p', '\n  p\t,\r\nspan\f', 'p\\31 ', '#\\70 1', '.\\61',
    '\\70', '[id=\\70\\31 ]', 'p/**/.a', 'p:--para', ':--para', ':--para-span', ':--PARA-SPAN', ':--form-stuff',
    ':--nested', ':--esc\\:aped', 'div:--nested', ':--undefined', ':not(:--para)',
    # invalid
    '', ' ', ',', 'p,', ',p', 'p,,span', '>', 'p >', '> p', 'p > > span', 'p + ~ span', '[', '[id', '[id=]', '[=x]',
    '[id=a b]', '[id="a]', '.', '.1', '#', '#1a', ':', '::', '::before', 'p::first-line', ':nope', ':nope(x)',
    ':nth-child', ':nth-child()', ':nth-child(a)', ':nth-child(2n+)', ':nth-child(2 of)', ':nth-of-type(2 of p)',
    ':lang()', ':lang', ':dir(up)', ':dir()', ':is(', ':is(p', ':not(p))', ')', 'p)', ':has()', ':has(>)',
    ':has(> )', ':has(p >)', ':-soup-contains()', ':-soup-contains(', ':root()', ':first-child(2)', ':not',
    ':checked()', '@page', '@media p', 'p $ a', 'p!', '*p', 'p*', 'a||b', 'p|', '|', 'a|b|c', '&&', 'p & span',
    ':is(p,, span)', ':has(, p)', ':not(,)', ':where(>p)', 'p:is(.a', ':--', ':--para(', 'p\x00q', '\x00', '\\',
    'p\\', '"p"', "p'", '/* only comment */', 'p /* unterminated', '-', '--', '-p', '--p', '-1', 'p -1',
]

INVALID_CUSTOM = [
    {':--a': ':--a'},
    {':--a': ':--b', ':--b': ':--a'},
    {':--a': 'p', ':--A': 'span'},
    {'--a': 'p'},
    {':-a': 'p'},
    {':--a b': 'p'},
    {':--a': 'p >'},
    {':--a': ':nope', ':--b': 'p'},
    {':--a': ''},
    {':--a': 5},
    {5: 'p'},
    {':--a': ':--b', ':--b': 'p:is('},
]

ODD_VALUES = [
    None, '', 5, 5.5, True, b'bytes', b'\xff', ['a', 'b'], ('a', 'b'), [], [1, 2], [['x', 'y'], 'z'], [b'q', None],
    {'k': 'v'}, {'s'}, range(3), object, Ellipsis,
]


def element_path(el):
    """A stable name of an element: index path from the top, the name and the `id`."""

    if el is None:
        return None
    parts = []
    node = el
    while node.parent is not None:
        parts.append(str(node.parent.contents.index(node) if any(c is node for c in node.parent.contents) else '?'))
        node = node.parent
    return f"{'/'.join(reversed(parts))}:{el.name}#{el.attrs.get('id')!r}"


def identity_path(el):
    """Like `element_path`, but finds the index by identity (equal twins have different paths)."""

    if el is None:
        return None
    parts = []
    node = el
    while node.parent is not None:
        idx = '?'
        for i, c in enumerate(node.parent.contents):
            if c is node:
                idx = str(i)
                break
        parts.append(idx)
        node = node.parent
    return f"{'/'.join(reversed(parts))}:{el.name}#{el.attrs.get('id')!r}"


def snapshot(soup):
    """Everything about a tree that a query could have changed."""

    import bs4
    out = []

    def walk(node, depth):
        if isinstance(node, bs4.Tag):
            out.append((depth, 'T', node.name, node.prefix, node.namespace, repr(list(node.attrs.items())),
                        len(node.contents), id(node.parent)))
            for c in node.contents:
                walk(c, depth + 1)
        else:
            out.append((depth, type(node).__name__, str(node), id(node.parent)))
    walk(soup, 0)
    return out


def make_docs():
    """Build the documents (fresh objects on every call)."""

    import bs4
    warnings.filterwarnings('ignore', category=bs4.XMLParsedAsHTMLWarning)
    docs = {}
    docs['html.parser'] = bs4.BeautifulSoup(HTML, 'html.parser')
    docs['lxml'] = bs4.BeautifulSoup(HTML, 'lxml')
    docs['html5lib'] = bs4.BeautifulSoup(HTML, 'html5lib')
    docs['xml'] = bs4.BeautifulSoup(XML, 'xml')
    docs['xhtml-xml'] = bs4.BeautifulSoup(XHTML, 'xml')
    docs['xhtml-html5lib'] = bs4.BeautifulSoup(XHTML, 'html5lib')
    docs['xhtml-lxml'] = bs4.BeautifulSoup(XHTML, 'lxml')

    # Detached fragments
    s = bs4.BeautifulSoup(HTML, 'html.parser')
    docs['detached-form'] = s.find(id='f1').extract()
    s = bs4.BeautifulSoup(HTML, 'html.parser')
    docs['detached-copy'] = copy.copy(s.find(id='div'))
    s = bs4.BeautifulSoup(HTML, 'html5lib')
    docs['detached-iframe'] = s.find(id='if1').extract()
    s = bs4.BeautifulSoup(XML, 'xml')
    docs['detached-xml'] = s.find(id='3').extract()
    s = bs4.BeautifulSoup('', 'html.parser')
    t = s.new_tag('p', id='new', **{'class': 'a'})
    t.string = 'new tag'
    docs['new-tag'] = t
    docs['empty-doc'] = bs4.BeautifulSoup('', 'html.parser')
    docs['text-only'] = bs4.BeautifulSoup('just text', 'html.parser')
    docs['multi-root'] = bs4.BeautifulSoup('<p id="a">a</p>text<p id="b">b</p>', 'html.parser')

    # Odd attribute types
    s = bs4.BeautifulSoup(HTML, 'html.parser')
    rnd = random.Random(7)
    tags = s.find_all(True)
    for i, t in enumerate(tags):
        if i % 3 == 0:
            name = rnd.choice(['class', 'id', 'lang', 'dir', 'type', 'name', 'value', 'data-x', 'href', 'min',
                               'placeholder', 'checked', 'CLASS', 'Type', 'title'])
            t.attrs[name] = rnd.choice(ODD_VALUES)
    docs['odd-attrs'] = s
    return docs


###############################################################################
# Worker: corpus
###############################################################################

class Transcript:
    """Collect lines."""

    def __init__(self):
        self.lines = []

    def add(self, *args):
        self.lines.append(' | '.join(str(a) for a in args))


def outcome(fn, render=repr):
    """Run and describe the outcome: the result, or the exception, plus the warnings and what was printed."""

    buf = io.StringIO()
    with warnings.catch_warnings(record=True) as w:
        warnings.simplefilter('always')
        with contextlib.redirect_stdout(buf):
            try:
                res = ('ok', render(fn()))
            except RecursionError:
                res = ('exc', 'RecursionError')
            except Exception as e:  # noqa: BLE001
                res = ('exc', type(e).__name__, str(e), repr(getattr(e, 'line', None)), repr(getattr(e, 'col', None)),
                       repr(getattr(e, 'context', None)))
    ws = [(x.category.__name__, str(x.message)) for x in w]
    return repr((res, ws, hashlib.sha1(buf.getvalue().encode('utf8', 'surrogatepass')).hexdigest(), len(buf.getvalue())))


def render_compiled(c):
    """Describe a compiled object in full."""

    return repr((repr(c), repr(c.selectors), repr(c.namespaces), repr(c.custom), c.flags, c.pattern))


def guarded_pretty(obj):
    """
    Pretty print, but only what `pretty` can tokenize.

    `pretty` (before and after the patch) never returns when it meets text that none of its tokens matches, `-1` or
    `re.I|re.S` for instance, so the same walk is done here first, with the module's own table.
    """

    tokens = sys.modules['soupsieve.pretty'].TOKENS
    text = str(obj)
    index = 0
    while index < len(text):
        for v in tokens.values():
            m = v.match(text, index)
            if m:
                index = m.end(0)
                break
        else:
            return 'skipped'
    obj.pretty()
    return 'printed'


def copyreg_reduce(o):
    """What `pickle` does with the object."""

    import copyreg
    return copyreg.dispatch_table[type(o)](o)


def worker_corpus():
    """Deterministic corpus."""

    import soupsieve as sv
    import bs4
    from soupsieve import css_parser as cp, css_types as ct, css_match as cm, util

    t = Transcript()
    t.add('VERSION', sv.__version__, sv.__version_info__, sorted(sv.__all__))
    rnd = random.Random(20240229)
    docs = make_docs()
    before = {k: snapshot(v) for k, v in docs.items()}

    def paths(res):
        if isinstance(res, (list, bs4.ResultSet)):
            return [identity_path(e) for e in res]
        if isinstance(res, bs4.Tag):
            return identity_path(res)
        return res

    # 1. Compile everything, plain, with namespaces, with custom, with DEBUG
    sv.purge()
    for sel in SELECTORS:
        t.add('C', repr(sel), outcome(lambda: sv.compile(sel), render_compiled))
        t.add('Cn', repr(sel), outcome(lambda: sv.compile(sel, NAMESPACES), render_compiled))
        t.add('Cc', repr(sel), outcome(lambda: sv.compile(sel, custom=CUSTOM), render_compiled))
        t.add('Cd', repr(sel), outcome(lambda: sv.compile(sel, NAMESPACES, sv.DEBUG, custom=CUSTOM), render_compiled))
        t.add('Cp', repr(sel), outcome(lambda: guarded_pretty(sv.compile(sel, custom=CUSTOM).selectors)))
    t.add('INFO1', sv.cp._cached_css_compile.cache_info())
    for cus in INVALID_CUSTOM:
        for sel in (':--a', ':--b', 'p', ':is(:--a, :--b)'):
            t.add('Ci', repr(sel), repr(cus), outcome(lambda: sv.compile(sel, custom=cus), render_compiled))
    for ns in ({'a': 5}, {5: 'a'}, [('a', 'b')], [('a', 5)], 'ab', 5, {}, {'a': ['x']}, (('a', 'b'),)):
        t.add('Cbadns', repr(ns), outcome(lambda: sv.compile('a|p', ns), render_compiled))
        t.add('Cbadcs', repr(ns), outcome(lambda: sv.compile('p', custom=ns), render_compiled))
    for pat in (None, 5, b'p', ['p'], ('p',), object()):
        t.add('Cbadpat', type(pat).__name__, outcome(lambda: sv.compile(pat), render_compiled))
    for fl in (0, 1, 2, -1, True, 1.0, None, 'x'):
        t.add('Cflag', repr(fl), outcome(lambda: sv.compile('p:is(a)', None, fl), render_compiled))
        t.add('Cflagk', repr(fl), outcome(lambda: sv.compile(pattern='p', flags=fl), render_compiled))

    # 2. compile(compiled, ...)
    c = sv.compile('p.a', NAMESPACES, custom=CUSTOM)
    t.add('CC', outcome(lambda: sv.compile(c) is c))
    for args, kw in (((None,), {}), ((None, 0), {}), (({},), {}), ((None, 0), {'custom': {}}), ((None, 1), {}),
                     ((NAMESPACES,), {}), ((), {'custom': CUSTOM}), ((), {'custom': None}), ((), {'flags': 0}),
                     ((), {'namespaces': {}}), ((), {'bogus': 1}), ((None, 0, 1), {}), ((), {'flags': sv.DEBUG})):
        t.add('CCx', repr(args), repr(kw), outcome(lambda: sv.compile(c, *args, **kw) is c))
    t.add('CCsel', outcome(lambda: paths(sv.select(c, docs['html.parser']))))
    t.add('CCsel2', outcome(lambda: paths(sv.select(c, docs['html.parser'], NAMESPACES))))
    t.add('CCsel3', outcome(lambda: paths(sv.select(c, docs['html.parser'], custom={}))))
    t.add('CCsel4', outcome(lambda: paths(docs['html.parser'].select(c))))
    t.add('CCsel5', outcome(lambda: paths(docs['html.parser'].select(c, {}))))
    t.add('CCsel6', outcome(lambda: paths(docs['html.parser'].css.select(c, flags=1))))

    # 3. Queries, every call shape
    for dname, doc in docs.items():
        tags = [doc] + (doc.find_all(True) if isinstance(doc, bs4.Tag) else [])
        for sel in SELECTORS:
            ns = NAMESPACES if rnd.random() < 0.5 else None
            scope = rnd.choice(tags)
            sp = identity_path(scope)
            t.add('S', dname, repr(sel), outcome(lambda: paths(sv.select(sel, doc))))
            t.add('Sn', dname, repr(sel), ns is None, outcome(lambda: paths(sv.select(sel, doc, ns))))
            k = rnd.randrange(9)
            if k == 0:
                t.add('Sl', dname, sp, outcome(lambda: paths(sv.select(sel, scope, ns, 2))))
                t.add('Slk', dname, sp, outcome(lambda: paths(sv.select(sel, scope, namespaces=ns, limit=2, flags=0))))
                t.add('Slb', dname, sp, outcome(lambda: paths(scope.select(sel, ns, 2))))
                t.add('Slbk', dname, sp, outcome(lambda: paths(scope.select(sel, namespaces=ns, limit=2, flags=0))))
                t.add('Slc', dname, sp, outcome(lambda: paths(scope.css.select(sel, ns, 2, 0))))
            elif k == 1:
                t.add('S1', dname, sp, outcome(lambda: paths(sv.select_one(sel, scope, ns))))
                t.add('S1k', dname, sp, outcome(lambda: paths(sv.select_one(select=sel, tag=scope, namespaces=ns))))
                t.add('S1b', dname, sp, outcome(lambda: paths(scope.select_one(sel, ns))))
                t.add('S1c', dname, sp, outcome(lambda: paths(scope.css.select_one(sel, ns, 0))))
            elif k == 2:
                t.add('M', dname, sp, outcome(lambda: sv.match(sel, scope, ns)))
                t.add('Mk', dname, sp, outcome(lambda: sv.match(sel, scope, namespaces=ns, flags=0)))
                t.add('Mc', dname, sp, outcome(lambda: scope.css.match(sel, ns)))
                t.add('Mo', dname, sp, outcome(lambda: sv.compile(sel, ns).match(scope)))
            elif k == 3:
                t.add('K', dname, sp, outcome(lambda: paths(sv.closest(sel, scope, ns))))
                t.add('Kc', dname, sp, outcome(lambda: paths(scope.css.closest(sel, ns))))
                t.add('Ko', dname, sp, outcome(lambda: paths(sv.compile(sel, ns).closest(scope))))
            elif k == 4:
                t.add('F', dname, sp, outcome(lambda: paths(sv.filter(sel, scope, ns))))
                t.add('Fl', dname, sp, outcome(lambda: paths(sv.filter(sel, list(scope.contents), ns))))
                t.add('Fc', dname, sp, outcome(lambda: paths(scope.css.filter(sel, ns))))
                t.add('Fi', dname, sp, outcome(lambda: paths(sv.filter(sel, iter(tags[:20]), ns))))
            elif k == 5:
                t.add('I', dname, sp, outcome(lambda: paths(list(sv.iselect(sel, scope, ns, 3)))))
                t.add('Ik', dname, sp, outcome(lambda: paths(list(sv.iselect(sel, scope, limit=3, namespaces=ns)))))
                t.add('Ic', dname, sp, outcome(lambda: paths(list(scope.css.iselect(sel, ns, 3)))))
                t.add('Io', dname, sp, outcome(lambda: paths(list(sv.compile(sel, ns).iselect(scope, limit=3)))))
            elif k == 6:
                cc = outcome(lambda: paths(sv.compile(sel, ns, custom=CUSTOM).select(scope)))
                t.add('Sc', dname, sp, cc)
                t.add('Scq', dname, sp, outcome(lambda: paths(sv.select(sel, scope, ns, custom=CUSTOM))))
                t.add('Scc', dname, sp, outcome(lambda: paths(scope.css.compile(sel, ns, custom=CUSTOM).select(scope))))
            elif k == 7:
                t.add('Sneg', dname, sp, outcome(lambda: paths(sv.select(sel, scope, ns, -1))))
                t.add('Sd', dname, sp, outcome(lambda: paths(sv.select(sel, scope, ns, 0, sv.DEBUG))))
            else:
                o = outcome(lambda: paths(sv.compile(sel, ns).select(scope, limit=1)))
                t.add('So', dname, sp, o)
                t.add('So1', dname, sp, outcome(lambda: paths(sv.compile(sel, ns).select_one(scope))))
                t.add('Sof', dname, sp, outcome(lambda: paths(sv.compile(sel, ns).filter(scope))))

    # 4. Bad targets
    for target in (None, 5, 'p', docs['html.parser'].find(id='p1').string, [docs['html.parser']], object()):
        t.add('T', type(target).__name__, outcome(lambda: sv.select('p', target)))
        t.add('Tm', type(target).__name__, outcome(lambda: sv.match('p', target)))
        t.add('Tf', type(target).__name__, outcome(lambda: sv.filter('p', target)))
        t.add('Tc', type(target).__name__, outcome(lambda: sv.closest('p', target)))
        t.add('Ti', type(target).__name__, outcome(lambda: list(sv.iselect('p', target))))
    t.add('Targ', outcome(lambda: sv.select('p')))
    t.add('Targ2', outcome(lambda: sv.select('p', docs['html.parser'], None, 0, 0, 0)))
    t.add('Targ3', outcome(lambda: paths(sv.select('p', docs['new-tag'], bogus=1))))

    # 5. Order independence / identical subtrees in one call
    doc = docs['html.parser']
    for sel in (':indeterminate', ':default', ':lang(x-y)', ':indeterminate, :default', ':default, :indeterminate',
                ':is(:lang(x-y), :default):not(:indeterminate)', 'form :is(:indeterminate, :default)'):
        r1 = paths(sv.select(sel, doc.find(id='twin1')))
        r2 = paths(sv.select(sel, doc.find(id='twin2')))
        whole = paths(sv.select(sel, doc))
        t.add('TW', repr(sel), r1, r2, whole)
        c = sv.compile(sel)
        els = doc.find_all(True)
        fwd = [identity_path(e) for e in els if c.match(e)]
        bwd = [identity_path(e) for e in reversed(els) if c.match(e)]
        shuffled = list(els)
        rnd.shuffle(shuffled)
        shf = sorted(identity_path(e) for e in c.filter(shuffled))
        t.add('ORD', repr(sel), fwd == list(reversed(bwd)), sorted(fwd) == shf, whole == fwd, fwd)

    # 6. Escape
    for s in ('', '-', '--', '-a', '1a', '-1a', 'a b', 'a\x00b', '\x01\x7f', 'é', 'a.b#c:d', '\U0001F600', ' ', '0'):
        t.add('E', repr(s), outcome(lambda: sv.escape(s)), outcome(lambda: docs['html.parser'].css.escape(s)))
    t.add('Ebad', outcome(lambda: sv.escape(None)), outcome(lambda: sv.escape(5)), outcome(lambda: sv.escape(b'a')))

    # 7. `util.lower` and friends
    strs = ['', 'ABC', 'aBc', 'ÀÉ', 'İ', 'ß', 'K', 'Z[', '@A', '\x00A', 'A' * 100, 'a\ud800B', '\U0001F600X']
    for s in strs:
        t.add('L', repr(s), outcome(lambda: util.lower(s)))
    from bs4.element import NamespacedAttribute
    na = NamespacedAttribute('XML', 'LANG', 'http://x')
    t.add('Lna', outcome(lambda: (util.lower(na), type(util.lower(na)).__name__)))
    for bad in (None, 5, b'AB', ('A',), ['A'], 1.5, object):
        t.add('Lbad', repr(bad), outcome(lambda: util.lower(bad)))
    for i in range(600):
        util.lower('K%d' % i)
    t.add('Linfo', util.lower.cache_info().maxsize, util.lower.cache_info().currsize)

    # 8. Cache statistics
    sv.purge()
    t.add('P0', sv.cp._cached_css_compile.cache_info())
    for i in range(700):
        sv.compile('p.c%d' % (i % 600))
    t.add('P1', sv.cp._cached_css_compile.cache_info())
    for i in range(50):
        try:
            sv.compile('p.c%d >' % i)
        except sv.SelectorSyntaxError:
            pass
    t.add('P2', sv.cp._cached_css_compile.cache_info())
    a = sv.compile('p.same', {'a': 'b'}, custom={':--x': 'p'})
    b = sv.compile('p.same', {'a': 'b'}, custom={':--x': 'p'})
    c2 = sv.compile('p.same', {'a': 'b'}, 0, custom={':--x': 'p'})
    d = sv.compile('p.same', {'a': 'c'}, custom={':--x': 'p'})
    t.add('P3', a is b, a is c2, a is d, a == d, a == b, hash(a) == hash(b), sv.cp._cached_css_compile.cache_info())
    sv.purge()
    t.add('P4', sv.cp._cached_css_compile.cache_info(), sv.compile('p.same', {'a': 'b'}, custom={':--x': 'p'}) is a,
          sv.compile('p.same', {'a': 'b'}, custom={':--x': 'p'}) == a)
    t.add('P5', type(sv.cp._cached_css_compile).__name__, sv.cp._cached_css_compile.cache_parameters(), sv.cp._MAXCACHE)

    # 9. Direct use of the parser with a custom map (success paths only, failure paths are in `values`)
    cust = cp.process_custom(ct.CustomSelectors(CUSTOM))
    t.add('PC', list(cust))
    res = cp.CSSParser(':--nested', custom=cust).process_selectors()
    t.add('PC2', repr(res), [(k, type(v).__name__) for k, v in cust.items()])

    # 9b. Value semantics that must be what they were
    import weakref
    maps = [
        lambda: ct.ImmutableDict({'a': 1, 'b': (1, 2)}), lambda: ct.ImmutableDict([('a', 1), ('b', None)]),
        lambda: ct.ImmutableDict({}), lambda: ct.ImmutableDict({'a': []}), lambda: ct.ImmutableDict([('a', [])]),
        lambda: ct.ImmutableDict({1: 'x', 'a': 'y'}), lambda: ct.ImmutableDict(iter([('k', 'v')])),
        lambda: ct.ImmutableDict(5), lambda: ct.ImmutableDict([1]), lambda: ct.ImmutableDict(),
        lambda: ct.Namespaces({'a': 'b', '': 'c'}), lambda: ct.Namespaces({}), lambda: ct.Namespaces({'a': 1}),
        lambda: ct.Namespaces([('a', 'b')]), lambda: ct.Namespaces([('a', 1)]), lambda: ct.Namespaces({1: 'a'}),
        lambda: ct.CustomSelectors({':--a': 'p'}), lambda: ct.CustomSelectors({':--a': None}),
        lambda: ct.CustomSelectors([(':--a', b'p')]), lambda: ct.Namespaces(ct.Namespaces({'ab': 'c'})),
        lambda: ct.Namespaces(ct.ImmutableDict({'a': 'b'})), lambda: ct.CustomSelectors(a='b'),
    ]
    for i, mk in enumerate(maps):
        def describe():
            m = mk()
            w = weakref.ref(m)
            return (
                type(m).__name__, repr(m), str(m), len(m), list(m), list(m.items()), m == mk(), hash(m) == hash(mk()),
                m == dict(m), dict(m) == m, m != mk(), 'a' in m, m.get('a'), m.get('zz', 7), w() is m,
                repr(copy.copy(m)), copy.copy(m) == m, copy.deepcopy(m) == m, type(copy.copy(m)).__name__,
                [pickle.loads(pickle.dumps(m, pr)) == m for pr in range(pickle.HIGHEST_PROTOCOL + 1)],
                [type(pickle.loads(pickle.dumps(m, pr))).__name__ for pr in range(pickle.HIGHEST_PROTOCOL + 1)],
                m.__reduce__()[0].__name__, repr(m.__reduce__()[1]), isinstance(m, ct.ImmutableDict),
                ct.Namespaces({'a': 'b'}) == ct.CustomSelectors({'a': 'b'}), sorted(m.keys(), key=repr),
                list(m.values()), repr(m._d), isinstance(m._hash, int)
            )
        t.add('V', i, outcome(describe))
    c = sv.compile('a|p:--x > b:nth-child(2):lang(de):-soup-contains(q)', {'a': 'n'}, custom={':--x': 'i'})

    def walk(o, seen):
        if isinstance(o, ct.Immutable):
            seen.append(o)
            for sname in o.__slots__[:-1]:
                walk(getattr(o, sname), seen)
        elif isinstance(o, tuple):
            for x in o:
                walk(x, seen)
        return seen

    for o in walk(c, []):
        def describe():
            out = [type(o).__name__, o.__slots__, hasattr(o, '__dict__')]
            for name, fn in (
                ('set', lambda: setattr(o, o.__slots__[0], 1)), ('setnew', lambda: setattr(o, 'zzz', 1)),
                ('del', lambda: delattr(o, o.__slots__[0])), ('delhash', lambda: delattr(o, '_hash')),
                ('sethash', lambda: setattr(o, '_hash', 1)), ('weak', lambda: weakref.ref(o)),
            ):
                try:
                    fn()
                    out.append((name, 'ok'))
                except Exception as e:  # noqa: BLE001
                    out.append((name, type(e).__name__, str(e)))
            cp2 = [pickle.loads(pickle.dumps(o, pr)) for pr in range(pickle.HIGHEST_PROTOCOL + 1)]
            out.append([x == o and hash(x) == hash(o) and type(x) is type(o) and repr(x) == repr(o) for x in cp2])
            out.append((copy.copy(o) == o, copy.deepcopy(o) == o, o == o, o != o, o == 5, o != 5))
            red = copyreg_reduce(o)
            out.append((red[0].__name__, repr(red[1])))
            return out
        t.add('VI', outcome(describe))
    t.add('VS', outcome(lambda: (sv.SoupSieve.__slots__, sv.SoupSieve.__mro__[1].__name__, ct.Immutable.__slots__)))

    # 10. Nothing was modified
    for k, v in docs.items():
        t.add('UNCHANGED', k, snapshot(v) == before[k])

    # 11. Module surface (the driver checks that no name went away)
    names = []
    for mod in (sv, cp, ct, cm, util, sys.modules['soupsieve.pretty'], sys.modules['soupsieve.__meta__']):
        names.extend(f'{mod.__name__}.{n}' for n in vars(mod) if not n.startswith('__'))
        for cn, cls in vars(mod).items():
            if isinstance(cls, type) and cls.__module__ == mod.__name__:
                names.extend(f'{mod.__name__}.{cn}.{n}' for n in vars(cls) if not n.startswith('__'))
    import inspect
    for fn in (sv.compile, sv.purge, sv.closest, sv.match, sv.filter, sv.select_one, sv.select, sv.iselect, sv.escape,
               sv.SoupSieve.match, sv.SoupSieve.closest, sv.SoupSieve.filter, sv.SoupSieve.select_one,
               sv.SoupSieve.select, sv.SoupSieve.iselect, sv.SoupSieve.__init__, cm.CSSMatch.__init__,
               cp.CSSParser.__init__, cp.CSSParser.process_selectors, cp.process_custom, cp.css_unescape,
               ct.ImmutableDict.__init__, ct.Namespaces.__init__, ct.CustomSelectors.__init__):
        t.add('SIG', fn.__qualname__, str(inspect.signature(fn)))

    sys.stdout.write(json.dumps({'file': sv.__file__, 'lines': t.lines, 'names': sorted(names)}))


###############################################################################
# Worker: threads
###############################################################################

def worker_threads():
    """Many threads compile, purge and query at once; every answer must be the single threaded one."""

    import soupsieve as sv
    import bs4

    sys.setswitchinterval(1e-6)
    sels = [s for s in SELECTORS if 'contains(' not in s or '-soup-' in s]
    shared = bs4.BeautifulSoup(HTML, 'html.parser')
    shared_xml = bs4.BeautifulSoup(XML, 'xml')

    def answer(sel, doc, ns, custom):
        try:
            c = sv.compile(sel, ns, custom=custom)
            return ('ok', repr(c.selectors), [identity_path(e) for e in c.select(doc)])
        except Exception as e:  # noqa: BLE001
            return ('exc', type(e).__name__, str(e))

    with warnings.catch_warnings():
        warnings.simplefilter('ignore')
        expected = {}
        for sel in sels:
            expected[sel] = (
                answer(sel, shared, None, None), answer(sel, shared, NAMESPACES, CUSTOM),
                answer(sel, shared_xml, NAMESPACES, None)
            )

        errors = []
        counts = [0]
        start = threading.Barrier(13)

        def run(seed):
            rnd = random.Random(seed)
            own = bs4.BeautifulSoup(HTML, 'html.parser') if seed % 2 else shared
            start.wait()
            try:
                for i in range(400):
                    sel = rnd.choice(sels)
                    k = rnd.randrange(3)
                    if k == 0:
                        got = answer(sel, own, None, None)
                    elif k == 1:
                        got = answer(sel, own, dict(NAMESPACES), dict(CUSTOM))
                    else:
                        got = answer(sel, shared_xml, dict(NAMESPACES), None)
                    if got != expected[sel][k]:
                        errors.append((sel, k, got, expected[sel][k]))
                    if rnd.random() < 0.02:
                        sv.purge()
                    counts[0] += 1
            except BaseException as e:  # noqa: BLE001
                errors.append(('thread died', repr(e)))

        def purger():
            start.wait()
            for i in range(300):
                sv.purge()
                info = sv.cp._cached_css_compile.cache_info()
                if not (0 <= info.currsize <= info.maxsize == 500):
                    errors.append(('cache info', info))

        threads = [threading.Thread(target=run, args=(i,)) for i in range(12)] + [threading.Thread(target=purger)]
        for th in threads:
            th.start()
        for th in threads:
            th.join(300)
            if th.is_alive():
                errors.append(('deadlock?', th.name))

        # Same new pattern compiled by many threads at once: one object, one miss
        sv.purge()
        base = sv.cp._cached_css_compile.cache_info()
        got = []
        bar = threading.Barrier(8)

        def same():
            bar.wait()
            got.append(sv.compile('div.only-once > p:nth-child(2n+1 of .q):lang(de):dir(ltr):-soup-contains("x")'))

        ths = [threading.Thread(target=same) for _ in range(8)]
        [th.start() for th in ths]
        [th.join() for th in ths]
        info = sv.cp._cached_css_compile.cache_info()
        if len({id(g) for g in got}) != 1 or info.misses - base.misses != 1 or info.hits - base.hits != 7:
            errors.append(('same pattern', len({id(g) for g in got}), base, info))

        # The lock is free and is a reentrant one
        lock = sv.cp._CACHE_LOCK
        free = []
        th = threading.Thread(target=lambda: free.append(lock.acquire(blocking=False) and (lock.release() or True)))
        th.start()
        th.join()
        if free != [True] or type(lock) is not type(threading.RLock()):
            errors.append(('lock', free, type(lock)))

    # Nothing but the two caches and the lock is shared mutable state
    from soupsieve import css_parser as cp, css_match as cm, css_types as ct, util
    import types
    import re
    immutable = (str, int, float, bool, tuple, frozenset, type(None), types.MappingProxyType, re.Pattern, type,
                 types.FunctionType, types.ModuleType, ct.Immutable, ct.ImmutableDict, types.BuiltinFunctionType)
    allowed = {'soupsieve.css_parser._CACHE_LOCK', 'soupsieve.css_parser._cached_css_compile', 'soupsieve.util.lower'}
    for mod in (cp, cm, ct, util, sys.modules['soupsieve.pretty'], sv):
        for n, v in vars(mod).items():
            if n.startswith('__') or n == 'annotations' or f'{mod.__name__}.{n}' in allowed:
                continue
            if not isinstance(v, immutable) and not hasattr(v, '__origin__') and type(v).__module__ != 'typing':
                errors.append(('mutable module global', mod.__name__, n, type(v)))
    for tok in cp.CSSParser.css_tokens:
        for n, v in vars(tok).items():
            if not isinstance(v, immutable):
                errors.append(('mutable token state', type(tok).__name__, n, type(v)))
    if not isinstance(cp.CSSParser.css_tokens, tuple):
        errors.append('css_tokens is not a tuple')

    sys.stdout.write(json.dumps({'file': sv.__file__, 'errors': [repr(e) for e in errors[:20]], 'n': counts[0]}))


###############################################################################
# Worker: fault injection
###############################################################################

class Fault(BaseException):
    """The injected exception (a `BaseException`, so that no `except Exception` can swallow it)."""


SMALL = """<html lang="en"><head><meta http-equiv="content-language" content="de"></head><body>
<form id="f"><input id="r1" type="radio" name="g"><input id="r2" type="radio" name="g">
<p id="p" lang="fr" class="a">x <span id="s">y</span></p><button id="b" type="submit">s</button>
<iframe id="i"><html><body><p id="ip" class="a">in</p><input id="ir" type="radio" name="g" checked></body></html></iframe>
</form><ul><li class="x" id="l1">1</li><li id="l2">2</li><li class="x" id="l3">3</li></ul></body></html>"""


def worker_faults():
    """Raise at the n-th call, for every n (strided once n is large), then check consistency."""

    import soupsieve as sv
    import bs4
    from soupsieve import css_parser as cp, css_types as ct, css_match as cm

    warnings.simplefilter('ignore')
    pkgdir = os.path.dirname(sv.__file__)

    # A generator that is finalized while the trace function is armed is resumed (a 'call' event) to be closed;
    # a fault that is injected there is reported as "unraisable" by the interpreter. That is expected, keep it quiet.
    default_hook = sys.unraisablehook
    sys.unraisablehook = lambda u: None if isinstance(u.exc_value, Fault) else default_hook(u)
    errors = []
    stats = {}

    def faulted(fn, n, only_pkg):
        count = [0]

        def tracer(frame, event, arg):
            if event == 'call':
                if only_pkg and not frame.f_code.co_filename.startswith(pkgdir):
                    return None
                count[0] += 1
                if count[0] == n:
                    raise Fault(n)
            return None

        sys.settrace(tracer)
        try:
            res = fn()
            # The fault can hit the finalizer of a generator: the interpreter swallows it there and `fn` completes
            return ('swallowed' if count[0] >= n else 'done', res)
        except Fault:
            return ('fault', None)
        finally:
            sys.settrace(None)

    def schedule():
        n = 0
        while True:
            n += 1 if n < 400 else max(1, n // 37)
            yield n

    def lock_is_free():
        if not hasattr(cp, '_CACHE_LOCK'):
            return True
        got = []
        th = threading.Thread(
            target=lambda: got.append(cp._CACHE_LOCK.acquire(blocking=False) and (cp._CACHE_LOCK.release() or True))
        )
        th.start()
        th.join()
        return got == [True]

    # A. compile
    prefill = ['p.keep1', 'p.keep2:nth-child(2)', 'p.keep3:lang(en)']
    patterns = [
        ('div > p.a:nth-child(2n+1 of .x):lang(de, "fr"):dir(ltr):-soup-contains("a", b)', None, None),
        (':--nested, a|p[b|x=y i]:not(:--para)', dict(NAMESPACES), dict(CUSTOM)),
        (':is(:default, :indeterminate):has(> p ~ span, + a):where(, b)', None, None),
        ('p:is(', None, None),
        (':--a', None, {':--a': ':--b', ':--b': 'p:nope'}),
    ]

    def ref_compile(pat, ns, cs):
        try:
            return ('ok', render_compiled(sv.compile(pat, ns, custom=cs)))
        except Exception as e:  # noqa: BLE001
            return ('exc', type(e).__name__, str(e))

    for only_pkg in (True, False):
        for pat, ns, cs in patterns:
            sv.purge()
            reference = ref_compile(pat, ns, cs)
            trials = 0
            for n in schedule():
                sv.purge()
                kept = [sv.compile(p) for p in prefill]
                ns_arg = None if ns is None else dict(ns)
                cs_arg = None if cs is None else dict(cs)

                def attempt():
                    try:
                        return ('ok', sv.compile(pat, ns_arg, custom=cs_arg))
                    except Exception as e:  # noqa: BLE001
                        return ('exc', type(e).__name__, str(e))

                status, res = faulted(attempt, n, only_pkg)
                trials += 1
                info = sv.cp._cached_css_compile.cache_info()
                cached = 1 if (status != 'fault' and res[0] == 'ok') else 0
                if info.currsize != len(prefill) + cached:
                    errors.append(('compile: cache size', pat, n, status, info))
                if not lock_is_free():
                    errors.append(('compile: lock is held', pat, n))
                    break
                if ns_arg != ns or cs_arg != cs:
                    errors.append(('compile: arguments modified', pat, n))
                if [sv.compile(p) for p in prefill] != kept or any(sv.compile(p) is not k for p, k in zip(prefill, kept)):
                    errors.append(('compile: cached objects changed', pat, n))
                if status != 'fault':
                    got = ('ok', render_compiled(res[1])) if res[0] == 'ok' else res
                    if got != reference:
                        errors.append(('compile: unfaulted result differs', pat, n))
                    if status == 'done':
                        break
                after = ref_compile(pat, ns, cs)
                if after != reference:
                    errors.append(('compile: result after a fault differs', pat, n, after[:2]))
                if reference[0] == 'ok' and sv.compile(pat, ns, custom=cs) is not sv.compile(pat, ns, custom=cs):
                    errors.append(('compile: not cached after a fault', pat, n))
            stats[f'compile pkg={only_pkg} {pat[:20]!r}'] = trials

    # B. the parser used directly with a map of aliases: the map is complete on every path
    sv.purge()
    for body_ok in (True, False):
        source = dict(CUSTOM)
        if not body_ok:
            source[':--form-stuff'] = ':is(:default'
        names = cp.process_custom(ct.CustomSelectors(source))
        good = {}
        for k, v in names.items():
            try:
                good[k] = cp.CSSParser(v, custom=dict(names)).process_selectors(flags=cp.FLG_PSEUDO)
            except sv.SelectorSyntaxError:
                good[k] = None
        trials = 0
        for n in schedule():
            cust = dict(names)

            def attempt():
                try:
                    return ('ok', cp.CSSParser(':--nested', custom=cust).process_selectors())
                except sv.SelectorSyntaxError as e:
                    return ('exc', str(e))

            status, res = faulted(attempt, n, True)
            trials += 1
            if set(cust) != set(names):
                errors.append(('parser: alias lost', n, status, sorted(set(names) - set(cust))))
            for k, v in cust.items():
                if not (v == names[k] or (isinstance(v, ct.SelectorList) and v == good[k])):
                    errors.append(('parser: alias has a wrong body', n, k))
            # and the map keeps working
            try:
                again = ('ok', cp.CSSParser(':--nested', custom=cust).process_selectors())
            except sv.SelectorSyntaxError as e:
                again = ('exc', str(e))
            if status != 'fault':
                if (res[0] == 'ok') != body_ok or again != res:
                    errors.append(('parser: unfaulted result', n, res[0]))
                if status == 'done':
                    break
            if (again[0] == 'ok') != body_ok:
                errors.append(('parser: result after a fault', n, again))
        stats[f'parser body_ok={body_ok}'] = trials

    # C. select
    selectors = [
        (':default, :indeterminate, p:lang(fr) > span, li:nth-child(odd of .x), :root :has(> .a):dir(ltr)', None),
        ('html|*:is(:checked, :read-write):not(:disabled), html|p.a:lang(fr), html|*:in-range, iframe :lang(de)', NAMESPACES),
    ]
    for parser in ('html.parser', 'html5lib'):
        doc = bs4.BeautifulSoup(SMALL, parser)
        snap = snapshot(doc)
        text = doc.decode()
        for sel, ns in selectors:
            c = sv.compile(sel, ns)
            reference = [identity_path(e) for e in c.select(doc)]
            assert reference, sel
            for mode in ('api', 'bs4', 'matcher'):
                trials = 0
                for n in schedule():
                    m = cm.CSSMatch(c.selectors, doc, c.namespaces, c.flags)
                    ns0 = m.namespaces
                    if mode == 'api':
                        status, res = faulted(lambda: sv.select(sel, doc, ns), n, True)
                    elif mode == 'bs4':
                        status, res = faulted(lambda: doc.select(sel, ns), n, False)
                    else:
                        status, res = faulted(lambda: list(m.select()), n, True)
                    trials += 1
                    if m.namespaces is not ns0 or m.iframe_restrict is not False:
                        errors.append(('select: matcher state not restored', sel, n, mode))
                    if mode == 'matcher' and [identity_path(e) for e in m.select()] != reference:
                        errors.append(('select: matcher answers differently after a fault', sel, n))
                    if snapshot(doc) != snap or doc.decode() != text:
                        errors.append(('select: document modified', sel, n, mode))
                        break
                    if [identity_path(e) for e in sv.select(sel, doc, ns)] != reference:
                        errors.append(('select: result after a fault differs', sel, n, mode))
                    if not lock_is_free():
                        errors.append(('select: lock is held', sel, n, mode))
                        break
                    if status != 'fault':
                        if [identity_path(e) for e in res] != reference:
                            errors.append(('select: unfaulted result differs', sel, n, mode))
                        if status == 'done':
                            break
                stats[f'select {parser} {mode} {sel[:12]!r}'] = trials

    # D. a fault while a generator is suspended, and a generator that is abandoned
    doc = bs4.BeautifulSoup(SMALL, 'html.parser')
    it = sv.iselect('p, li', doc)
    first = next(it)
    it.close()
    it = sv.iselect('p, li', doc)
    next(it)
    del it
    if [identity_path(e) for e in sv.select('p, li', doc)][0] != identity_path(first):
        errors.append('iselect')

    per_kind = {}
    for e in errors:
        per_kind.setdefault(e[0] if isinstance(e, tuple) else e, []).append(e)
    errors = [e for v in per_kind.values() for e in v[:3]]
    sys.stdout.write(json.dumps({'file': sv.__file__, 'errors': [repr(e) for e in errors[:40]], 'stats': stats}))


###############################################################################
# Workers: pickling across processes
###############################################################################

PICKLE_SPECS = [
    ('p.a > span', None, None, 0),
    ('a|item[b|attr=B], *|p:lang(de)', NAMESPACES, None, 0),
    (':--nested, :--para', NAMESPACES, CUSTOM, 0),
    (':--form-stuff:not(:--para)', None, CUSTOM, 0),
    ('li:nth-child(2n+1 of .x):-soup-contains("1", "5"):dir(ltr)', {}, {}, 0),
    (':default, :indeterminate, :in-range, :placeholder-shown, :read-only', {'': 'http://www.w3.org/1999/xhtml'}, None, 0),
    (':is(), :hover, :not(:focus)', {'z': 'y', 'a': 'b', 'm': 'n'}, {':--z': 'p', ':--a': 'a', ':--m': 'b'}, 0),
]


def pickle_answers(sv, c):
    """Answers of a compiled selector on the documents."""

    import bs4
    out = []
    for doc in (bs4.BeautifulSoup(HTML, 'html.parser'), bs4.BeautifulSoup(XML, 'xml')):
        out.append([identity_path(e) for e in c.select(doc)])
    return out


def worker_pickle_dump(path):
    """Compile, pickle with every protocol, and write it all to a file."""

    import soupsieve as sv
    from soupsieve import css_types as ct

    objs = []
    for pat, ns, cs, flags in PICKLE_SPECS:
        c = sv.compile(pat, ns, flags, custom=cs)
        objs.append({'compiled': c, 'repr': render_compiled(c), 'answers': pickle_answers(sv, c)})
    extra = [ct.Namespaces({'b': 'x', 'a': 'y'}), ct.CustomSelectors({':--b': 'p', ':--a': 'q'}),
             ct.ImmutableDict({'k': (1, 'two', None), 'j': frozenset({'q'})}), ct.ImmutableDict({})]
    blobs = {pr: pickle.dumps((objs, extra), pr) for pr in range(pickle.HIGHEST_PROTOCOL + 1)}
    with open(path, 'wb') as f:
        pickle.dump(blobs, f)
    sys.stdout.write(json.dumps({'file': sv.__file__, 'seed': os.environ.get('PYTHONHASHSEED'),
                                 'probe': hash(ct.Namespaces({'a': 'b'})), 'strhash': hash('soupsieve')}))


def worker_pickle_load(path):
    """Load in another process (another hash seed) and check that the objects are first class citizens."""

    import soupsieve as sv
    from soupsieve import css_types as ct

    errors = []
    with open(path, 'rb') as f:
        blobs = pickle.load(f)
    for pr, blob in blobs.items():
        sv.purge()
        objs, extra = pickle.loads(blob)
        for (pat, ns, cs, flags), rec in zip(PICKLE_SPECS, objs):
            c = rec['compiled']
            fresh = sv.compile(pat, ns, flags, custom=cs)
            tag = (pr, pat)
            if type(c) is not sv.SoupSieve or c is fresh:
                errors.append(('type', tag))
            if c != fresh or not (c == fresh) or fresh != c:
                errors.append(('not equal to a fresh compile', tag))
            if hash(c) != hash(fresh):
                errors.append(('hash differs from a fresh compile', tag))
            if {fresh: 1}.get(c) != 1 or c not in {fresh} or fresh not in {c}:
                errors.append(('not found in a dict / set', tag))
            if render_compiled(c) != rec['repr'] or render_compiled(fresh) != rec['repr']:
                errors.append(('repr', tag))
            if pickle_answers(sv, c) != rec['answers'] or pickle_answers(sv, fresh) != rec['answers']:
                errors.append(('answers', tag))
            if sv.compile(c) is not c:
                errors.append(('compile(compiled)', tag))
            for part, fpart, cls, src in ((c.namespaces, fresh.namespaces, ct.Namespaces, ns),
                                          (c.custom, fresh.custom, ct.CustomSelectors, cs)):
                if src is None:
                    if part is not None:
                        errors.append(('map should be None', tag))
                    continue
                if type(part) is not cls or part != fpart or hash(part) != hash(fpart) or hash(part) != hash(cls(src)):
                    errors.append(('map: type / equality / hash', tag, cls.__name__))
                if dict(part) != src or list(part) != list(src):
                    errors.append(('map: content / order', tag, cls.__name__))
                if part._hash != cls(dict(part))._hash:
                    errors.append(('map: stale hash', tag, cls.__name__))
            # selector parts
            def walk(a, b):
                if isinstance(a, ct.Immutable):
                    if type(a) is not type(b) or a != b or hash(a) != hash(b):
                        errors.append(('part', tag, type(a).__name__))
                    for sname in a.__slots__[:-1]:
                        walk(getattr(a, sname), getattr(b, sname))
                elif isinstance(a, tuple):
                    for x, y in zip(a, b):
                        walk(x, y)
            walk(c.selectors, fresh.selectors)
            # loaded objects can be pickled again
            again = pickle.loads(pickle.dumps(c, pr))
            if again != c or hash(again) != hash(c):
                errors.append(('second generation', tag))
        for m in extra:
            same = type(m)(dict(m))
            if m != same or hash(m) != hash(same) or m._hash != same._hash or {same: 1}.get(m) != 1:
                errors.append(('extra map', pr, repr(m)))
    sys.stdout.write(json.dumps({'file': sv.__file__, 'seed': os.environ.get('PYTHONHASHSEED'),
                                 'probe': hash(ct.Namespaces({'a': 'b'})), 'strhash': hash('soupsieve'),
                                 'errors': [repr(e) for e in errors[:20]]}))


###############################################################################
# Worker: value semantics that are new with the patch
###############################################################################

def worker_values():
    """`ImmutableDict` is closed for modification."""

    import soupsieve as sv
    from soupsieve import css_types as ct

    errors = []
    for m in (ct.ImmutableDict({'a': 1}), ct.Namespaces({'a': 'b'}), ct.CustomSelectors({':--a': 'p'}),
              sv.compile('p', {'a': 'b'}, custom={':--a': 'p'}).namespaces,
              pickle.loads(pickle.dumps(ct.Namespaces({'a': 'b'}))), copy.deepcopy(ct.Namespaces({'a': 'b'}))):
        name = type(m).__name__
        if hasattr(m, '__dict__'):
            errors.append((name, 'has a __dict__'))
        h = hash(m)
        for what, fn in (
            ('set _d', lambda: setattr(m, '_d', {})), ('set _hash', lambda: setattr(m, '_hash', 0)),
            ('set new', lambda: setattr(m, 'other', 0)), ('del _d', lambda: delattr(m, '_d')),
            ('del _hash', lambda: delattr(m, '_hash')), ('del new', lambda: delattr(m, 'other')),
            ('set __class__', lambda: setattr(m, '__class__', ct.ImmutableDict)),
        ):
            try:
                fn()
                errors.append((name, what, 'did not raise'))
            except AttributeError as e:
                if str(e) != f"'{name}' is immutable":
                    errors.append((name, what, str(e)))
        for what, fn in (('setitem', lambda: m.__setitem__('a', 1)), ('delitem', lambda: m.__delitem__('a')),
                         ('update', lambda: m.update({})), ('pop', lambda: m.pop('a')), ('clear', lambda: m.clear())):
            try:
                fn()
                errors.append((name, what, 'did not raise'))
            except (AttributeError, TypeError):
                pass
        if hash(m) != h or len(m) != 1:
            errors.append((name, 'changed'))
        # The source map is copied
    src = {'a': 'b'}
    n = ct.Namespaces(src)
    src['c'] = 'd'
    if dict(n) != {'a': 'b'}:
        errors.append('source map is shared')
    for cls in (ct.ImmutableDict, ct.Namespaces, ct.CustomSelectors):
        if '__dict__' in dir(cls({})) or cls.__slots__ not in (('_d', '_hash', '__weakref__'), ()):
            errors.append((cls.__name__, 'slots', cls.__slots__))
    sys.stdout.write(json.dumps({'file': sv.__file__, 'errors': [repr(e) for e in errors[:20]]}))


###############################################################################
# Import probe (source text, run with `-c` in fresh interpreters)
###############################################################################

IMPORT_FORMS = {
    'bs4-first': 'import bs4\nimport soupsieve\n',
    'soupsieve-first': 'import soupsieve\nimport bs4\n',
    'submodule-first': 'import soupsieve.css_match\nimport soupsieve\n',
    'from-package': 'from soupsieve import css_parser\nimport soupsieve\n',
    'import-module': 'import importlib\nimportlib.import_module("soupsieve.util")\nimport soupsieve\n',
    'star': 'from soupsieve import *\nfrom soupsieve.css_types import *\nimport soupsieve\n',
    'types-first': 'import soupsieve.css_types as _x\nimport soupsieve.pretty\nimport soupsieve.__meta__\nimport soupsieve\n',
}

PROBE = r'''
import sys, os, json, io, warnings, logging, signal, threading, types, atexit

BLOCKED = {'importlib.metadata', 'importlib_metadata', 'pkg_resources', 'lxml', 'html5lib', 'chardet', 'cchardet',
           'charset_normalizer', 'numpy', 'regex', 'setuptools', 'packaging', 'cssselect', 'colorama'}


class Block:
    def find_spec(self, name, path=None, target=None):
        if name in BLOCKED or name.split('.')[0] in BLOCKED:
            raise ImportError('blocked for the test: ' + name)
        return None


if BLOCK:
    for name in list(sys.modules):
        if name in BLOCKED or name.split('.')[0] in BLOCKED:
            del sys.modules[name]
    sys.meta_path.insert(0, Block())

out, err = io.StringIO(), io.StringIO()
real_out, real_err = sys.stdout, sys.stderr
sys.stdout, sys.stderr = out, err
shown = []
warnings.showwarning = lambda *a, **k: shown.append(str(a[0]))
sigs = {int(s): signal.getsignal(s) for s in signal.valid_signals() if signal.getsignal(s) is not None}
before = dict(
    filters=list(warnings.filters), path=list(sys.path), handlers=list(logging.root.handlers),
    level=logging.root.level, loggers=sorted(logging.root.manager.loggerDict), env=dict(os.environ), cwd=os.getcwd(),
    threads=threading.active_count(), trace=sys.gettrace(), profile=sys.getprofile(), hook=sys.excepthook,
    recursion=sys.getrecursionlimit(), switch=sys.getswitchinterval(), meta=list(sys.meta_path),
    hooks=list(sys.path_hooks), displayhook=sys.displayhook
)

try:
    exec(FORM)
    import soupsieve, bs4
except BaseException:
    sys.stdout, sys.stderr = real_out, real_err
    raise
after = dict(
    filters=list(warnings.filters), path=list(sys.path), handlers=list(logging.root.handlers),
    level=logging.root.level, loggers=sorted(logging.root.manager.loggerDict), env=dict(os.environ), cwd=os.getcwd(),
    threads=threading.active_count(), trace=sys.gettrace(), profile=sys.getprofile(), hook=sys.excepthook,
    recursion=sys.getrecursionlimit(), switch=sys.getswitchinterval(), meta=list(sys.meta_path),
    hooks=list(sys.path_hooks), displayhook=sys.displayhook
)
sigs2 = {int(s): signal.getsignal(s) for s in signal.valid_signals() if signal.getsignal(s) is not None}
sys.stdout, sys.stderr = real_out, real_err

changed = sorted(k for k in before if before[k] != after[k] and k != 'loggers')
new_loggers = [n for n in after['loggers'] if n not in before['loggers'] and n.startswith('soupsieve')]
mods = {}
for name in ('css_match', 'css_parser', 'css_types', 'pretty', 'util', '__meta__'):
    full = 'soupsieve.' + name
    import importlib
    a = importlib.import_module(full)
    b = getattr(soupsieve, name, None)
    ns = {}
    exec('from soupsieve import %s as c\nimport soupsieve.%s as d' % (name, name), ns)
    mods[name] = [isinstance(x, types.ModuleType) and x.__name__ == full and x is sys.modules[full]
                  for x in (a, b, ns['c'], ns['d'])]
doc = bs4.BeautifulSoup('<div><p class="a" lang="en">x</p><p>y</p></div>', 'html.parser')
works = [
    len(doc.select('p.a:lang(en)')), len(soupsieve.select('p:nth-child(2)', doc)), doc.select_one('div > p').name,
    len(doc.css.select('p')), soupsieve.match('div', doc.div), bs4.css.soupsieve is soupsieve
]
classes = {c.__name__: sorted(vars(c)) for c in (bs4.Tag, bs4.BeautifulSoup, bs4.element.PageElement,
                                                 bs4.element.NavigableString, bs4.element.ResultSet, bs4.css.CSS)}
print(json.dumps(dict(
    file=soupsieve.__file__, out=out.getvalue(), err=err.getvalue(), shown=shown, changed=changed,
    new_loggers=new_loggers, sig_changed=sigs != sigs2, mods=mods, works=works, classes=classes,
    loaded=sorted(m for m in sys.modules if m.split('.')[0] == 'soupsieve'),
    optional=sorted(m for m in sys.modules if m in BLOCKED) if BLOCK else [],
    version=[soupsieve.__version__, list(soupsieve.__version_info__)], doc=soupsieve.__doc__ is None,
    flags=[sys.flags.optimize, sys.flags.dev_mode],
    all=sorted(soupsieve.__all__), names=sorted(n for n in vars(soupsieve) if not n.startswith('__'))
)))
'''


###############################################################################
# Driver
###############################################################################

def run_worker(name, pythonpath, *args, env=None, flags=()):
    """Run a worker of this file in a fresh interpreter that imports `soupsieve` from `pythonpath`."""

    e = dict(os.environ)
    e['PYTHONPATH'] = pythonpath
    e['SELFCHECK_TREE'] = pythonpath
    e.setdefault('PYTHONHASHSEED', '0')
    e.update(env or {})
    p = subprocess.run(
        [PY, *flags, os.path.join(HERE, 'selfcheck.py'), '--worker', name, *args],
        env=e, capture_output=True, text=True, cwd=tempfile.gettempdir(), timeout=3600
    )
    if p.returncode != 0:
        raise RuntimeError(f'worker {name} failed ({p.returncode}):\n{p.stdout[-2000:]}\n{p.stderr[-4000:]}')
    data = json.loads(p.stdout)
    data['stderr'] = p.stderr
    return data


def run_probe(pythonpath, form, flags=(), env=None, block=True):
    """Run the import probe."""

    e = {k: v for k, v in os.environ.items() if k in ('PATH', 'HOME', 'LANG', 'LC_ALL', 'TMPDIR')}
    e['PYTHONPATH'] = pythonpath
    e.update(env or {})
    code = f'BLOCK = {block!r}\nFORM = {IMPORT_FORMS[form]!r}\n' + PROBE
    p = subprocess.run([PY, *flags, '-c', code], env=e, capture_output=True, text=True, cwd=tempfile.gettempdir(),
                       timeout=600)
    if p.returncode != 0:
        raise RuntimeError(f'probe {form} {flags} failed:\n{p.stdout[-2000:]}\n{p.stderr[-4000:]}')
    data = json.loads(p.stdout)
    data['stderr'] = p.stderr
    return data


def main():
    """Drive."""

    failures = []

    def check(cond, *what):
        if not cond:
            failures.append(what)
            print('  FAIL', *[str(w)[:600] for w in what])

    base = tempfile.mkdtemp(prefix='soupsieve_base_')
    subprocess.run(f'git archive HEAD soupsieve | tar -x -C {base}', shell=True, check=True, cwd=HERE)
    new_file = os.path.join(HERE, 'soupsieve', '__init__.py')
    old_file = os.path.join(base, 'soupsieve', '__init__.py')
    diff = subprocess.run(['git', 'diff', '--stat', '--', 'soupsieve/'], cwd=HERE, capture_output=True, text=True).stdout
    print('baseline:', base)
    print('patched files:\n' + diff)
    check(diff.strip(), 'the work tree has no change to check')

    print('1. differential corpus')
    new = run_worker('corpus', HERE)
    old = run_worker('corpus', base)
    check(new['file'] == new_file, 'patched tree not imported', new['file'])
    check(old['file'] == old_file, 'baseline not imported', old['file'])
    check(len(new['lines']) == len(old['lines']), 'number of lines', len(new['lines']), len(old['lines']))
    bad = [(a, b) for a, b in zip(new['lines'], old['lines']) if a != b]
    for a, b in bad[:10]:
        check(False, 'transcript differs', '\n    new: ' + a[:400], '\n    old: ' + b[:400])
    check(not new['stderr'] and not old['stderr'], 'stderr', new['stderr'], old['stderr'])
    gone = sorted(set(old['names']) - set(new['names']))
    check(not gone, 'names went away', gone)
    print(f"   {len(new['lines'])} transcript lines compared, {len(bad)} differ; names gone: {gone}; "
          f"names added: {sorted(set(new['names']) - set(old['names']))}")
    # a second seed for the hash randomisation
    new2 = run_worker('corpus', HERE, env={'PYTHONHASHSEED': '4242'})
    check(new2['lines'] == new['lines'], 'transcript depends on the hash seed')

    print('2. threads')
    r = run_worker('threads', HERE)
    check(r['file'] == new_file and not r['errors'] and r['n'] == 4800, 'threads', r)
    print(f"   {r['n']} concurrent compile+select rounds, errors: {r['errors']}")

    print('3. fault injection')
    r = run_worker('faults', HERE)
    check(r['file'] == new_file and not r['errors'], 'faults', r['errors'])
    print(f"   {sum(r['stats'].values())} faulted runs in {len(r['stats'])} scenarios, errors: {r['errors']}")

    print('4. pickling across processes / hash seeds / trees')
    for wname, wpath in (('patched', HERE), ('baseline', base)):
        for rname, rpath in (('patched', HERE), ('baseline', base)):
            with tempfile.TemporaryDirectory() as d:
                path = os.path.join(d, 'p.bin')
                w = run_worker('pickle-dump', wpath, path, env={'PYTHONHASHSEED': '1'})
                r = run_worker('pickle-load', rpath, path, env={'PYTHONHASHSEED': '987654'})
            check(w['strhash'] != r['strhash'], 'the two processes hash alike')
            check(not r['errors'], 'pickle', wname, '->', rname, r['errors'])
            print(f"   {wname} (seed 1) -> {rname} (seed 987654): errors: {r['errors']}; "
                  f"hash of an equal map differs between the processes: {w['probe'] != r['probe']}")

    print('5. imports in fresh interpreters')
    n = 0
    for form in IMPORT_FORMS:
        for flags in ((), ('-O',), ('-OO',), ('-W', 'error'), ('-X', 'dev', '-W', 'error'), ('-B', '-S', '-E')):
            if '-E' in flags or '-S' in flags:
                continue
            for env in ({}, {'PYTHONHASHSEED': '3', 'SOUPSIEVE_DEBUG': '1', 'DEBUG': '1', 'PYTHONWARNINGS': 'error'}):
                a = run_probe(HERE, form, flags, env)
                b = run_probe(base, form, flags, env)
                n += 1
                tag = (form, flags, tuple(env))
                check(a['file'] == new_file and b['file'] == old_file, 'wrong tree', tag)
                check(a['out'] == '' and a['err'] == '' and a['stderr'] == '' and not a['shown'], 'not silent', tag, a)
                check(not a['changed'] and not a['new_loggers'] and not a['sig_changed'], 'side effects', tag,
                      a['changed'], a['new_loggers'])
                check(all(all(v) for v in a['mods'].values()), 'submodule form', tag, a['mods'])
                check(a['works'] == [1, 1, 'p', 2, True, True], 'does not work', tag, a['works'])
                check(not a['optional'], 'optional module imported', tag, a['optional'])
                for key in ('classes', 'loaded', 'version', 'doc', 'all', 'mods', 'works', 'changed', 'names'):
                    check(a[key] == b[key], 'differs from baseline', key, tag, a[key], b[key])
    # without the blocker (optional parsers importable)
    for form in IMPORT_FORMS:
        a = run_probe(HERE, form, (), {}, block=False)
        b = run_probe(base, form, (), {}, block=False)
        n += 1
        # (the optional parsers that Beautiful Soup loads may install import hooks of their own, hence the comparison)
        check(a['out'] == '' and a['err'] == '' and a['stderr'] == '', 'not silent', form, a)
        check(a['changed'] == b['changed'] and a['loaded'] == b['loaded'], 'side effects', form, a['changed'], b['changed'])
    print(f'   {n} fresh interpreters')

    print('6. value semantics')
    r = run_worker('values', HERE)
    check(r['file'] == new_file and not r['errors'], 'values', r['errors'])
    print(f"   errors: {r['errors']}")

    print('7. sensitivity: the fault injection, pointed at the unmodified sources, reports what the patch fixes')
    try:
        r = run_worker('faults', base)
        kinds = sorted({e.split(',')[0] for e in r['errors']})
        print('   baseline errors (expected, informational):', kinds)
    except Exception as e:  # noqa: BLE001
        print('   (not run:', str(e)[:200], ')')

    import shutil
    shutil.rmtree(base, ignore_errors=True)
    print()
    print('FAILED: %d' % len(failures) if failures else 'ALL OK')
    return 1 if failures else 0


if __name__ == '__main__':
    if len(sys.argv) > 2 and sys.argv[1] == '--worker':
        # The directory of this script is first on `sys.path`; make the tree that is to be tested win.
        tree = os.environ['SELFCHECK_TREE']
        sys.path[:] = [tree] + [x for x in sys.path if os.path.abspath(x or '.') not in (HERE, tree)]
        {
            'corpus': worker_corpus, 'threads': worker_threads, 'faults': worker_faults, 'values': worker_values,
            'pickle-dump': lambda: worker_pickle_dump(sys.argv[3]), 'pickle-load': lambda: worker_pickle_load(sys.argv[3]),
        }[sys.argv[2]]()
    else:
        sys.exit(main())
