"""
Differential self check for the `css_match.py` refactor.

Builds a reference copy of the package whose `css_match.py` is the unmodified `HEAD` version
(`git show HEAD:soupsieve/css_match.py`), imports it as `soupsieve_ref` next to the worktree
`soupsieve`, and compares the answer (or the exception type and message) of every
(selector, document, scope, entry point) combination below. Both versions are run against the very
same document objects, so results are compared by element identity, and every document is
fingerprinted before and after to prove that nothing was modified.

Run with:

    cd /tmp/wt_ok7 && PYTHONPATH=/tmp/wt_ok7 /venv/bin/python selfcheck.py [--quick]
"""
from __future__ import annotations
import copy
import importlib
import itertools
import os
import shutil
import subprocess
import sys
import tempfile
import threading
import warnings

HERE = os.path.dirname(os.path.abspath(__file__))
sys.path.insert(0, HERE)

import bs4  # noqa: E402

warnings.simplefilter('ignore')


# ----------------------------------------------------------------------------------------------------------------------
# The two implementations
# ----------------------------------------------------------------------------------------------------------------------
def load_implementations():
    """Return `(new, ref, tmpdir)`."""

    import soupsieve as new

    assert os.path.dirname(os.path.abspath(new.__file__)) == os.path.join(HERE, 'soupsieve'), new.__file__

    tmp = tempfile.mkdtemp(prefix='sv_ref_')
    shutil.copytree(
        os.path.join(HERE, 'soupsieve'), os.path.join(tmp, 'soupsieve_ref'),
        ignore=shutil.ignore_patterns('__pycache__')
    )
    original = subprocess.run(
        ['git', 'show', 'HEAD:soupsieve/css_match.py'], cwd=HERE, check=True, capture_output=True
    ).stdout
    with open(os.path.join(tmp, 'soupsieve_ref', 'css_match.py'), 'wb') as f:
        f.write(original)
    with open(os.path.join(HERE, 'soupsieve', 'css_match.py'), 'rb') as f:
        assert f.read() != original, 'the worktree css_match.py is identical to HEAD, nothing to compare'

    sys.path.insert(0, tmp)
    ref = importlib.import_module('soupsieve_ref')
    assert ref.css_match is not new.css_match
    assert ref.css_parser.cm is ref.css_match and new.css_parser.cm is new.css_match
    return new, ref, tmp


# ----------------------------------------------------------------------------------------------------------------------
# Documents
# ----------------------------------------------------------------------------------------------------------------------
HTML = """<!DOCTYPE html>
<html lang="en-US" id="root">
<head>
<meta http-equiv="content-language" content="en">
<title>T</title>
</head>
<body class="body main">
<!-- comment -->
<div id="div" class="a b  c" dir="rtl">
  <p id="p0" class="a">Some text <span id="s1" class="b" lang="de-DE">span one</span> and
     <span id="s2" lang="de-Latn-DE-1996">two</span><em id="em1"></em><em id="em2"> </em><em id="em3"><!-- c --></em></p>
  <p id="p1" class="b" dir="auto">אב hebrew first</p>
  <p id="p2" dir="auto">latin first א</p>
  <p id="p3" dir="auto"><script>x</script>123</p>
  <bdi id="bdi1">ال</bdi>
  <bdi id="bdi2">...</bdi>
  <a id="a1" href="http://example.com/x.html" hreflang="en" title="A Title">link</a>
  <a id="a2" href="#frag" data-x="1 2 3">link2</a>
  <custom-el id="ce1"></custom-el>
  <ul id="ul">
    <li id="li1" class="x">1</li><li id="li2">2</li>text<li id="li3" class="x">3</li>
    <li id="li4">4</li><li id="li5" class="x">5</li><li id="li6">6</li>
    <span id="ulspan">s</span><li id="li7" class="x y">7</li>
  </ul>
  <dl id="dl"><dt id="dt1">a</dt><dd id="dd1">b</dd><dt id="dt2">c</dt><dd id="dd2">d</dd></dl>
</div>
<form id="form1" action="#">
  <input id="i_text" type="text" name="t" value="א" dir="auto" placeholder="ph">
  <input id="i_text2" type="TEXT" name="t2" dir="auto">
  <input id="i_tel" type="tel" value="123">
  <input id="i_num" type="number" min="0" max="10" value="5">
  <input id="i_num2" type="number" min="0" max="10" value="15">
  <input id="i_num3" type="number" min="x" value="1">
  <input id="i_range" type="range" min="-5" max="5" value="-10">
  <input id="i_date" type="date" min="1980-02-20" max="2004-08-14" value="1999-05-16">
  <input id="i_date2" type="date" min="1980-02-20" max="2004-08-14" value="2010-02-30">
  <input id="i_month" type="month" min="1980-02" value="1979-12">
  <input id="i_week" type="week" max="2004-W20" value="2004-W53">
  <input id="i_time" type="time" min="22:00" max="02:00" value="12:00">
  <input id="i_time2" type="time" min="08:00" max="17:00" value="18:00">
  <input id="i_dtl" type="datetime-local" min="1980-02-20T01:30" value="1980-02-20T01:29">
  <input id="r1" type="radio" name="grp1">
  <input id="r2" type="radio" name="grp1">
  <input id="r3" type="radio" name="grp2" checked>
  <input id="r4" type="RADIO" name="grp2">
  <input id="r5" type="radio" name="">
  <input id="r6" type="radio">
  <input id="c1" type="checkbox" checked>
  <input id="c2" type="checkbox" indeterminate>
  <progress id="pr1"></progress><progress id="pr2" value="1"></progress>
  <select id="sel1" name="s"><option id="o1" value="1" selected>one</option><option id="o2">two</option>
  <optgroup id="og" disabled><option id="o3">three</option></optgroup></select>
  <select id="sel2" multiple><option id="o4" selected>m</option></select>
  <fieldset id="fs1" disabled><legend id="lg1"><input id="i_leg" type="text"></legend>
     <input id="i_dis" type="text"><button id="b_dis">b</button></fieldset>
  <textarea id="ta1" dir="auto">אב</textarea>
  <textarea id="ta2" dir="auto" placeholder="x"></textarea>
  <textarea id="ta3" placeholder="x">
</textarea>
  <input id="i_req" type="text" required>
  <input id="i_ro" type="text" readonly>
  <div id="editable" contenteditable="true">e</div>
  <button id="b0" type="button">no</button>
  <button id="b1" type="submit">go</button>
  <input id="sub2" type="submit">
</form>
<form id="form2"><input id="r7" type="radio" name="grp1" checked><input id="r8" type="radio" name="grp1">
   <button id="b2">x</button><input id="sub3" type="SUBMIT"></form>
<input id="r9" type="radio" name="grp1">
<iframe id="frame1" src="x">
  <html id="fhtml" lang="fr">
  <head><meta http-equiv="content-language" content="fr-CA"></head>
  <body id="fbody"><div id="fdiv" dir="rtl"><p id="fp1">inner text</p><span id="fs" dir="auto">א</span></div>
  <form id="fform"><input id="fsub" type="submit"><input id="fr1" type="radio" name="grp1"></form></body>
  </html>
</iframe>
<div id="after" lang=""><p id="ap" class="a">after text</p><math id="m1"><mi id="mi1">x</mi></math>
<svg id="svg1"><a id="svga" href="#">s</a><iframe id="svgframe"></iframe></svg></div>
<p id="last" class="a x" lang="und">the end</p>
</body>
</html>
"""

# A document that gives the `iframe` real children with every parser
# (`html.parser` keeps the markup of an `iframe` as a tree, the others turn it into text).

XML = """<?xml version="1.0" encoding="UTF-8"?>
<root xmlns="http://example.com/default" xmlns:x="http://example.com/x" xmlns:xlink="http://www.w3.org/1999/xlink"
      xml:lang="en-GB" id="root" Class="a">
  <x:item id="x1" x:attr="val" plain="p" class="a b">one<sub id="sub1">s</sub></x:item>
  <item id="i1" xlink:href="http://example.com" class="b">two</item>
  <item id="i2" xml:lang="de" Type="Radio" type="radio" name="n"><![CDATA[cdata]]></item>
  <Item id="i3" TYPE="radio">mixed</Item>
  <input id="in1" type="radio" name="g"/>
  <input id="in2" type="RADIO" name="g" checked="checked"/>
  <input id="in3" type="radio" NAME="g" CHECKED="checked"/>
  <custom-tag id="ct1"/>
  <iframe id="xf"><inner id="inner1">t</inner></iframe>
  <empty id="e1"/>
  <empty id="e2"> </empty>
  <?pi data?>
  <!-- comment -->
</root>
"""

XHTML = """<?xml version="1.0" encoding="UTF-8"?>
<!DOCTYPE html PUBLIC "-//W3C//DTD XHTML 1.1//EN" "http://www.w3.org/TR/xhtml11/DTD/xhtml11.dtd">
<html xmlns="http://www.w3.org/1999/xhtml" xmlns:svg="http://www.w3.org/2000/svg" lang="en" xml:lang="en" id="root">
<head><meta http-equiv="content-language" content="en-AU"/><title>t</title></head>
<body id="body" class="main">
<div id="div" class="a b" dir="rtl"><p id="p0" class="a">text <span id="s1" lang="de">s</span></p>
<p id="p1" dir="auto">א x</p><P id="P2" CLASS="a">upper</P><bdi id="bdi1">abc</bdi></div>
<form id="form1"><input id="r1" type="radio" name="g"/><input id="r2" type="radio" name="g"/>
<input id="r3" type="RADIO" name="h" checked="checked"/><input id="r4" type="radio" name="h"/>
<input id="n1" type="number" min="0" max="10" value="11"/><input id="sub1" type="submit"/>
<button id="b1" type="submit">b</button><textarea id="ta1" placeholder="x"></textarea></form>
<iframe id="frame1"><html id="fhtml" lang="fr"><body id="fbody"><p id="fp1" dir="auto">א</p>
<form id="fform"><input id="fsub" type="submit"/></form></body></html></iframe>
<svg:svg id="svg1"><svg:a id="svga" href="#">a</svg:a><svg:iframe id="svgframe"/></svg:svg>
<custom-el id="ce1"/>
<ul id="ul"><li id="li1" class="x">1</li><li id="li2">2</li><li id="li3" class="x">3</li><li id="li4">4</li></ul>
</body>
</html>
"""


class Weird:
    """An attribute value that is neither a string nor a sequence."""

    def __str__(self):
        return 'weird'

    __repr__ = __str__


ODD_VALUES = {
    'list': ['a', 'b'],
    'list1': ['radio'],
    'empty_list': [],
    'none': None,
    'int': 5,
    'float': 2.5,
    'bytes': b'radio',
    'bad_bytes': b'\xff\xfe',
    'nested': ['a', ['b', 'c'], b'd', None, 3],
    'tuple': ('ltr', 'x'),
    'dict': {'k': 'v'},
    'weird': Weird(),
    'bool': True,
}
ODD_ATTRS = ('id', 'class', 'type', 'dir', 'value', 'min', 'max', 'name', 'lang', 'href', 'checked', 'content',
             'http-equiv', 'placeholder')
ODD_TARGETS = ('div', 'p0', 's1', 'i_text', 'i_num', 'r1', 'r3', 'b1', 'a1', 'li3', 'ta1', 'root', 'fhtml', 'in2',
               'i2', 'x1', 'n1', 'sub1')


def find_by_id(soup, ident):
    """Find element without using soupsieve."""

    for el in soup.descendants:
        if isinstance(el, bs4.Tag) and el.attrs.get('id') == ident:
            return el
    return None


def build_documents():
    """Return list of `(name, soup, extra_scopes)`."""

    docs = []
    docs.append(('html.parser', bs4.BeautifulSoup(HTML, 'html.parser')))
    docs.append(('lxml', bs4.BeautifulSoup(HTML, 'lxml')))
    docs.append(('html5lib', bs4.BeautifulSoup(HTML, 'html5lib')))
    docs.append(('xml', bs4.BeautifulSoup(XML, 'xml')))
    docs.append(('xhtml', bs4.BeautifulSoup(XHTML, 'xml')))
    docs.append(('xhtml-as-html5', bs4.BeautifulSoup(XHTML, 'html5lib')))
    docs.append(('empty', bs4.BeautifulSoup('', 'html.parser')))
    docs.append(('text-only', bs4.BeautifulSoup('just text<!-- c -->', 'html.parser')))
    docs.append(('multi-root', bs4.BeautifulSoup('<p id="a">x</p>text<p id="b" class="a">y</p>', 'html.parser')))

    # Give the `iframe` a real element tree for the parsers that would otherwise keep its content as text.
    for parser in ('lxml', 'html5lib'):
        soup = bs4.BeautifulSoup(HTML, parser)
        inner = bs4.BeautifulSoup(
            '<html id="fhtml" lang="fr"><head><meta http-equiv="content-language" content="fr-CA"></head>'
            '<body id="fbody"><div id="fdiv" dir="rtl"><p id="fp1">inner text</p><span id="fs" dir="auto">א</span>'
            '</div><form id="fform"><input id="fsub" type="submit"><input id="fr1" type="radio" name="grp1"></form>'
            '</body></html>', parser
        )
        frame = find_by_id(soup, 'frame1')
        frame.clear()
        frame.append(inner.html.extract())
        docs.append((parser + '+iframe-tree', soup))

    # Odd attribute value types, set through the `bs4` API
    for base_name, markup, parser in (('html.parser', HTML, 'html.parser'), ('xml', XML, 'xml'),
                                      ('xhtml', XHTML, 'xml'), ('html5lib', HTML, 'html5lib')):
        for vname, value in ODD_VALUES.items():
            soup = bs4.BeautifulSoup(markup, parser)
            for i, ident in enumerate(ODD_TARGETS):
                el = find_by_id(soup, ident)
                if el is None:
                    continue
                # Rotate through the attributes so that every (attribute, value) pair occurs somewhere,
                # always leaving `id` alone on the even elements so that they remain addressable.
                for j, attr in enumerate(ODD_ATTRS):
                    if (i + j) % 3 == 0 and not (attr == 'id' and i % 2 == 0):
                        el.attrs[attr] = copy.copy(value)
            docs.append((f'{base_name}/odd-{vname}', soup))

    # One odd attribute at a time on the elements the form / language / direction logic scans
    for attr, (vname, value) in itertools.product(
        ('type', 'name', 'dir', 'lang', 'value', 'class', 'id', 'checked'),
        (('list', ['radio', 'x']), ('none', None), ('int', 7), ('bad_bytes', b'\xff'), ('bytes', b'submit'))
    ):
        soup = bs4.BeautifulSoup(HTML, 'html.parser')
        for ident in ('r2', 'r3', 'b1', 'div', 'p1', 'i_text', 'i_num', 'li3', 'root', 'sub2'):
            find_by_id(soup, ident).attrs[attr] = copy.copy(value)
        docs.append((f'html.parser/single-{attr}-{vname}', soup))

    # Odd attribute *names*
    soup = bs4.BeautifulSoup(HTML, 'html.parser')
    find_by_id(soup, 'li3').attrs[5] = 'five'
    find_by_id(soup, 'r2').attrs[None] = 'none'
    find_by_id(soup, 'p1').attrs[b'dir'] = 'ltr'
    docs.append(('html.parser/odd-keys', soup))
    soup = bs4.BeautifulSoup(XML, 'xml')
    find_by_id(soup, 'i1').attrs[5] = 'five'
    find_by_id(soup, 'in1').attrs[('a', 'b')] = 'tuple'
    docs.append(('xml/odd-keys', soup))

    return docs


def scopes_for(name, soup):
    """Return the list of `(scope name, tag)` to query from, includes detached fragments."""

    scopes = [('doc', soup)]
    for ident in ('root', 'div', 'form1', 'frame1', 'fbody', 'ul', 'li3', 'r1', 'i2', 'xf', 'after'):
        el = find_by_id(soup, ident)
        if el is not None:
            scopes.append(('#' + ident, el))
    return scopes


def detached_fragments():
    """Detached fragments: extracted sub trees, free standing tags, copies."""

    frags = []
    for parser, markup in (('html.parser', HTML), ('html5lib', HTML), ('xml', XML), ('xml', XHTML)):
        soup = bs4.BeautifulSoup(markup, parser)
        for ident in ('div', 'form1', 'frame1', 'ul', 'x1', 'i2'):
            el = find_by_id(soup, ident)
            if el is not None:
                frags.append((f'detached/{parser}/extract#{ident}', el.extract()))
        el = find_by_id(soup, 'last') or find_by_id(soup, 'in1')
        if el is not None:
            frags.append((f'detached/{parser}/copy', copy.copy(el)))
        new_tag = soup.new_tag('input', attrs={'type': 'radio', 'name': 'g', 'id': 'fresh', 'dir': 'auto'})
        frags.append((f'detached/{parser}/new_tag', new_tag))
        wrapper = soup.new_tag('div', attrs={'id': 'wrap', 'class': ['a', 'b'], 'lang': 'en'})
        wrapper.append(soup.new_tag('p', attrs={'id': 'wp', 'class': 'a'}))
        wrapper.append('text')
        wrapper.append(soup.new_tag('iframe', attrs={'id': 'wf'}))
        wrapper.contents[-1].append(soup.new_tag('p', attrs={'id': 'wfp'}))
        wrapper.append(soup.new_tag('input', attrs={'type': b'submit', 'id': ['x', 'y'], 'value': None}))
        frags.append((f'detached/{parser}/built', wrapper))
    return frags


# ----------------------------------------------------------------------------------------------------------------------
# Selectors
# ----------------------------------------------------------------------------------------------------------------------
NS = {
    '': 'http://example.com/default',
    'x': 'http://example.com/x',
    'xlink': 'http://www.w3.org/1999/xlink',
    'html': 'http://www.w3.org/1999/xhtml',
    'svg': 'http://www.w3.org/2000/svg',
}
NS_NO_DEFAULT = {k: v for k, v in NS.items() if k}

SELECTORS = [
    # tags, ids, classes
    '*', 'p', 'P', 'div p', 'div > p', 'p + p', 'p ~ p', 'li + li', 'li ~ span', '#div', '#p0.a', '.a', '.a.b', '.x.y',
    'p.a, span.b, li', '#nothere', 'div#div.a.b.c', 'html > body > div', 'body *', 'ul > *', 'input', 'Item', 'item',
    # attributes
    '[id]', '[class]', '[class~=a]', '[class="a b  c"]', '[lang|=de]', '[href^=http]', '[href$=".html"]',
    '[href*=example]', '[type=radio]', '[type=RADIO]', '[type="radio" i]', '[type="RADIO" s]', '[TYPE=radio]',
    '[data-x~="2"]', '[name=""]', '[name]', '[title="a title" i]', '[id!=div]', '[type!=radio]', 'input[min][max]',
    '[checked]', '[Class]', '[plain]', '[x|attr]', '[*|attr]', '[|plain]', '[xlink|href]', '[xlink|href^=http]',
    '[x\\:attr]', '[xml\\:lang]', '[value="5"]', '[value]', '[dir=auto]', '[content]', '[http-equiv]',
    # namespaces
    'x|item', '*|item', '|item', 'x|*', '*|*', 'html|p', 'svg|a', 'html|*:not(html|p)', 'svg|*', '|*',
    # structural
    ':root', ':root > body', ':root > *', ':empty', 'em:empty', ':first-child', ':last-child', ':only-child',
    ':first-of-type', ':last-of-type', ':only-of-type', ':nth-child(2)', ':nth-child(odd)', ':nth-child(even)',
    'li:nth-child(2n+1)', 'li:nth-child(-n+3)', 'li:nth-child(n+3)', 'li:nth-child(-2n+5)', 'li:nth-last-child(2)',
    'li:nth-last-child(-n+2)', 'li:nth-of-type(2)', 'li:nth-of-type(2n)', 'li:nth-last-of-type(3)',
    'li:nth-child(2 of .x)', 'li:nth-child(odd of .x)', 'li:nth-last-child(1 of .x)', 'li:nth-child(-n+2 of .x, #li2)',
    ':nth-child(0n+1)', ':nth-child(10n-1)', ':nth-child(-1)', ':nth-child(n)', 'dt:nth-of-type(2)',
    'span:nth-of-type(1)', ':nth-last-of-type(1)', 'p:nth-child(2 of p.b, p.a)', ':nth-child(3 of :not(p))',
    # logical
    ':not(p)', ':not(.a, .b)', 'p:not(.a):not(.b)', ':is(p, span)', ':is(.a, .x):not(li)', ':where(#p0, #li1)',
    ':not(:not(p))', ':is()', ':not()', 'div:has(> p)', 'div:has(p)', ':has(+ p)', ':has(~ li.x)', ':has(> .a, > .x)',
    'div:has(> p:has(span))', ':not(:has(*))', 'ul:has(> li:nth-child(2 of .x))', ':has(> iframe)',
    ':has(p#fp1)', ':has(> html)', 'form:has(input[type=submit])', ':is(div, form) :is(p, input):not([type=radio])',
    ':not(div) > p', 'p:is(.a):where(.a):not(.z)', ':has(> :not(li))', 'body :not(div *)',
    # scope
    ':scope', ':scope > *', ':scope p', ':scope > p', ':scope :scope', ':not(:scope)', ':scope ~ *',
    # languages
    ':lang(en)', ':lang(de)', ':lang("de-DE")', ':lang("*-DE")', ':lang(de-DE-1996)', ':lang(fr)', ':lang("*-CA")',
    ':lang("")', ':lang(und)', 'p:lang(en, de)', ':lang(en-GB)', ':lang(en-AU)', ':lang("*")', ':lang(de-Latn)',
    ':lang(x)', ':not(:lang(en))', 'span:lang(de):not(:lang(de-DE))', ':lang(weird)', ':lang(a)',
    # directionality
    ':dir(ltr)', ':dir(rtl)', 'p:dir(rtl)', 'input:dir(rtl)', 'textarea:dir(rtl)', 'bdi:dir(rtl)', 'bdi:dir(ltr)',
    ':not(:dir(ltr))', ':dir(ltr):dir(rtl)', ':root:dir(ltr)', 'span:dir(rtl)', 'li:dir(rtl)', ':is(:dir(rtl), li)',
    # forms and ranges
    ':checked', ':default', ':indeterminate', ':disabled', ':enabled', ':required', ':optional', ':read-only',
    ':read-write', ':in-range', ':out-of-range', ':placeholder-shown', 'input:indeterminate', 'form :default',
    'input[type=radio]:indeterminate', ':not(:indeterminate)', ':not(:default)', 'input:not(:in-range)',
    ':in-range:not(:out-of-range)', ':link', ':any-link', 'a:any-link[href^="#"]', 'progress:indeterminate',
    ':default:is(button, input)', 'option:default', ':is(:checked, :default, :indeterminate)',
    # never matching
    ':hover', ':focus', ':active', ':visited', ':target', 'p:focus-within', ':not(:hover)', ':is(:focus, p)',
    ':current', ':past', ':future', ':paused', ':playing', ':host', ':target-within', ':user-invalid',
    # text
    ':-soup-contains(text)', ':-soup-contains("inner")', 'p:-soup-contains-own(text)', ':-soup-contains(a, b)',
    'div:-soup-contains("after", "zzz")', ':-soup-contains-own("s")', 'body:-soup-contains(inner)',
    ':-soup-contains(text):-soup-contains(span)', ':-soup-contains-own(cdata)', ':-soup-contains(radio)',
    # defined
    ':defined', ':not(:defined)', 'custom-el:defined', 'custom-tag',
    # iframes
    'iframe', 'iframe *', 'iframe > html', 'iframe p', 'html', 'html:root', 'iframe :root', 'body', ':root :root',
    'iframe :lang(fr)', 'iframe :dir(rtl)', 'iframe :default', 'iframe :indeterminate', 'iframe p:first-child',
    'div p, iframe p', 'html > body p', 'iframe inner', 'svg iframe *', 'iframe:has(p)',
    # HTML only internal lists (temporary `html` namespace + `iframe` restriction) next to user namespaces / iframes
    ':checked, x|item', 'x|item:not(:checked)', ':is(:link, x|*)', '[x|attr]:not(:disabled)', ':default, svg|a',
    ':not(:default) x|item', ':checked, iframe p', ':not(:default):is(iframe p)', ':required, iframe > html p',
    ':is(:checked, :default, html|p):not(svg|*)', ':disabled, [xlink|href]', ':has(:checked) ~ * x|item, |item',
    ':read-write, iframe inner', ':placeholder-shown, :has(> iframe p)', ':optional ~ iframe *',
    # long chains that exercise the evaluation order with odd attribute values
    'input#r1.a[type=radio]:in-range:lang(en):indeterminate:dir(ltr)',
    'input:indeterminate:dir(ltr):-soup-contains(x)', '*:lang(en):dir(ltr)', '[type]:in-range', '[dir]:dir(ltr)',
    '.a:lang(en)', '#div:dir(rtl)', '#p0, .a, [type=radio], :in-range', ':default:dir(ltr)', ':root:lang(en)',
    ':not(#div):not(.a):not([type=radio]):not(:in-range):not(:lang(en)):not(:dir(rtl))',
    'input:is([type=radio], [type=submit]):not(:checked):indeterminate', ':is(#x, .a, [id=div], :out-of-range)',
    ':nth-child(2 of [type=radio])', ':has(> [type=radio]:indeterminate)', ':has(:default)', ':has(:dir(rtl))',
    '[lang]:lang(de)', '[class]:not(.a)', '#div.a[class]:dir(rtl):lang(en):-soup-contains(text)',
    'input[value]:dir(rtl)', 'textarea:placeholder-shown:dir(ltr)', ':checked:default', ':empty:dir(ltr)',
]

CUSTOM = {
    ':--para': 'p.a, :--item',
    ':--item': 'li.x:nth-child(odd)',
}
CUSTOM_SELECTORS = [':--para', 'div :--para:not(#p0)', ':has(> :--item)']


# ----------------------------------------------------------------------------------------------------------------------
# Comparison machinery
# ----------------------------------------------------------------------------------------------------------------------
def describe(tag):
    """Short description of a tag for messages."""

    if isinstance(tag, bs4.Tag):
        return f'<{tag.name} id={tag.attrs.get("id")!r}>'
    return repr(tag)


def outcome(func):
    """Run `func`, return a comparable outcome."""

    try:
        result = func()
    except RecursionError:  # pragma: no cover
        raise
    except Exception as e:  # noqa: BLE001
        return ('raise', type(e).__name__, str(e))
    if isinstance(result, list):
        return ('list', tuple(id(x) for x in result), tuple(describe(x) for x in result))
    if isinstance(result, bs4.Tag):
        return ('tag', id(result), describe(result))
    return ('value', result)


def fingerprint(node):
    """Fingerprint a tree: structure, identities, attribute names, values and value types."""

    out = []
    stack = [node]
    while stack:
        n = stack.pop()
        if isinstance(n, bs4.Tag):
            out.append((
                id(n), n.name, n.prefix, n.namespace, id(n.parent), id(n.next_element), id(n.previous_element),
                id(n.next_sibling), id(n.previous_sibling), id(n.attrs),
                tuple((repr(k), type(v).__name__, repr(v)) for k, v in n.attrs.items()),
                tuple(id(c) for c in n.contents)
            ))
            stack.extend(reversed(n.contents))
        else:
            out.append((id(n), type(n).__name__, str(n), id(n.parent), id(n.next_element)))
    return out


class Checker:
    """Run combinations against both implementations."""

    def __init__(self, new, ref):
        self.new = new
        self.ref = ref
        self.count = 0
        self.raised = 0
        self.failures = []
        self.exception_kinds = set()

    def compare(self, label, new_func, ref_func):
        """Compare one combination."""

        a = outcome(new_func)
        b = outcome(ref_func)
        self.count += 1
        if b[0] == 'raise':
            self.raised += 1
            self.exception_kinds.add(b[1])
        if a != b:
            self.failures.append((label, a, b))
            if len(self.failures) <= 20:
                print('MISMATCH', label, '\n   new:', a, '\n   ref:', b)

    def compile_both(self, selector, namespaces, custom):
        """Compile with both (compile errors must agree as well)."""

        a = outcome(lambda: self.new.compile(selector, namespaces=namespaces, custom=custom) and 1)
        b = outcome(lambda: self.ref.compile(selector, namespaces=namespaces, custom=custom) and 1)
        assert a == b, (selector, a, b)
        if a[0] == 'raise':
            return None, None
        return (
            self.new.compile(selector, namespaces=namespaces, custom=custom),
            self.ref.compile(selector, namespaces=namespaces, custom=custom)
        )

    def run_entry_points(self, label, pn, pr, scope, sample):
        """All entry points for one compiled pattern and one scope."""

        cmp = self.compare
        cmp(label + ' select', lambda: pn.select(scope), lambda: pr.select(scope))
        cmp(label + ' select(limit=2)', lambda: pn.select(scope, limit=2), lambda: pr.select(scope, limit=2))
        cmp(label + ' select_one', lambda: pn.select_one(scope), lambda: pr.select_one(scope))
        cmp(label + ' iselect', lambda: list(pn.iselect(scope)), lambda: list(pr.iselect(scope)))
        cmp(label + ' filter(tag)', lambda: pn.filter(scope), lambda: pr.filter(scope))
        cmp(
            label + ' filter(list)',
            lambda: pn.filter(list(scope.contents)), lambda: pr.filter(list(scope.contents))
        )
        cmp(label + ' match(scope)', lambda: pn.match(scope), lambda: pr.match(scope))
        cmp(label + ' closest(scope)', lambda: pn.closest(scope), lambda: pr.closest(scope))
        for el in sample:
            cmp(label + ' match ' + describe(el), lambda: pn.match(el), lambda: pr.match(el))
            cmp(label + ' closest ' + describe(el), lambda: pn.closest(el), lambda: pr.closest(el))

    def module_level_api(self, label, selector, namespaces, scope):
        """The module level functions (these go through the compile cache)."""

        new, ref = self.new, self.ref
        self.compare(
            label + ' sv.select',
            lambda: new.select(selector, scope, namespaces=namespaces),
            lambda: ref.select(selector, scope, namespaces=namespaces)
        )
        self.compare(
            label + ' sv.select_one',
            lambda: new.select_one(selector, scope, namespaces=namespaces),
            lambda: ref.select_one(selector, scope, namespaces=namespaces)
        )
        self.compare(
            label + ' sv.match',
            lambda: new.match(selector, scope, namespaces=namespaces),
            lambda: ref.match(selector, scope, namespaces=namespaces)
        )
        self.compare(
            label + ' sv.closest',
            lambda: new.closest(selector, scope, namespaces=namespaces),
            lambda: ref.closest(selector, scope, namespaces=namespaces)
        )
        self.compare(
            label + ' sv.filter',
            lambda: new.filter(selector, scope, namespaces=namespaces),
            lambda: ref.filter(selector, scope, namespaces=namespaces)
        )
        self.compare(
            label + ' sv.iselect',
            lambda: list(new.iselect(selector, scope, namespaces=namespaces, limit=3)),
            lambda: list(ref.iselect(selector, scope, namespaces=namespaces, limit=3))
        )

    def bs4_api(self, label, selector, namespaces, scope):
        """The `bs4` call form (`Tag.select` / `Tag.select_one`), only exercises the worktree version."""

        if self.new is not sys.modules.get('soupsieve'):  # pragma: no cover
            return
        # `bs4` falls back to the prefixes it collected while parsing when no namespaces are given.
        ref_ns = namespaces if namespaces is not None else scope._namespaces
        self.compare(
            label + ' bs4.select',
            lambda: list(scope.select(selector, namespaces=namespaces)),
            lambda: self.ref.select(selector, scope, namespaces=ref_ns)
        )
        self.compare(
            label + ' bs4.select_one',
            lambda: scope.select_one(selector, namespaces=namespaces),
            lambda: self.ref.select_one(selector, scope, namespaces=ref_ns)
        )


def step(gen):
    """Advance a generator once, return a comparable outcome."""

    try:
        return ('item', id(next(gen)))
    except StopIteration:
        return ('stop',)
    except Exception as e:  # noqa: BLE001
        return ('raise', type(e).__name__, str(e))


def interleaved_iselect(checker, docs):
    """Suspend `iselect()` generators, run other queries (same and other documents), resume."""

    new, ref = checker.new, checker.ref
    selectors = [
        'p:lang(en)', ':default', ':indeterminate', 'iframe *', ':is(p, li):dir(rtl)', 'li:nth-child(odd of .x)',
        'html|p, [type=radio]', ':has(> p)', ':scope > *', ':not(:lang(de)):-soup-contains(text)'
    ]
    others = [':root', ':default', 'input:indeterminate', ':lang(fr)', ':dir(rtl)', 'iframe p', ':has(> li)']
    pairs = [(name, soup) for name, soup in docs if '/' not in name or name.endswith(('odd-list', 'odd-bad_bytes'))]
    for (name, soup), selector in itertools.product(pairs, selectors):
        pn, pr = checker.compile_both(selector, NS_NO_DEFAULT, None)
        label = f'[interleave {name}] {selector!r}'
        # Several generators of the *same* compiled pattern open at once, on the same and on other scopes.
        scopes = [soup] + [el for el in (find_by_id(soup, 'div'), find_by_id(soup, 'form1')) if el is not None]
        gens_n = [pn.iselect(s) for s in scopes] + [pn.iselect(soup, limit=3)]
        gens_r = [pr.iselect(s) for s in scopes] + [pr.iselect(soup, limit=3)]
        alive = list(range(len(gens_n)))
        rounds = 0
        while alive and rounds < 400:
            rounds += 1
            for i in list(alive):
                a, b = step(gens_n[i]), step(gens_r[i])
                checker.count += 1
                if a != b:
                    checker.failures.append((label, a, b))
                    print('MISMATCH', label, a, b)
                if b[0] != 'item':
                    alive.remove(i)
                # Other queries while everything is suspended, on this and on another document.
                other = others[(rounds + i) % len(others)]
                other_soup = docs[(rounds * 7 + i) % len(docs)][1]
                for target in (soup, other_soup):
                    checker.compare(
                        label + f' / meanwhile {other!r}',
                        lambda: new.select(other, target, namespaces=NS_NO_DEFAULT),
                        lambda: ref.select(other, target, namespaces=NS_NO_DEFAULT)
                    )
                # And the same compiled pattern again, from scratch.
                if rounds % 5 == 0:
                    checker.compare(label + ' / same again', lambda: pn.select(soup), lambda: pr.select(soup))


def threaded(checker, docs):
    """Several threads share documents and compiled patterns; answers must equal the sequential ones."""

    new, ref = checker.new, checker.ref
    selectors = ['p:lang(en)', ':default', ':indeterminate', 'iframe *', ':dir(rtl)', 'li:nth-child(odd of .x)',
                 'html|p', ':has(> p)', ':in-range', ':not(:defined)']
    work = []
    for name, soup in docs[:6]:
        for selector in selectors:
            pn, pr = checker.compile_both(selector, NS_NO_DEFAULT, None)
            work.append((f'[threads {name}] {selector!r}', pn, soup, outcome(lambda: pr.select(soup))))
    errors = []

    def worker(offset):
        for k in range(len(work) * 2):
            label, pn, soup, expected = work[(k * 3 + offset) % len(work)]
            got = outcome(lambda: pn.select(soup))
            if got != expected:
                errors.append((label, got, expected))

    threads = [threading.Thread(target=worker, args=(i,)) for i in range(6)]
    for t in threads:
        t.start()
    for t in threads:
        t.join()
    checker.count += len(work) * 2 * len(threads)
    for e in errors:
        checker.failures.append(e)
        print('MISMATCH', *e)


def state_checks(new):
    """Matcher state must be per call: slots only, nothing on the class / module / compiled pattern."""

    cm = new.css_match
    soup = bs4.BeautifulSoup(HTML, 'html.parser')
    pattern = new.compile(':default, :indeterminate, p:lang(en):dir(ltr)')
    module_before = {k: id(v) for k, v in vars(cm).items()}
    class_before = {k: id(v) for k, v in vars(cm.CSSMatch).items()}
    pattern_before = (hash(pattern), repr(pattern))
    matcher = cm.CSSMatch(pattern.selectors, soup, pattern.namespaces, pattern.flags)
    assert not hasattr(matcher, '__dict__'), 'CSSMatch instances should not have a __dict__'
    list(matcher.select())
    assert matcher.namespaces == {} and matcher.iframe_restrict is False
    pattern.select(soup)
    assert {k: id(v) for k, v in vars(cm).items()} == module_before
    assert {k: id(v) for k, v in vars(cm.CSSMatch).items()} == class_before
    assert (hash(pattern), repr(pattern)) == pattern_before

    # `namespaces` / `iframe_restrict` are put back on every path, also when matching raises.
    find_by_id(soup, 'r2').attrs['type'] = b'\xff'
    bad = new.compile(':indeterminate')
    matcher = cm.CSSMatch(bad.selectors, soup, {'a': 'b'}, bad.flags)
    saved = matcher.namespaces
    try:
        list(matcher.select())
    except UnicodeDecodeError:
        pass
    else:  # pragma: no cover
        raise AssertionError('expected the odd attribute to raise')
    assert matcher.namespaces is saved and matcher.iframe_restrict is False


def main():
    """Run."""

    new, ref, tmp = load_implementations()
    print('new :', new.css_match.__file__)
    print('ref :', ref.css_match.__file__)
    try:
        checker = Checker(new, ref)
        docs = build_documents()
        frags = detached_fragments()
        if '--quick' in sys.argv[1:]:
            # Base documents plus a few of the odd attribute ones (about 20 seconds instead of a few minutes).
            docs = [d for d in docs if '/' not in d[0] or d[0].endswith(('odd-list', 'odd-bad_bytes', 'odd-keys'))]
        everything = docs + frags
        prints_before = [fingerprint(soup) for _, soup in everything]

        state_checks(new)

        plan = [(s, None, None) for s in SELECTORS]
        plan += [(s, NS, None) for s in SELECTORS if '|' in s or 'lang' in s or s in ('*', 'p', 'item', ':root')]
        plan += [(s, NS_NO_DEFAULT, None) for s in SELECTORS if '|' in s or 'iframe' in s or ':default' in s]
        plan += [(s, None, CUSTOM) for s in CUSTOM_SELECTORS]

        combos = 0
        for doc_index, (name, soup) in enumerate(everything):
            full = '/' not in name
            scopes = scopes_for(name, soup) if not name.startswith('detached') else [('frag', soup)]
            if not full:
                # Odd attribute documents and fragments: document / fragment scope plus one inner scope.
                scopes = scopes[:1] + scopes[2:3]
            tags = [t for t in soup.descendants if isinstance(t, bs4.Tag)]
            for sel_index, (selector, namespaces, custom) in enumerate(plan):
                pn, pr = checker.compile_both(selector, namespaces, custom)
                if pn is None:
                    continue
                # A rotating sample of elements for `match` / `closest` (everything would take minutes).
                width = 12 if full else 5
                start = (sel_index * 5 + doc_index) % max(len(tags), 1)
                sample = (tags + tags)[start:start + width] if tags else []
                for scope_name, scope in scopes:
                    label = f'[{name} @{scope_name}] {selector!r} ns={"yes" if namespaces else "no"}'
                    checker.run_entry_points(label, pn, pr, scope, sample if scope is soup else sample[:3])
                    combos += 1
                    if (sel_index + doc_index) % 7 == 0 and custom is None:
                        checker.module_level_api(label, selector, namespaces, scope)
                    if (sel_index + doc_index) % 11 == 0 and custom is None:
                        checker.bs4_api(label, selector, namespaces, scope)

        # Invalid inputs
        for bad in (None, 'string', 5, bs4.NavigableString('x'), bs4.Comment('c')):
            pn, pr = checker.compile_both('p', None, None)
            checker.compare(f'bad input {bad!r} select', lambda: pn.select(bad), lambda: pr.select(bad))
            checker.compare(f'bad input {bad!r} match', lambda: pn.match(bad), lambda: pr.match(bad))
            checker.compare(f'bad input {bad!r} closest', lambda: pn.closest(bad), lambda: pr.closest(bad))
            checker.compare(f'bad input {bad!r} filter', lambda: pn.filter([bad]), lambda: pr.filter([bad]))

        interleaved_iselect(checker, docs)
        threaded(checker, docs)

        prints_after = [fingerprint(soup) for _, soup in everything]
        modified = [everything[i][0] for i in range(len(everything)) if prints_before[i] != prints_after[i]]

        print(f'documents / fragments         : {len(docs)} / {len(frags)}')
        print(f'selector plans                : {len(plan)}')
        print(f'(selector, doc, scope) combos : {combos}')
        print(f'individual comparisons        : {checker.count}')
        print(f'...of which raised (both)     : {checker.raised} {sorted(checker.exception_kinds)}')
        print(f'modified documents            : {modified}')
        print(f'mismatches                    : {len(checker.failures)}')
        ok = not checker.failures and not modified
        print('RESULT:', 'OK - identical' if ok else 'FAILED')
        return 0 if ok else 1
    finally:
        shutil.rmtree(tmp, ignore_errors=True)


if __name__ == '__main__':
    sys.exit(main())
