"""
Differential self-check: the worktree's `soupsieve` against the unmodified sources (`git archive HEAD soupsieve`).

The same battery runs in two fresh interpreters (one per source tree); the transcripts must be identical.
Run with `/venv/bin/python selfcheck.py` from the worktree.
"""
import os
import subprocess
import sys
import tarfile
import tempfile
import io

HERE = os.path.dirname(os.path.abspath(__file__))

BATTERY = r'''
import sys, warnings, io, contextlib
buf_out, buf_err = io.StringIO(), io.StringIO()
with warnings.catch_warnings(record=True) as caught:
    warnings.simplefilter('always')
    with contextlib.redirect_stdout(buf_out), contextlib.redirect_stderr(buf_err):
        if sys.argv[1] == 'bs4first':
            import bs4
            import soupsieve as sv
        else:
            import soupsieve as sv
            import bs4
print('import noise', repr(buf_out.getvalue()), repr(buf_err.getvalue()), [str(w.message) for w in caught])

import collections, copy, gc, pickle, threading, types, weakref, random
from soupsieve import css_parser as cp, css_types as ct, css_match as cm

assert sv.__file__.startswith(sys.argv[2]), (sv.__file__, sys.argv[2])


def show(label, fn):
    try:
        r = fn()
    except BaseException as e:
        print(label, 'EXC', type(e).__name__, str(e))
        return None
    else:
        print(label, 'OK', r)
        return r


def info():
    i = cp._cached_css_compile.cache_info()
    return (i.hits, i.misses, i.maxsize, i.currsize)


def desc(c):
    return (
        type(c).__name__, c.pattern, repr(c.selectors), type(c.namespaces).__name__, repr(c.namespaces),
        type(c.custom).__name__, repr(c.custom), c.flags, hash(c) == hash(copy.deepcopy(c))
    )


class D(dict):
    pass


class OD(collections.OrderedDict):
    pass


def gen(pairs):
    return (p for p in pairs)


MAPS = [
    ('none', lambda: None),
    ('empty', lambda: {}),
    ('dict', lambda: {'a': 'b', 'c': 'd'}),
    ('dict_rev', lambda: {'c': 'd', 'a': 'b'}),
    ('sub', lambda: D({'a': 'b', 'c': 'd'})),
    ('odict', lambda: OD([('c', 'd'), ('a', 'b')])),
    ('pairs', lambda: [('a', 'b'), ('c', 'd')]),
    ('tuplepairs', lambda: (('c', 'd'), ('a', 'b'))),
    ('gen', lambda: gen([('a', 'b')])),
    ('proxy', lambda: types.MappingProxyType({'ab': 'x'})),
    ('proxy3', lambda: types.MappingProxyType({'abc': 'x'})),
    ('ns_inst', lambda: ct.Namespaces({'a': 'b'})),
    ('ns_inst2', lambda: ct.Namespaces({'ab': 'b'})),
    ('ns_empty', lambda: ct.Namespaces({})),
    ('cs_inst', lambda: ct.CustomSelectors({':--a': 'b'})),
    ('cs_inst2', lambda: ct.CustomSelectors({'ab': 'b'})),
    ('intkey', lambda: {1: 'a'}),
    ('intval', lambda: {'a': 1}),
    ('mixedkeys', lambda: {1: 'a', 'b': 'c'}),
    ('noneval', lambda: {'a': None}),
    ('int', lambda: 5),
    ('zero', lambda: 0),
    ('str', lambda: 'ab'),
    ('emptystr', lambda: ''),
    ('listval', lambda: {'a': ['x']}),
    ('badpairs', lambda: [('a', 1)]),
    ('triple', lambda: [('a', 'b', 'c')]),
    ('custom_ok', lambda: {':--x': 'p.a', ':--y': ':--x > b'}),
    ('custom_case', lambda: {':--X': 'p.a'}),
    ('custom_dup', lambda: {':--A': 'b', ':--a': 'c'}),
    ('custom_dup_esc', lambda: {':--\\61': 'b', ':--a': 'c'}),
    ('custom_bad', lambda: {':-x': 'p'}),
    ('custom_badsel', lambda: {':--x': 'p['}),
    ('custom_rec', lambda: {':--x': ':--x'}),
]

PATTERNS = ['a', 'p.a', 'ns|a', 'a:--x', ':--y', 'p[', '', ' ', 'a\x00b', b'a', ['a'], None, 5, ':is(a, b) > c:nth-child(2n+1 of p)']
FLAGS = [0, 1, False, 0.0, 'x', None, 2]

# 1. Argument matrix: results, exception types and messages, and what the cache looks like afterwards
sv.purge()
for pat in PATTERNS:
    for nname, nf in MAPS:
        for cname, cf in (MAPS if pat in ('a', 'a:--x', ':--y') else MAPS[:6] + MAPS[27:]):
            for fl in (FLAGS if (nname in ('none', 'dict') and cname in ('none', 'custom_ok')) else [0]):
                label = f'compile {pat!r} ns={nname} custom={cname} flags={fl!r}'
                r = show(label, lambda: desc(sv.compile(pat, nf(), fl, custom=cf())))
    print('cache', info())

# 2. compile(compiled): same object, or ValueError exactly as before
sv.purge()
c = sv.compile('p.a', {'a': 'b'}, custom={':--x': 'p'})
for nname, nf in MAPS[:8] + [('zero', lambda: 0), ('emptystr', lambda: '')]:
    for cname, cf in MAPS[:4] + [('zero', lambda: 0)]:
        for fl in FLAGS + [[], [0]]:
            show(f'recompile ns={nname} custom={cname} flags={fl!r}', lambda: sv.compile(c, nf(), fl, custom=cf()) is c)
show('recompile kw', lambda: sv.compile(c, foo=1) is c)
show('recompile pos', lambda: sv.compile(c, None, 0) is c)
print('cache', info())

# 3. Key semantics: equal arguments -> one entry and the same object, whatever the ordering or dict type
sv.purge()
objs = [
    sv.compile('p.a', {'a': 'b', 'c': 'd'}, custom={':--x': 'p', ':--y': 'q'}),
    sv.compile('p.a', {'c': 'd', 'a': 'b'}, custom={':--y': 'q', ':--x': 'p'}),
    sv.compile('p.a', D({'c': 'd', 'a': 'b'}), custom=OD([(':--y', 'q'), (':--x', 'p')])),
    sv.compile('p.a', [('c', 'd'), ('a', 'b')], 0, custom=((':--x', 'p'), (':--y', 'q'))),
    sv.compile('p.a', {'c': 'd', 'a': 'b'}, False, custom={':--y': 'q', ':--x': 'p'}),
]
print('same object', [o is objs[0] for o in objs], info())
a, b, d = sv.compile('p.a'), sv.compile('p.a', {}), sv.compile('p.a', custom={})
e = sv.compile('p.a', {}, custom={})
print('none vs empty', a is b, a is d, b is d, b is e, a == b, a == d, b == d, len({a, b, d, e}), info())
print('again', sv.compile('p.a') is a, sv.compile('p.a', {}) is b, sv.compile('p.a', custom={}) is d, info())

# 4. Equality, hash, pickle, copy; equal to a fresh parse whatever preceded
for args, kw in [(('p.a',), {}), (('p.a', {'a': 'b'}), {}), (('a:--x', {'a': 'b'}, 0), {'custom': {':--x': 'p > a'}}),
                 ((':is(a, b) > c:nth-child(2n+1 of p)',), {})]:
    x = sv.compile(*args, **kw)
    sv.purge()
    y = sv.compile(*args, **kw)
    z = pickle.loads(pickle.dumps(x))
    print('eq', args, kw, x is y, x == y, hash(x) == hash(y), z == x, hash(z) == hash(x), copy.copy(x) == x,
          copy.deepcopy(x) == x, repr(x) == repr(y), repr(z) == repr(x))
    for name in ('pattern', 'selectors', 'namespaces', 'custom', 'flags'):
        show('immutable ' + name, lambda: setattr(x, name, 1))

# 5. No reference to what the caller passed is kept
sv.purge()
nsd, cud = D({'a': 'b'}), D({':--x': 'p'})
wn, wc = weakref.ref(nsd), weakref.ref(cud)
k = sv.compile('p.a:--x', nsd, custom=cud)
print('identity', k.namespaces is nsd, k.custom is cud, type(k.namespaces).__name__, type(k.custom).__name__)
nsd['zz'] = 'q'
cud[':--zz'] = 'q'
print('after caller mutation', repr(k.namespaces), repr(k.custom), sv.compile('p.a:--x', {'a': 'b'}, custom={':--x': 'p'}) is k)
del nsd, cud
gc.collect()
print('released', wn() is None, wc() is None)

# 6. Cache bound and purge
sv.purge()
print('purged', info())
for i in range(620):
    sv.compile(f'p.c{i}', {'a': 'b'} if i % 2 else None, custom={':--x': 'p'} if i % 3 == 0 else None)
print('bound', info(), cp._MAXCACHE)
sv.purge()
print('purged', info())
show('failing compile leaves nothing', lambda: sv.compile('p[', {'a': 'b'}))
show('failing custom leaves nothing', lambda: sv.compile('p', custom={':-x': 'b'}))
show('failing namespaces leaves nothing', lambda: sv.compile('p', {'a': 1}))
print('after failures', info())

# 7. process_custom as a function of its own
for cname, cf in MAPS:
    def run():
        m = cf()
        r = cp.process_custom(None if m is None else ct.CustomSelectors(m))
        return (type(r).__name__, list(r.items()))
    show('process_custom ' + cname, run)
print('process_custom fresh', cp.process_custom(None) is not cp.process_custom(None))
cs = ct.CustomSelectors({':--x': 'p'})
print('process_custom private', cp.process_custom(cs) is not cp.process_custom(cs))

# 8. Selection results and no change to the document
MARKUP = """<html><body><div id="d" class="a"><p class="a" id="1">x<a href="u">l</a></p><p id="2">y<b>z</b></p>
<svg xmlns="http://www.w3.org/2000/svg"><a>s</a></svg><input type="radio" name="r"><input type="checkbox" checked></div></body></html>"""
for parser in ('html.parser', 'lxml', 'html5lib', 'xml'):
    try:
        soup = bs4.BeautifulSoup(MARKUP, parser)
    except Exception as exc:
        print('parser', parser, 'unavailable', type(exc).__name__)
        continue
    before = soup.decode()
    ns = {'svg': 'http://www.w3.org/2000/svg', 'h': 'http://www.w3.org/1999/xhtml'}
    for sel, kw in [('p.a', {}), ('p:--x', {'custom': {':--x': '.a'}}), ('svg|a', {'namespaces': ns}), ('div > p:has(> b)', {}),
                    (':checked', {}), (':indeterminate', {}), ('p:nth-child(2n+1 of .a)', {}), ('a', {'namespaces': {}})]:
        def run():
            c2 = sv.compile(sel, kw.get('namespaces'), custom=kw.get('custom'))
            r1 = [str(t) for t in c2.select(soup)]
            r2 = [str(t) for t in sv.select(sel, soup, kw.get('namespaces'))] if 'custom' not in kw else None
            r3 = [str(t) for t in soup.select(sel, namespaces=kw.get('namespaces'))] if 'custom' not in kw else None
            r4 = [str(t) for t in soup.find_all(True) if c2.match(t)]
            return (r1, r1 == r2 if r2 is not None else None, r1 == r3 if r3 is not None else None, r1 == r4)
        show(f'select {parser} {sel!r}', run)
    print('document unchanged', parser, soup.decode() == before)

# 9. Threads: everyone gets what a lone call gives, and the cache ends up consistent
sv.purge()
jobs = [('p.a', None, None), ('p.a', {'a': 'b'}, None), ('p:--x', None, {':--x': '.a'}), ('p:--x', {'a': 'b'}, {':--x': '.a', ':--y': ':--x b'}),
        (':is(a, b) > c:nth-child(2n+1 of p)', None, None), ('p[', None, None), ('p', None, {':-x': 'b'}), ('p', {'a': 1}, None)]
expected = []
for pat, n, cu in jobs:
    try:
        expected.append(('OK', sv.compile(pat, n, custom=cu)))
    except Exception as exc:
        expected.append(('EXC', type(exc).__name__, str(exc)))
sv.purge()
bad = []
barrier = threading.Barrier(8)


def worker(seed):
    rnd = random.Random(seed)
    barrier.wait()
    for _ in range(400):
        i = rnd.randrange(len(jobs))
        pat, n, cu = jobs[i]
        try:
            got = ('OK', sv.compile(pat, None if n is None else dict(n), custom=None if cu is None else dict(cu)))
        except Exception as exc:
            got = ('EXC', type(exc).__name__, str(exc))
        if got != expected[i] or (got[0] == 'OK' and (hash(got[1]) != hash(expected[i][1]) or repr(got[1]) != repr(expected[i][1]))):
            bad.append((i, got))
        if rnd.random() < 0.02:
            sv.purge()


threads = [threading.Thread(target=worker, args=(s,)) for s in range(8)]
for t in threads:
    t.start()
for t in threads:
    t.join()
i = cp._cached_css_compile.cache_info()
print('threads', bad, i.currsize <= 5, i.maxsize)
print('module state', sorted(n for n, v in vars(sv).items() if isinstance(v, (dict, list, set)) and not n.startswith('__')))
print('cp api', callable(cp._cached_css_compile.cache_clear), cp._cached_css_compile.__wrapped__.__name__, cp._purge_cache.__name__,
      cp.process_custom.__name__, sorted(sv.__all__))
'''


def run(tree, order):
    env = dict(os.environ)
    env['PYTHONPATH'] = tree
    env['PYTHONHASHSEED'] = '0'
    p = subprocess.run(
        [sys.executable, '-W', 'error', '-c', BATTERY, order, tree],
        env=env, cwd=tempfile.gettempdir(), capture_output=True, text=True
    )
    return p.returncode, p.stdout, p.stderr


def main():
    with tempfile.TemporaryDirectory() as base:
        data = subprocess.run(['git', 'archive', 'HEAD', 'soupsieve'], cwd=HERE, capture_output=True, check=True).stdout
        tarfile.open(fileobj=io.BytesIO(data)).extractall(base)
        failed = False
        for order in ('bs4first', 'svfirst'):
            ref = run(base, order)
            new = run(HERE, order)
            ref = (ref[0], ref[1].replace(base, '<tree>'), ref[2].replace(base, '<tree>'))
            new = (new[0], new[1].replace(HERE, '<tree>'), new[2].replace(HERE, '<tree>'))
            lines = ref[1].count('\n')
            if ref[0] != 0 or ref[2]:
                failed = True
                print(order, 'REFERENCE RUN FAILED', ref[0], ref[2][-2000:])
            if ref != new:
                failed = True
                print(order, 'DIFFERENT')
                a, b = ref[1].splitlines(), new[1].splitlines()
                for n, (x, y) in enumerate(zip(a, b)):
                    if x != y:
                        print('  first difference at line', n, '\n   ref:', x[:400], '\n   new:', y[:400])
                        break
                else:
                    print('  lengths', len(a), len(b), 'rc', ref[0], new[0], 'stderr', new[2][-2000:])
            else:
                print(order, 'identical:', lines, 'transcript lines')
        print('FAILED' if failed else 'ALL IDENTICAL')
        return 1 if failed else 0


if __name__ == '__main__':
    sys.exit(main())
