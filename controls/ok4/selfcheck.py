"""
Self check for the per-call memo tables in `soupsieve/css_match.py`.

Run with: cd /tmp/wt_ok4 && PYTHONPATH=/tmp/wt_ok4 /venv/bin/python selfcheck.py

What is checked, for every document and every selector below:

1.  `select` membership equals per-element `match` (forward order, reverse order, before and after other queries).
2.  The same holds on a freshly parsed copy and on `copy.copy` of the document (compared by element position).
3.  A lazily consumed `iselect` that is suspended while other queries run gives the same elements.
4.  `select` from every element as scope equals `match` on its descendants, `filter` and `closest` agree with `match`.
5.  The document is unchanged afterwards (markup, attribute dictionaries, links between the nodes).
6.  Results are identical to the unpatched `css_match.py` (taken from `git show HEAD:`), also when the tree is
    altered while an `iselect` generator is suspended, and exceptions are the same for hostile attribute values.
7.  Concurrent queries from several threads return what they return alone.
8.  Documents that are dropped and re-created (recycled ids) keep giving the same answers.
"""
import copy
import gc
import importlib
import os
import shutil
import subprocess
import sys
import tempfile
import threading
import warnings

import bs4

HERE = os.path.dirname(os.path.abspath(__file__))
sys.path.insert(0, HERE)

import soupsieve as sv  # noqa: E402

assert os.path.dirname(os.path.abspath(sv.__file__)) == os.path.join(HERE, 'soupsieve'), sv.__file__


def load_baseline():
    """Import the unpatched library (HEAD version of `css_match.py`) under another package name."""

    try:
        original = subprocess.run(
            ['git', 'show', 'HEAD:soupsieve/css_match.py'], cwd=HERE, check=True, capture_output=True
        ).stdout
    except Exception as e:  # pragma: no cover
        print('baseline not available, differential checks are skipped:', e)
        return None, None
    tmp = tempfile.mkdtemp(prefix='ok4_selfcheck_')
    shutil.copytree(
        os.path.join(HERE, 'soupsieve'), os.path.join(tmp, 'soupsieve_base'),
        ignore=shutil.ignore_patterns('__pycache__')
    )
    with open(os.path.join(tmp, 'soupsieve_base', 'css_match.py'), 'wb') as f:
        f.write(original)
    sys.path.insert(0, tmp)
    try:
        mod = importlib.import_module('soupsieve_base')
    finally:
        sys.path.remove(tmp)
    assert not hasattr(mod.css_match.CSSMatch, 'get_form_owner')
    return mod, tmp


BLOCK = """
<div class="blk" lang="de">
  <p id="dup">Hallo <span>Welt</span></p>
  <section lang="">
    <p id="dup">Hallo <span>Welt</span></p>
    <div><em lang="en-US">hello <b>bold</b></em><em>ohne</em></div>
  </section>
  <form>
    <input type="radio" name="grp" id="r1">
    <input type="radio" name="GRP" id="r2" checked>
    <input type="radio" name="Grp" id="r3">
    <input type="text" dir="auto" value="אב">
    <input type="text" dir="auto" value="abc">
    <input type="text" dir="auto" value="">
    <button type="submit">Go</button>
    <input type="submit" value="second">
  </form>
</div>
"""

HTML_MAIN = """<!DOCTYPE html>
<html lang="en">
<head>
<meta http-equiv="content-language" content="fr">
<title>t</title>
</head>
<body>
""" + BLOCK + BLOCK + """
<div id="dirs" dir="rtl">
  <p>rtl text <span dir="ltr">ltr <i>deep <u>deeper</u></i></span></p>
  <p dir="auto">שלום <span>x</span></p>
  <p dir="auto"><span dir="rtl">skipped</span>latin</p>
  <p dir="auto"><script>var x;</script><bdi>א</bdi></p>
  <p dir="AUTO">123 <b>456</b></p>
  <bdi>العربية</bdi>
  <bdi>plain</bdi>
  <bdi></bdi>
  <textarea dir="auto">אבג</textarea>
  <textarea dir="auto"></textarea>
  <input type="tel" value="א">
  <input type="tel" dir="auto" value="א">
  <input type="checkbox" dir="auto">
  <div dir="bogus"><p>inherits <span dir="">empty</span></p></div>
</div>
<form id="outer">
  <input type="checkbox" checked id="c1">
  <input type="radio" name="a" id="a1">
  <input type="radio" name="a" id="a2">
  <input type="radio" name="A" id="a3" checked>
  <input type="radio" name="b" id="b1">
  <input type="radio" name="b" id="b2" checked>
  <div><p><input type="radio" name="deep" id="d1"><span><input type="radio" name="deep" id="d2"></span></p></div>
  <select><option id="o1">1</option><option selected id="o2">2</option><option selected id="o3">3</option></select>
  <select multiple><option id="o4">1</option><option selected id="o5">2</option></select>
  <progress id="pr"></progress>
  <input type="image" id="noimg">
  <div><span><button id="deepsubmit" type="SUBMIT">deep</button></span></div>
  <button type="submit" id="latesubmit">late</button>
</form>
<form id="casegroups">
  <input type="radio" name="x" id="x1">
  <input type="radio" name="x" id="x2" checked>
  <input type="radio" name="X" id="X1">
  <input type="radio" name="X" id="X2">
  <input type="radio" name="ifr" id="ifr0" checked>
  <iframe><html><body>
    <input type="radio" name="ifr" id="ifr1"><input type="radio" name="x" id="x3">
    <input type="submit" id="ifrsubmit">
  </body></html></iframe>
  <input type="submit" id="aftersubmit">
</form>
<form id="nosubmit">
  <input type="radio" name="a" id="n1">
  <input type="radio" name="a" id="n2">
  <input type="text" id="n3">
  <button type="button" id="n4">b</button>
</form>
<form id="nestouter"><div><form id="nestinner"><input type="submit" id="ni"></form></div><input type="submit" id="no"></form>
<input type="radio" name="a" id="free1">
<input type="radio" name="a" id="free2">
<input type="radio" name="free" id="free3" checked>
<input type="radio" name="free" id="free4">
<input type="submit" id="freesubmit">
<div lang="">
  <p id="emptylang">empty <span lang="">also empty</span></p>
</div>
<div lang="zh-Hant-TW"><p><span><i><b><u>deep chinese</u></b></i></span></p></div>
<iframe id="frame1" lang="es">
  <html lang="pt" dir="rtl"><head><meta http-equiv="content-language" content="it"></head>
  <body><p id="in1">dentro <span>x</span></p>
  <form><input type="radio" name="a" id="fr1"><input type="submit" id="fs1"></form>
  <input type="radio" name="a" id="fr2">
  <div dir="auto"><iframe><html><body><p id="in2">latin</p></body></html></iframe></div>
  </body></html>
</iframe>
<iframe id="frame2">
  <html><head><meta http-equiv="content-language" content="ja"></head>
  <body><p id="in3">no lang <span>y</span></p><bdi>z</bdi></body></html>
</iframe>
<p id="after">after <span>frames</span></p>
</body>
</html>
"""

HTML_META_ONLY = """<html><head>
<meta http-equiv="Content-Language" content="en-GB">
<meta http-equiv="content-language" content="de">
</head><body>
<div><p id="m1">a<span>b</span></p><p id="m1">a<span>b</span></p></div>
<div lang="fr"><p>c<span lang="">d<i>e</i></span></p></div>
<div dir="auto"><p>א</p></div>
<iframe><html><head><meta http-equiv="content-language" content="es"></head><body><p id="fm">x<i>y</i></p></body></html></iframe>
<iframe><p id="fm2">x<i>y</i></p></iframe>
<div dir="auto"><div dir="auto"><div dir="auto"><p>x</p><p>y</p></div></div></div>
<form><div><div><input type="radio" name="q" id="q1"><input type="radio" name="q" id="q2"></div></div>
<input type="radio" name="Q" id="q3" checked><input type="submit"></form>
</body></html>
"""

HTML_NO_META = """<html><head><title>x</title></head><body>
<p>nothing <span>here</span></p><p>nothing <span>here</span></p>
<form><form><input type="submit"></form><input type="radio" name="x"><input type="radio" name="x"></form>
</body></html>
"""

XML_DOC = """<?xml version="1.0" encoding="UTF-8"?>
<root xml:lang="en" xmlns:h="http://www.w3.org/1999/xhtml">
  <item id="x1">one <sub>s</sub></item>
  <item id="x1">one <sub>s</sub></item>
  <group xml:lang="de-CH" lang="ignored">
    <item>zwei <sub xml:lang="">leer <deep>t</deep></sub></item>
    <h:div lang="fr" dir="rtl"><h:p>xhtml <h:span dir="auto">in xml</h:span></h:p>
      <h:form><h:input type="radio" name="n"/><h:input type="radio" name="N" checked="checked"/>
      <h:input type="submit"/></h:form>
    </h:div>
  </group>
  <form><input type="radio" name="n"/><input type="submit"/></form>
  <iframe><item xml:lang="es">tres</item></iframe>
</root>
"""

XHTML_DOC = """<?xml version="1.0" encoding="UTF-8"?>
<!DOCTYPE html PUBLIC "-//W3C//DTD XHTML 1.1//EN" "http://www.w3.org/TR/xhtml11/DTD/xhtml11.dtd">
<html xmlns="http://www.w3.org/1999/xhtml" lang="en">
<head><meta http-equiv="content-language" content="fr"/><title>t</title></head>
<body>
<div lang="de" xml:lang="nl"><p id="a">a <span>b</span></p><p id="a">a <span>b</span></p></div>
<div dir="rtl"><p>x <span dir="auto">א</span><span dir="auto">y</span></p></div>
<form><input type="radio" name="r"/><input type="radio" name="R" checked="checked"/>
<input type="radio" name="r"/><input type="submit"/><button type="submit">b</button></form>
<math xmlns="http://www.w3.org/1998/Math/MathML" xml:lang="la"><mi>x</mi><mi lang="no">y</mi></math>
<iframe><html xmlns="http://www.w3.org/1999/xhtml"><body><p>in frame</p></body></html></iframe>
</body>
</html>
"""

DOCS = [
    ('main/html.parser', HTML_MAIN, 'html.parser'),
    ('main/lxml', HTML_MAIN, 'lxml'),
    ('main/html5lib', HTML_MAIN, 'html5lib'),
    ('meta/html.parser', HTML_META_ONLY, 'html.parser'),
    ('meta/html5lib', HTML_META_ONLY, 'html5lib'),
    ('nometa/html.parser', HTML_NO_META, 'html.parser'),
    ('xml/lxml-xml', XML_DOC, 'xml'),
    ('xhtml/lxml-xml', XHTML_DOC, 'xml'),
    ('xhtml/html5lib', XHTML_DOC, 'html5lib'),
]

NAMESPACES = {'h': 'http://www.w3.org/1999/xhtml', 'm': 'http://www.w3.org/1998/Math/MathML'}

SELECTORS = [
    ':lang(en)', ':lang(de)', ':lang(fr)', ':lang("*-US")', ':lang(de, fr)', ':lang("")', ':lang("*")',
    ':lang(en):lang("*-US")', ':lang("zh-*-TW")', ':lang(pt)', ':lang(it)', ':lang(ja)', ':lang(es)', ':lang(nl)',
    ':lang(de-CH)', ':lang(la, no)', 'p:lang(en) span', ':not(:lang(en))', ':not(:lang(de), :lang(fr))',
    'div:has(> p:lang(de))', ':is(:lang(en), :lang(it)) > span', 'span:lang(de) ~ *',
    ':dir(ltr)', ':dir(rtl)', ':dir(ltr):dir(rtl)', ':not(:dir(ltr))', ':not(:dir(rtl))', 'p:dir(rtl) span',
    ':dir(rtl) > :dir(ltr)', 'div:has(:dir(rtl))', ':dir(ltr):lang(de)', ':is(input, textarea, bdi):dir(rtl)',
    ':dir(ltr) + :dir(rtl)',
    ':default', ':indeterminate', ':not(:default)', ':not(:indeterminate)', 'form :default',
    'form:has(:default)', 'form:has(:indeterminate) :default', ':indeterminate ~ :indeterminate',
    ':indeterminate:lang(de):dir(ltr)', ':default:dir(rtl), :indeterminate:dir(rtl)',
    'input:is(:default, :indeterminate)', ':checked', ':root :default',
    ':-soup-contains("Welt")', ':-soup-contains-own("Hallo")', 'p:-soup-contains("a", "x"):lang(en, de)',
    ':has(> :-soup-contains-own("b")):dir(ltr)',
    'h|*:lang(fr)', 'h|input:indeterminate', 'h|*:dir(rtl)', '*|*:lang(en)', 'm|mi:lang(la)',
    ':root', ':root:lang(en)', ':root:dir(ltr)', '[id]:nth-child(2 of :lang(de))', ':empty:dir(ltr)',
    'iframe :lang(pt)', 'iframe :dir(rtl)', 'iframe :indeterminate', 'iframe :default', 'iframe p',
    ':lang(en) :lang(de) :lang(en)', ':link:lang(en)', ':any-link', ':in-range', ':placeholder-shown',
]

warnings.filterwarnings('ignore', category=bs4.XMLParsedAsHTMLWarning)

failures = []
counts = {'checks': 0}


def check(cond, *msg):
    counts['checks'] += 1
    if not cond:
        failures.append(' '.join(str(m) for m in msg))
        if len(failures) < 30:
            print('FAIL:', failures[-1])


def tags_of(doc):
    """All elements in document order (our own walk, no content based comparisons)."""

    out = []
    stack = [doc]
    while stack:
        node = stack.pop()
        if isinstance(node, bs4.Tag):
            if not isinstance(node, bs4.BeautifulSoup):
                out.append(node)
            stack.extend(reversed(node.contents))
    return out


def snapshot(doc):
    """Everything a query could have altered: markup, attribute dictionaries (identity and content) and links."""

    state = [doc.decode()]
    stack = [doc]
    while stack:
        node = stack.pop()
        state.append((
            id(node), type(node), id(node.parent), id(node.next_sibling), id(node.previous_sibling),
            id(node.next_element), id(node.previous_element)
        ))
        if isinstance(node, bs4.Tag):
            state.append((
                node.name, node.prefix, node.namespace, id(node.attrs), list(node.attrs.keys()),
                [(id(v), repr(v)) for v in node.attrs.values()], id(node.contents), [id(c) for c in node.contents],
                sorted(k for k in vars(node))
            ))
            stack.extend(reversed(node.contents))
        else:
            state.append(str(node))
    return state


def positions(tags, selected):
    index = {id(t): i for i, t in enumerate(tags)}
    return [index[id(t)] for t in selected]


def run(api, fn, *args, **kwargs):
    """Run an API function, return `('ok', value)` or `('err', exception type)`."""

    try:
        return 'ok', getattr(api, fn)(*args, **kwargs)
    except Exception as e:
        return 'err', type(e).__name__


def parse(markup, parser):
    return bs4.BeautifulSoup(markup, parser)


def results_for(api, doc, selector, tags=None):
    """Positions of the selected elements, or the exception."""

    tags = tags_of(doc) if tags is None else tags
    status, value = run(api, 'select', selector, doc, namespaces=NAMESPACES)
    return (status, positions(tags, value) if status == 'ok' else value)


def check_document(name, markup, parser, base):
    doc = parse(markup, parser)
    tags = tags_of(doc)
    before = snapshot(doc)
    fresh = parse(markup, parser)
    fresh_tags = tags_of(fresh)
    copied = copy.copy(doc)
    copied_tags = tags_of(copied)
    check(len(tags) == len(fresh_tags), name, 'fresh parse differs in size')
    # `copy.copy` of an html5lib tree with misnested forms does not always reproduce the tree (a bs4 matter),
    # positions are only compared if it does, `select` versus `match` is checked on the copy in any case.
    same_shape = [t.name for t in tags] == [t.name for t in copied_tags]
    if not same_shape:
        print(f'note: copy.copy of {name} has another shape ({len(tags)} vs {len(copied_tags)} elements)')
    expected = {}

    for selector in SELECTORS:
        where = f'[{name}] {selector!r}:'
        compiled = sv.compile(selector, namespaces=NAMESPACES)

        # A lazy generator that is suspended while all the other queries run
        lazy = compiled.iselect(doc)
        lazy_got = []
        try:
            lazy_got.append(next(lazy))
        except StopIteration:
            lazy = None

        status, selected = run(sv, 'select', selector, doc, namespaces=NAMESPACES)
        check(status == 'ok', where, 'raised', selected)
        if status != 'ok':
            continue
        members = {id(t) for t in selected}
        check(len(members) == len(selected), where, 'duplicates in select')
        pos = positions(tags, selected)
        check(pos == sorted(pos), where, 'not in document order')
        expected[selector] = pos

        # Per element match, alone, in both orders, with the module level function and the compiled object
        for order in (tags, tags[::-1]):
            for t in order:
                m = sv.match(selector, t, namespaces=NAMESPACES)
                check(m == (id(t) in members), where, 'match disagrees with select for', t.name, t.attrs)
        for t in tags:
            check(compiled.match(t) == (id(t) in members), where, 'compiled match disagrees for', t.name, t.attrs)

        # After the matches, select again
        again = compiled.select(doc)
        check(positions(tags, again) == pos, where, 'select changed after other queries')
        check(positions(tags, sv.select(selector, doc, namespaces=NAMESPACES, limit=3)) == pos[:3], where, 'limit')
        one = compiled.select_one(doc)
        check((one is None and not pos) or (one is not None and one is tags[pos[0]]), where, 'select_one')

        # Resume the lazy generator, interleaved with yet other queries
        if lazy is not None:
            for t in lazy:
                lazy_got.append(t)
                sv.select(':lang(en), :dir(rtl), :default, :indeterminate', doc)
                sv.match(selector, tags[len(lazy_got) % len(tags)], namespaces=NAMESPACES)
        check(positions(tags, lazy_got) == pos, where, 'suspended iselect differs')

        # Fresh parse and `copy.copy`: same positions
        check(positions(fresh_tags, compiled.select(fresh)) == pos, where, 'fresh copy differs')
        copied_pos = positions(copied_tags, compiled.select(copied))
        check(not same_shape or copied_pos == pos, where, 'copy.copy differs')
        check(copied_pos == [i for i, t in enumerate(copied_tags) if compiled.match(t)], where, 'copy.copy match')
        for i in (pos[:2] + pos[-2:]):
            check(compiled.match(fresh_tags[i]), where, 'fresh copy match differs')
        # and on a document that nobody has queried before
        pristine = parse(markup, parser)
        pristine_tags = tags_of(pristine)
        for i, t in enumerate(pristine_tags[::7]):
            check(compiled.match(t) == ((i * 7) in set(pos)), where, 'pristine copy match differs at', i * 7)

        # Baseline
        if base is not None:
            check(results_for(base, doc, selector, tags) == ('ok', pos), where, 'differs from unpatched library')

    # Scoped select / filter / closest for a subset of selectors (every element as scope)
    for selector in SELECTORS[::3]:
        where = f'[{name}] {selector!r}:'
        if selector not in expected:
            continue
        compiled = sv.compile(selector, namespaces=NAMESPACES)
        if ':root' in selector or 'iframe' in selector:
            continue
        for scope in tags:
            inside = tags_of(scope)[1:]
            want = [t for t in inside if compiled.match(t)]
            got = compiled.select(scope)
            check(len(want) == len(got) and all(a is b for a, b in zip(want, got)), where, 'scoped select', scope.name)
            kids = [c for c in scope.contents if isinstance(c, bs4.Tag)]
            wantf = [c for c in kids if compiled.match(c)]
            gotf = compiled.filter(scope)
            check(len(wantf) == len(gotf) and all(a is b for a, b in zip(wantf, gotf)), where, 'filter', scope.name)
            gotl = compiled.filter(kids)
            check(len(wantf) == len(gotl) and all(a is b for a, b in zip(wantf, gotl)), where, 'filter list')
            c = compiled.closest(scope)
            anc = scope
            while anc is not None and not (isinstance(anc, bs4.Tag) and not isinstance(anc, bs4.BeautifulSoup)
                                           and compiled.match(anc)):
                anc = anc.parent
            check(c is anc, where, 'closest', scope.name)

    check(snapshot(doc) == before, name, 'DOCUMENT WAS CHANGED')
    return expected


def check_detached(base):
    """Parentless fragments: extracted subtrees and hand made tags."""

    doc = parse(HTML_MAIN, 'html.parser')
    frags = [
        doc.find('div', class_='blk').extract(),
        doc.find(id='dirs').extract(),
        doc.find(id='outer').extract(),
        doc.find(id='frame1').extract(),
        doc.find(id='free1').extract(),
    ]
    made = doc.new_tag('div', attrs={'dir': 'auto'})
    inner = doc.new_tag('p', attrs={'lang': ''})
    inner.string = 'א'
    made.append(inner)
    radio = doc.new_tag('input', attrs={'type': 'radio', 'name': 'z'})
    made.append(radio)
    made.append(doc.new_tag('input', attrs={'type': 'radio', 'name': 'z', 'checked': ''}))
    made.append(doc.new_tag('input', attrs={'type': 'radio', 'name': 'Z'}))
    frags.append(made)
    frags.append(copy.copy(frags[0]))
    del doc
    gc.collect()
    for n, frag in enumerate(frags):
        tags = tags_of(frag)
        before = snapshot(frag)
        for selector in SELECTORS:
            where = f'[detached {n}] {selector!r}:'
            selected = sv.select(selector, frag, namespaces=NAMESPACES)
            members = {id(t) for t in selected}
            # `select` never gives the scope itself
            check(id(frag) not in members, where, 'scope selected')
            for t in tags[:0:-1]:
                check(sv.match(selector, t, namespaces=NAMESPACES) == (id(t) in members), where, 'match', t.name)
            if base is not None:
                check(
                    positions(tags, base.select(selector, frag, namespaces=NAMESPACES)) == positions(tags, selected),
                    where, 'differs from unpatched library'
                )
                check(
                    base.match(selector, frag, namespaces=NAMESPACES) == sv.match(selector, frag, namespaces=NAMESPACES),
                    where, 'fragment root match differs from unpatched library'
                )
        check(snapshot(frag) == before, 'detached', n, 'FRAGMENT WAS CHANGED')


def check_hostile_values(base):
    """Odd attribute values (lists, `None`, bytes, numbers): same result or same exception as before."""

    if base is None:
        return
    values = [['a', 'b'], [], None, b'en', 5, ['en'], '', 'EN', ['rtl'], 'auto', ['auto']]
    selectors = [':lang(en)', ':lang(a)', ':dir(rtl)', ':dir(ltr)', ':indeterminate', ':default', ':not(:lang(en))']
    for attr in ('lang', 'dir', 'name', 'type', 'value'):
        for value in values:
            for target in ('p', 'div', 'input', 'form', 'html'):
                docs = []
                for _ in range(2):
                    d = parse(HTML_META_ONLY, 'html.parser')
                    for t in d.find_all(target):
                        t.attrs[attr] = copy.copy(value)
                    docs.append(d)
                for selector in selectors:
                    a = results_for(sv, docs[0], selector)
                    b = results_for(base, docs[1], selector)
                    check(a == b, f'[hostile {attr}={value!r} on {target}] {selector!r}:', a, '!=', b)
                    if a[0] == 'ok':
                        tags = tags_of(docs[0])
                        for i, t in enumerate(tags):
                            r = run(sv, 'match', selector, t)
                            check(r == ('ok', i in a[1]), f'[hostile {attr}={value!r} on {target}] {selector!r}:',
                                  'match vs select', i, r)


def check_mutation_while_suspended(base):
    """The tree is altered while `iselect` is suspended: same elements as the unpatched library."""

    if base is None:
        return

    def mutate(doc, step):
        tags = tags_of(doc)
        t = tags[(step * 7) % len(tags)]
        kind = step % 6
        if kind == 0:
            t['lang'] = ['en', 'de', '', 'fr'][step % 4]
        elif kind == 1:
            t['dir'] = ['rtl', 'ltr', 'auto'][step % 3]
        elif kind == 2 and t.parent is not None and t.name not in ('html', 'body', 'head'):
            # Move the element to the end of the body / root
            target = doc.find('body') or tags[0]
            if target is not t and not any(a is t for a in target.parents):
                target.append(t.extract())
        elif kind == 3:
            if 'lang' in t.attrs:
                del t['lang']
            if t.name == 'input':
                t['checked'] = ''
        elif kind == 4 and t.name == 'input':
            t['name'] = 'a'
        elif kind == 5:
            for f in doc.find_all('form')[:1]:
                f.name = 'div'

    for name, markup, parser in DOCS:
        for selector in SELECTORS:
            got = []
            for api in (sv, base):
                doc = parse(markup, parser)
                index = {id(t): i for i, t in enumerate(tags_of(doc))}
                out = []
                try:
                    for step, el in enumerate(api.iselect(selector, doc, namespaces=NAMESPACES)):
                        out.append(index[id(el)])
                        mutate(doc, step)
                        if step > 60:
                            break
                except Exception as e:  # the tree walk itself may legitimately trip over the alterations
                    out.append(type(e).__name__)
                got.append(out)
            check(got[0] == got[1], f'[mutation {name}] {selector!r}:', got[0], '!=', got[1])


def check_threads(expected_by_doc):
    """Several threads, same documents and same compiled selectors: same answers as alone."""

    shared = {name: parse(markup, parser) for name, markup, parser in DOCS[:1] + DOCS[3:4] + DOCS[6:8]}
    shared_tags = {name: tags_of(d) for name, d in shared.items()}
    compiled = {s: sv.compile(s, namespaces=NAMESPACES) for s in SELECTORS}
    before = {name: snapshot(d) for name, d in shared.items()}
    errors = []
    barrier = threading.Barrier(6)

    def worker(n):
        try:
            barrier.wait()
            sels = SELECTORS[n:] + SELECTORS[:n]
            for rnd in range(2):
                for name, doc in shared.items():
                    tags = shared_tags[name]
                    for s in sels:
                        if s not in expected_by_doc[name]:
                            continue
                        want = expected_by_doc[name][s]
                        if rnd == 0:
                            got = positions(tags, compiled[s].select(doc))
                        else:
                            got = [i for i, t in enumerate(tags) if compiled[s].match(t)]
                        if got != want:
                            errors.append((n, name, s, got, want))
        except Exception as e:  # pragma: no cover
            errors.append((n, repr(e)))

    old = sys.getswitchinterval()
    sys.setswitchinterval(1e-5)
    try:
        threads = [threading.Thread(target=worker, args=(n * 9,)) for n in range(6)]
        for t in threads:
            t.start()
        for t in threads:
            t.join()
    finally:
        sys.setswitchinterval(old)
    check(not errors, 'threads:', errors[:3])
    for name, d in shared.items():
        check(snapshot(d) == before[name], 'threads', name, 'DOCUMENT WAS CHANGED')


def check_recreated(expected_by_doc):
    """Documents are dropped and created again so that ids get recycled."""

    for rnd in range(25):
        for name, markup, parser in (DOCS[3], DOCS[5], DOCS[6]):
            doc = parse(markup if rnd % 2 == 0 else markup.replace('lang="fr"', 'lang="en"'), parser)
            tags = tags_of(doc)
            for s in SELECTORS[rnd % 5::5]:
                sel = sv.select(s, doc, namespaces=NAMESPACES)
                members = {id(t) for t in sel}
                for t in tags:
                    check(sv.match(s, t, namespaces=NAMESPACES) == (id(t) in members), 'recreated', name, s)
                if rnd % 2 == 0 and s in expected_by_doc[name]:
                    check(positions(tags, sel) == expected_by_doc[name][s], 'recreated differs', name, s)
            del doc, tags, sel, members
        gc.collect()


def check_no_shared_state():
    """Nothing is kept on the compiled selector, the class or the module."""

    import soupsieve.css_match as cm

    module_before = {k: id(v) for k, v in vars(cm).items()}
    class_before = {k: id(v) for k, v in vars(cm.CSSMatch).items()}
    doc = parse(HTML_MAIN, 'html.parser')
    compiled = sv.compile(':lang(en):dir(ltr), :default, :indeterminate')
    h = hash(compiled)
    r = repr(compiled)
    compiled.select(doc)
    check(hash(compiled) == h and repr(compiled) == r, 'compiled selector changed')
    check({k: id(v) for k, v in vars(cm).items()} == module_before, 'module namespace changed')
    check({k: id(v) for k, v in vars(cm.CSSMatch).items()} == class_before, 'class namespace changed')
    for k, v in list(vars(cm).items()) + list(vars(cm.CSSMatch).items()):
        if isinstance(v, (dict, list, set)) and k not in ('__annotations__', '__builtins__', 'DIR_MAP'):
            check(not any(isinstance(x, bs4.PageElement) for x in (v.values() if isinstance(v, dict) else v)),
                  'module/class level container holds nodes:', k)
    m = cm.CSSMatch(compiled.selectors, doc, None, 0)
    list(m.select())
    check(m.cached_lang and m.cached_dir and m.cached_form_owner, 'memo tables are not used')
    for table in (m.cached_lang, m.cached_dir, m.cached_form_owner, m.cached_meta_lang, m.cached_default_forms):
        check(isinstance(table, dict) and all(k == id(v[0]) for k, v in table.items()), 'key is not id of held node')
    check(all(k[0] == id(v[0]) for k, v in m.cached_indeterminate_forms.items()), 'key is not id of held form')


def main():
    print('library under test:', sv.__file__)
    base, tmp = load_baseline()
    try:
        expected_by_doc = {}
        for name, markup, parser in DOCS:
            expected_by_doc[name] = check_document(name, markup, parser, base)
            nonempty = sum(1 for v in expected_by_doc[name].values() if v)
            print(f'{name}: {len(expected_by_doc[name])} selectors, {nonempty} with matches')
        check_detached(base)
        print('detached fragments done')
        check_hostile_values(base)
        print('hostile attribute values done')
        check_mutation_while_suspended(base)
        print('alterations while iselect is suspended done')
        check_threads(expected_by_doc)
        print('threads done')
        check_recreated(expected_by_doc)
        print('recreated documents done')
        check_no_shared_state()
        print('shared state done')
    finally:
        if tmp:
            shutil.rmtree(tmp, ignore_errors=True)
    print(f'{counts["checks"]} checks, {len(failures)} failures')
    return 1 if failures else 0


if __name__ == '__main__':
    sys.exit(main())
