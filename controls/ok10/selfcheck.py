"""
Self check for the custom selector name memo (`soupsieve.css_parser._cached_custom_names`).

Run:  cd /tmp/wt_ok10 && PYTHONPATH=/tmp/wt_ok10 /venv/bin/python selfcheck.py

Oracle: a *fresh process* computes, for every case, the outcome of an uncached parse
(`_cached_css_compile.__wrapped__`) with `process_custom` replaced by a verbatim copy of the ORIGINAL
implementation (no memo at all).  A sample of cases is additionally evaluated in one fresh process per
case through the public `compile`.  The process under test then runs the cases in many orders, with and
without purges, single- and multi-threaded, and after aborted compiles, and compares with the oracle.
"""
from __future__ import annotations
import io
import os
import pickle
import random
import subprocess
import sys
import threading

HERE = os.path.dirname(os.path.abspath(__file__))
sys.path.insert(0, HERE)

import soupsieve as sv  # noqa: E402
from soupsieve import css_parser as cp  # noqa: E402
from soupsieve import css_types as ct  # noqa: E402
from soupsieve import util  # noqa: E402

assert os.path.dirname(os.path.dirname(os.path.abspath(sv.__file__))) == HERE, sv.__file__

DOC = """
<html><body>
<div id="d1" class="a"><p id="p1" class="x">one <b id="b1">bold</b></p><span id="s1">s</span></div>
<div id="d2" class="b"><p id="p2">two</p><a id="a1" href="http://x">link</a><span id="s2" class="x">t</span></div>
<ul id="u1"><li id="l1">1</li><li id="l2" class="x">2</li><li id="l3">3</li></ul>
<h1 id="h1">H</h1><h2 id="h2" class="a">H</h2>
</body></html>
"""

# ---------------------------------------------------------------------------------------------------------
# Cases: (pattern, custom as an ORDERED list of pairs or None, flags)
# ---------------------------------------------------------------------------------------------------------

BASE = [(':--header', 'h1, h2, h3, h4, h5, h6'), (':--x', '.x')]
CUSTOMS = {
    'none': None,
    'empty': [],
    'base': BASE,
    # Same alias names/bodies as `base`, but other aliases differ: `:--para` resolves differently.
    'base+para_p': BASE + [(':--para', 'p')],
    'base+para_li': BASE + [(':--para', 'li')],
    'base+para_x': BASE + [(':--para', ':--x')],
    # Same names, one body differs.
    'base_x_a': [(':--header', 'h1, h2, h3, h4, h5, h6'), (':--x', '.a')],
    # Chains: same body `:--b`/`:--c` means something else depending on the rest of the map.
    'chain_p': [(':--a', ':--b'), (':--b', ':--c'), (':--c', 'p')],
    'chain_li': [(':--a', ':--b'), (':--b', ':--c'), (':--c', 'li')],
    'chain_short': [(':--a', ':--b'), (':--b', 'span')],
    'chain_broken': [(':--a', ':--b'), (':--b', ':--c')],
    'chain_complex': [(':--a', 'div > :--b'), (':--b', ':is(:--c, span)'), (':--c', 'p:not(:--d)'), (':--d', '.x')],
    # Cycles.
    'cycle1': [(':--a', ':--a')],
    'cycle2': [(':--a', ':--b'), (':--b', ':--a')],
    'cycle3': [(':--a', 'div :--b'), (':--b', 'p, :--c'), (':--c', ':--a'), (':--ok', 'li')],
    # Case and escapes in names.
    'upper': [(':--HEADER', 'h1'), (':--X', '.x')],
    'escaped': [(':--\\61', 'p'), (':--b\\63 ', 'li')],
    # Collide only after unescaping: outcome depends on the ORDER of the (equal as a map) custom dict.
    'collide_ok': [(':--a', 'div'), (':--\\61', 'span')],
    'collide_err': [(':--\\61', 'span'), (':--a', 'div')],
    # Duplicates after lower casing.
    'dup1': [(':--a', 'p'), (':--A', 'li')],
    'dup2': [(':--A', 'li'), (':--a', 'p')],
    # Invalid names (which one is reported depends on the order).
    'bad1': [('--a', 'p')],
    'bad2': [(':--a', 'p'), (':a', 'li'), ('b', 'li')],
    'bad3': [(':--a', 'p'), ('b', 'li'), (':a', 'li')],
    'bad4': [(':--a b', 'p')],
    'bad5': [('', 'p')],
    # Invalid / odd bodies.
    'badbody': [(':--a', 'p >'), (':--b', 'div')],
    'emptybody': [(':--a', ''), (':--b', 'div')],
    'nul': [(':--a', 'p\x00'), (':--b', 'div')],
}

PATTERNS = [
    'p', ':--x', ':--header', ':--HEADER', ':--para', 'div :--para', ':--a', ':--b', ':--c', ':--d', ':--ok',
    ':--a, :--c', ':--\\61', ':--bc', ':is(:--a, :--x)', ':not(:--header)', ':--undefined', 'div > :--a:--b',
]

FLAGS = [0, sv.DEBUG]

CASES = []
for cname, items in CUSTOMS.items():
    for pat in PATTERNS:
        for flg in FLAGS:
            if flg and (len(CASES) % 3):
                continue
            CASES.append((pat, items, flg))

# `collide_ok` / `collide_err` (and `dup1` / `dup2`, `bad2` / `bad3`) are EQUAL as maps, so the pattern
# cache (pre-existing behaviour, not touched here) may hand the first one's result to the second one for the
# same pattern.  To look at the new memo alone, these go through `compile` with patterns of their own.
ORDER_TWINS = {'collide_err': 'collide_ok', 'dup2': 'dup1', 'bad3': 'bad2'}


def twin_safe_cases():
    out = []
    for i, (pat, items, flg) in enumerate(CASES):
        name = [k for k, v in CUSTOMS.items() if v is items][0]
        if name in ORDER_TWINS:
            pat = pat + ', twin'  # distinct pattern key => pattern cache cannot conflate the twins
        out.append((pat, items, flg))
    return out


CASES = twin_safe_cases()


# ---------------------------------------------------------------------------------------------------------
# Outcomes
# ---------------------------------------------------------------------------------------------------------

def mk_custom(items, rnd=None):
    """Build a NEW plain dict (what a user passes) from ordered pairs."""
    if items is None:
        return None
    return dict(items)


_SOUP = []


def soup_main():
    if not _SOUP:
        from bs4 import BeautifulSoup
        _SOUP.append(BeautifulSoup(DOC, 'html.parser'))
    return _SOUP[0]


def describe(fn):
    """Run `fn` -> comparable outcome."""
    out = io.StringIO()
    old = sys.stdout
    sys.stdout = out
    try:
        try:
            c = fn()
        finally:
            sys.stdout = old
    except Exception as e:  # noqa: BLE001
        return ('err', type(e).__module__ + '.' + type(e).__name__, str(e), repr(e.args),
                getattr(e, 'line', None), getattr(e, 'col', None), getattr(e, 'context', None))
    try:
        ids = tuple(t.get('id') for t in c.select(soup_main()))
    except Exception as e:  # noqa: BLE001
        ids = ('select-err', type(e).__name__, str(e))
    return ('ok', pickle.dumps(c), repr(c), repr(c.selectors), ids, out.getvalue(), c)


def strip(o):
    """Drop the live object from an outcome so that it can be sent to the parent."""
    return o[:6] if o[0] == 'ok' else o


def local_fresh(pat, items, flg):
    """Parse in this process without any cache and with the original name processing (for hash checks)."""
    cs = ct.CustomSelectors(mk_custom(items)) if items is not None else None
    sels = cp.CSSParser(pat, custom=original_process_custom(cs), flags=flg & ~sv.DEBUG).process_selectors()
    return sv.SoupSieve(pat, sels, None, cs, flg)


def same(a, b, case=None):
    """
    Compare outcomes.

    Compiled objects are compared by equality.  Hashes cannot be compared across processes (unpickled
    objects carry the hash computed by the process that made them; string hashes are randomised), so the
    hash is compared with an uncached parse made in this process when `case` is given.
    """
    if a[0] != b[0]:
        return False
    if a[0] == 'err':
        return a == b
    ca, cb = pickle.loads(a[1]), pickle.loads(b[1])
    # a[5] (what DEBUG printed) is not compared: a pattern cache hit prints nothing, that is how it always was.
    ok = ca == cb and not (ca != cb) and a[2:5] == b[2:5] and ca.selectors == cb.selectors
    if ok and case is not None:
        loc = local_fresh(*case)
        live = a[6] if len(a) > 6 else None
        ok = loc == cb and (live is None or (live == loc and hash(live) == hash(loc) and len({live, loc}) == 1))
    return ok


# ---------------------------------------------------------------------------------------------------------
# Oracle (fresh process)
# ---------------------------------------------------------------------------------------------------------

def original_process_custom(custom):
    """Verbatim copy of the implementation before the change."""
    custom_selectors = {}
    if custom is not None:
        for key, value in custom.items():
            name = util.lower(key)
            if cp.RE_CUSTOM.match(name) is None:
                raise util.SelectorSyntaxError(f"The name '{name}' is not a valid custom pseudo-class name")
            if name in custom_selectors:
                raise KeyError(f"The custom selector '{name}' has already been registered")
            custom_selectors[cp.css_unescape(name)] = value
    return custom_selectors


def oracle_main():
    """Uncached parse with the original name processing; one outcome per case, pickled to stdout."""
    cp.process_custom = original_process_custom
    raw = cp._cached_css_compile.__wrapped__
    res = []
    for pat, items, flg in CASES:
        res.append(describe(lambda: raw(
            pat, None, ct.CustomSelectors(mk_custom(items)) if items is not None else None, flg)))
    assert cp._cached_css_compile.cache_info().currsize == 0
    assert cp._cached_custom_names.cache_info().currsize == 0
    sys.stdout.buffer.write(pickle.dumps([strip(r) for r in res]))


def oracle_one(idx):
    """One case, public API, in a process that never did anything else."""
    pat, items, flg = CASES[idx]
    sys.stdout.buffer.write(pickle.dumps(strip(describe(lambda: sv.compile(pat, flags=flg, custom=mk_custom(items))))))


def run_child(*args):
    env = dict(os.environ, PYTHONPATH=HERE, PYTHONHASHSEED='random')
    p = subprocess.run([sys.executable, os.path.abspath(__file__), *args], env=env, stdout=subprocess.PIPE, check=True)
    return pickle.loads(p.stdout)


# ---------------------------------------------------------------------------------------------------------
# Checks
# ---------------------------------------------------------------------------------------------------------

FAILS = []


def check(cond, msg):
    if not cond:
        FAILS.append(msg)
        print('FAIL:', msg)


def compile_case(i):
    pat, items, flg = CASES[i]
    return describe(lambda: sv.compile(pat, flags=flg, custom=mk_custom(items)))


def check_sequences(oracle):
    rnd = random.Random(1234)
    n = 0
    for rnd_round in range(12):
        order = list(range(len(CASES)))
        rnd.shuffle(order)
        order += [rnd.choice(order) for _ in range(len(order) // 2)]  # repeats => hits in both caches
        purge_p = (0.0, 0.02, 0.3, 1.0)[rnd_round % 4]
        for i in order:
            if rnd.random() < purge_p:
                sv.purge()
                check(cp._cached_css_compile.cache_info().currsize == 0, 'purge leaves pattern cache non-empty')
                check(cp._cached_custom_names.cache_info().currsize == 0, 'purge leaves name memo non-empty')
            got = compile_case(i)
            check(same(got, oracle[i], CASES[i]), f'sequence: case {i} {CASES[i]!r} differs from fresh parse')
            n += 1
            ci = cp._cached_custom_names.cache_info()
            check(ci.maxsize == cp._MAXCUSTOMCACHE and 0 <= ci.currsize <= ci.maxsize, f'name memo unbounded {ci}')
            pi = cp._cached_css_compile.cache_info()
            check(pi.maxsize == cp._MAXCACHE == 500 and 0 <= pi.currsize <= 500, f'pattern cache info {pi}')
    print(f'sequences: {n} compiles checked')


def check_pattern_cache_truthful():
    """`cache_info()` of the pattern cache counts exactly as before (the memo is not in its way)."""
    sv.purge()
    base = cp._cached_css_compile.cache_info()
    keys = [(f'p.k{i}', CUSTOMS['base+para_p']) for i in range(40)]
    for pat, items in keys:
        sv.compile(pat, custom=mk_custom(items))
    for pat, items in keys:
        sv.compile(pat, custom=mk_custom(list(reversed(items))))  # equal map, other insertion order => hit
    info = cp._cached_css_compile.cache_info()
    check(info.misses - base.misses == 40 and info.hits - base.hits == 40 and info.currsize == 40,
          f'pattern cache info not truthful: {base} -> {info}')
    ni = cp._cached_custom_names.cache_info()
    check(ni.currsize == 1 and ni.misses == 1 and ni.hits == 39, f'name memo did not memoise as intended: {ni}')
    # Identity: equal keys <=> the same cached object.
    a = sv.compile('p.k1', custom=mk_custom(CUSTOMS['base+para_p']))
    b = sv.compile('p.k1', custom=mk_custom(CUSTOMS['base+para_p']))
    check(a is b, 'equal key does not return the cached object')
    check(sv.compile('p', custom={}) != sv.compile('p') and sv.compile('p', custom={}).custom is not None,
          'None and {} conflated')
    old, sys.stdout = sys.stdout, io.StringIO()  # flags 1 is DEBUG
    try:
        check(sv.compile('p', flags=True) is sv.compile('p', flags=1), 'flags True/1')
    finally:
        sys.stdout = old
    # Bounded: many distinct maps.
    for i in range(3 * cp._MAXCUSTOMCACHE):
        sv.compile(':--a', custom={':--a': f'p.c{i}'})
    check(cp._cached_custom_names.cache_info().currsize == cp._MAXCUSTOMCACHE, 'name memo not bounded/filled')
    sv.purge()
    check(cp._cached_custom_names.cache_info().currsize == 0, 'purge does not clear name memo')
    check(cp._cached_css_compile.cache_info().currsize == 0, 'purge does not clear pattern cache')


def check_private_dicts():
    """`process_custom` hands out a new dict each time; what a compile does to it is invisible to others."""
    sv.purge()
    for name, items in CUSTOMS.items():
        cs = ct.CustomSelectors(mk_custom(items)) if items is not None else None
        outs = []
        for _ in range(3):
            try:
                outs.append(('ok', cp.process_custom(cs)))
            except Exception as e:  # noqa: BLE001
                outs.append(('err', type(e), str(e), e.args))
        try:
            ref = ('ok', original_process_custom(cs))
        except Exception as e:  # noqa: BLE001
            ref = ('err', type(e), str(e), e.args)
        for o in outs:
            check(o == ref, f'process_custom({name}) = {o!r}, original gives {ref!r}')
            if o[0] == 'ok':
                check(list(o[1].items()) == list(ref[1].items()), f'process_custom({name}) insertion order differs')
                check(type(o[1]) is dict, 'process_custom result is not a plain dict')
        if outs[0][0] == 'ok':
            check(outs[0][1] is not outs[1][1] and outs[1][1] is not outs[2][1], f'{name}: dict shared between calls')
            # Vandalise one result the way the parser does (delete, insert compiled objects) and more.
            d = outs[0][1]
            for k in list(d):
                del d[k]
            d[':--zzz'] = ct.SelectorList()
            again = cp.process_custom(cs)
            check(again == ref[1] and list(again.items()) == list(ref[1].items()), f'{name}: mutation leaked into memo')
    # The order twins: equal maps, results must follow the order actually given (memo key is ordered).
    for second, first in ORDER_TWINS.items():
        for a, b in ((first, second), (second, first)):
            sv.purge()
            for nm in (a, b, a, b):
                cs = ct.CustomSelectors(mk_custom(CUSTOMS[nm]))
                try:
                    got = ('ok', list(cp.process_custom(cs).items()))
                except Exception as e:  # noqa: BLE001
                    got = ('err', type(e), str(e))
                try:
                    ref = ('ok', list(original_process_custom(cs).items()))
                except Exception as e:  # noqa: BLE001
                    ref = ('err', type(e), str(e))
                check(got == ref, f'order twin {nm} after {a},{b}: {got!r} != {ref!r}')
    # No compiled object may ever sit in the memo: after compiles that resolved aliases, the memoised
    # table still consists of strings only.
    sv.purge()
    for pat in (':--a', ':--b', ':--c'):
        sv.compile(pat, custom=mk_custom(CUSTOMS['chain_complex']))
    d = cp.process_custom(ct.CustomSelectors(mk_custom(CUSTOMS['chain_complex'])))
    check(all(type(v) is str for v in d.values()), 'compiled alias bodies leaked into the name memo')


class Boom(BaseException):
    pass


def check_aborts(oracle):
    """Abort a compile at every call/line/return event inside soupsieve, then compare follow-up compiles."""
    probe = [i for i, (pat, items, flg) in enumerate(CASES)
             if items in (CUSTOMS['chain_p'], CUSTOMS['chain_li'], CUSTOMS['cycle2'], CUSTOMS['dup1'], CUSTOMS['bad2'])
             and pat in (':--a', ':--b') and not flg]
    victims = [(':--a', CUSTOMS['chain_p'], 0), (':--a', CUSTOMS['chain_li'], 0), (':--a', CUSTOMS['cycle2'], 0),
               (':--a', CUSTOMS['dup1'], 0), ('p', CUSTOMS['bad2'], 0)]
    pkg = os.path.dirname(os.path.abspath(sv.__file__))
    total = 0
    for exc in (KeyboardInterrupt, MemoryError, Boom):
        for warm in (False, True):
            for vpat, vitems, vflg in victims:
                k = 0
                while True:
                    sv.purge()
                    if warm:  # memo already holds the entry (pattern cache does not)
                        try:
                            cp.process_custom(ct.CustomSelectors(mk_custom(vitems)))
                        except Exception:  # noqa: BLE001
                            pass
                    state = {'n': 0, 'fired': False}

                    def tracer(frame, event, arg):
                        if not frame.f_code.co_filename.startswith(pkg):
                            return tracer
                        if event in ('call', 'line', 'return'):
                            if state['n'] == k and not state['fired']:
                                state['fired'] = True
                                state['n'] += 1
                                raise exc('injected')
                            state['n'] += 1
                        return tracer

                    sys.settrace(tracer)
                    try:
                        try:
                            sv.compile(vpat, flags=vflg, custom=mk_custom(vitems))
                        finally:
                            sys.settrace(None)
                    except exc:
                        pass
                    except Exception:  # noqa: BLE001
                        pass  # the case's own error (dup/bad name)
                    total += 1
                    for i in probe:
                        got = compile_case(i)
                        check(same(got, oracle[i]),
                              f'after {exc.__name__} at event {k} of {vpat!r}/{vitems!r} warm={warm}: case {CASES[i]!r}')
                    if not state['fired']:
                        break
                    k += 1 if k < 220 else 7
    print(f'aborts: {total} aborted/complete compiles, each followed by {len(probe)} checked compiles')


class BadOut:
    def __init__(self, n):
        self.n = n

    def write(self, s):
        self.n -= 1
        if self.n < 0:
            raise OSError('stdout is broken')
        return len(s)

    def flush(self):
        pass


def check_debug_stdout(oracle):
    probe = [i for i, (pat, items, flg) in enumerate(CASES)
             if items in (CUSTOMS['chain_p'], CUSTOMS['chain_li']) and pat in (':--a', ':--c')]
    n = 0
    for items in (CUSTOMS['chain_p'], CUSTOMS['chain_li'], CUSTOMS['chain_complex']):
        for limit in range(0, 80):
            sv.purge()
            old = sys.stdout
            sys.stdout = BadOut(limit)
            failed = False
            try:
                try:
                    sv.compile(':--a', flags=sv.DEBUG, custom=mk_custom(items))
                finally:
                    sys.stdout = old
            except OSError:
                failed = True
            n += 1
            for i in probe:
                check(same(compile_case(i), oracle[i]), f'after failing stdout (limit {limit}): case {CASES[i]!r}')
            if not failed:
                break
    print(f'debug/stdout: {n} compiles with a failing stdout')


def check_threads(oracle):
    """Several threads, equal custom maps (new dict objects, both insertion orders), purges in between."""
    usable = [i for i, (pat, items, flg) in enumerate(CASES)
              if not flg and [k for k, v in CUSTOMS.items() if v is items][0] not in ORDER_TWINS
              and [k for k, v in CUSTOMS.items() if v is items][0] not in ORDER_TWINS.values()]
    from bs4 import BeautifulSoup
    errors = []
    start = threading.Barrier(9)
    old_si = sys.getswitchinterval()
    sys.setswitchinterval(1e-6)

    def expected(i):
        o = oracle[i]
        return o

    def worker(seed):
        rnd = random.Random(seed)
        soup = BeautifulSoup(DOC, 'html.parser')
        try:
            start.wait()
            for _ in range(1500):
                i = rnd.choice(usable)
                pat, items, flg = CASES[i]
                custom = None if items is None else dict(items if rnd.random() < 0.5 else reversed(items))
                o = expected(i)
                try:
                    c = sv.compile(pat, flags=flg, custom=custom)
                except Exception as e:  # noqa: BLE001
                    got = ('err', type(e).__module__ + '.' + type(e).__name__, str(e))
                    if o[0] != 'err' or got != o[:3]:
                        errors.append((i, CASES[i], got, o[:3]))
                    continue
                if o[0] != 'ok':
                    errors.append((i, CASES[i], 'ok', o[:3]))
                    continue
                ref = pickle.loads(o[1])
                loc = local_fresh(pat, items, flg)
                if c != ref or c != loc or hash(c) != hash(loc) or c.selectors != ref.selectors:
                    errors.append((i, CASES[i], 'different object', repr(c.selectors)))
                ids = tuple(t.get('id') for t in c.select(soup))
                if ids != o[4]:
                    errors.append((i, CASES[i], ids, o[4]))
        except BaseException as e:  # noqa: BLE001
            errors.append(('thread died', repr(e)))

    def purger():
        start.wait()
        for _ in range(400):
            sv.purge()

    try:
        for rounds in range(3):
            sv.purge()  # first use of the memo happens inside the threads
            threads = [threading.Thread(target=worker, args=(rounds * 100 + t,)) for t in range(8)]
            threads.append(threading.Thread(target=purger))
            for t in threads:
                t.start()
            for t in threads:
                t.join(300)
                check(not t.is_alive(), 'thread hang')
            start.reset()
    finally:
        sys.setswitchinterval(old_si)
    # Reversed insertion order is an EQUAL map for the non-twin cases; the oracle for it is the same unless
    # the name processing is order dependent, which only the twins are (excluded above).
    check(not errors, f'threads: {len(errors)} mismatches, first: {errors[:3]!r}')
    print(f'threads: 3 rounds x 8 workers x 1500 compiles + purger, {len(errors)} mismatches')

    # Same stress aimed at the memo only: one map, many patterns, so every compile is a pattern-cache miss
    # that goes through the memo; dict handed to one compile must never be seen by another.
    sys.setswitchinterval(1e-6)
    errs2 = []
    chain = CUSTOMS['chain_complex']
    ref_sel = {p: cp._cached_css_compile.__wrapped__(p, None, ct.CustomSelectors(dict(chain)), 0).selectors
               for p in (':--a', ':--b', ':--c', ':--d')}

    def worker2(seed):
        rnd = random.Random(seed)
        try:
            for j in range(600):
                p = rnd.choice((':--a', ':--b', ':--c', ':--d'))
                if rnd.random() < 0.5:
                    sv.purge()
                c = sv.compile(p, custom=dict(chain))
                if c.selectors != ref_sel[p]:
                    errs2.append((p, repr(c.selectors)))
        except BaseException as e:  # noqa: BLE001
            errs2.append(('died', repr(e)))

    try:
        threads = [threading.Thread(target=worker2, args=(t,)) for t in range(8)]
        for t in threads:
            t.start()
        for t in threads:
            t.join(300)
            check(not t.is_alive(), 'thread hang (2)')
    finally:
        sys.setswitchinterval(old_si)
    check(not errs2, f'threads(2): {len(errs2)} mismatches, first: {errs2[:3]!r}')
    print(f'threads(2): 8 workers x 600 purge/compile on one alias chain, {len(errs2)} mismatches')


def main():
    print('soupsieve from', sv.__file__)
    print(f'{len(CASES)} cases; computing oracle in a fresh process ...')
    oracle = run_child('--oracle')
    assert len(oracle) == len(CASES)
    n_ok = sum(1 for o in oracle if o[0] == 'ok')
    print(f'oracle: {n_ok} compile, {len(oracle) - n_ok} raise')
    # Sample: one fresh process per case through the public API must agree with the batch oracle.
    rnd = random.Random(7)
    sample = rnd.sample(range(len(CASES)), 40)
    for i in sample:
        check(same(run_child('--one', str(i)), oracle[i]), f'fresh-process compile of case {i} != batch oracle')
    print(f'oracle cross-check: {len(sample)} single-case fresh processes agree')

    check_private_dicts()
    check_pattern_cache_truthful()
    check_sequences(oracle)
    check_debug_stdout(oracle)
    check_aborts(oracle)
    check_threads(oracle)
    print('FAILED: %d' % len(FAILS) if FAILS else 'ALL OK')
    return 1 if FAILS else 0


if __name__ == '__main__':
    if len(sys.argv) > 1 and sys.argv[1] == '--oracle':
        oracle_main()
    elif len(sys.argv) > 2 and sys.argv[1] == '--one':
        oracle_one(int(sys.argv[2]))
    else:
        sys.exit(main())
