#!/venv/bin/python
"""Single entry point of the verification machinery.

  check.py setup
  check.py <C04|C14|C15|C16> [--tier quick|thorough] [--seed N] [--budget SECONDS]
  check.py <id> --replay <file> [--quiet]
  check.py selftest-determinism [--n N]
  check.py selftest-sensitivity [--only NAME]

Exit codes: 0 = property held on everything explored (KNOWN-FINDING lines possible);
1 = at least one "VIOLATION property=<id> replay=<path>" not listed in known_findings.json;
2 = harness error / timeout / determinism self-check mismatch (never a violation claim).
"""
from __future__ import annotations

import argparse
import os
import sys

HERE = os.path.dirname(os.path.abspath(__file__))
if HERE not in sys.path:
    sys.path.insert(0, HERE)

# One stable hash seed for the main interpreter and the workers forked from it; determinism under
# another hash seed is checked separately in a fresh interpreter.
def _fixed_address_space():
    """Switch address-space randomisation off for this process image and everything it starts (Linux personality
    flag ADDR_NO_RANDOMIZE, inherited across fork/exec).  Object addresses are one more source of nondeterminism the
    properties can depend on (state keyed by id() of a dead node): with a fixed layout the same allocation history gives
    the same addresses, so a fresh-interpreter replay repeats itself exactly.  Best effort: silently skipped where the
    call is not available."""
    try:
        import ctypes
        libc = ctypes.CDLL(None, use_errno=True)
        cur = libc.personality(0xffffffff)
        if cur != -1 and not cur & 0x0040000:
            libc.personality(cur | 0x0040000)
    except Exception:  # noqa: BLE001
        pass


if (os.environ.get('PYTHONHASHSEED') is None or os.environ.get('VERIF_FIXED_ADDRESSES') is None) \
        and os.environ.get('VERIF_NO_REEXEC') is None:
    os.environ.setdefault('PYTHONHASHSEED', '0')
    os.environ['VERIF_NO_REEXEC'] = '1'
    os.environ['VERIF_FIXED_ADDRESSES'] = '1'
    _fixed_address_space()
    os.execv(sys.executable, [sys.executable] + sys.argv)

os.environ.pop('COVERAGE_PROCESS_START', None)
os.environ.pop('COVERAGE_PROCESS_CONFIG', None)


def setup():
    import importlib
    ok = True
    print('python', sys.version.split()[0], sys.executable)
    for m in ('bs4', 'lxml.etree', 'html5lib'):
        try:
            importlib.import_module(m)
            print('ok   import', m)
        except Exception as e:  # noqa: BLE001
            print('FAIL import', m, repr(e))
            ok = False
    repo = os.environ.get('VERIF_REPO', '/repo')
    if os.path.isdir(os.path.join(repo, 'soupsieve')):
        print('ok   tree', repo)
    else:
        print('FAIL no soupsieve under', repo)
        ok = False
    for d in ('evidence', 'replays'):
        os.makedirs(os.path.join(HERE, d), exist_ok=True)
    return 0 if ok else 2


def main(argv=None):
    ap = argparse.ArgumentParser()
    ap.add_argument('what')
    ap.add_argument('--tier', default=os.environ.get('VERIF_TIER') or 'quick', choices=['quick', 'thorough'])
    ap.add_argument('--seed', type=int, default=None)
    ap.add_argument('--budget', type=float, default=None)
    ap.add_argument('--replay', default=None)
    ap.add_argument('--quiet', action='store_true')
    ap.add_argument('--n', type=int, default=None)
    ap.add_argument('--only', default=None)
    a = ap.parse_args(argv)

    if a.what == 'setup':
        return setup()
    if a.what == 'selftest-determinism':
        from selftest import determinism
        return determinism.main(a.n)
    if a.what == 'selftest-sensitivity':
        from selftest import sensitivity
        return sensitivity.main(a.only)

    prop = a.what.upper()
    from sim import driver
    if prop not in driver.MODULES:
        print('unknown property', prop)
        return 2
    if a.replay:
        return driver.replay(prop, a.replay, a.quiet)
    seed = a.seed
    if seed is None:
        try:
            seed = int(os.environ.get('VERIF_SEED', '0') or 0)
        except ValueError:
            seed = 0
    try:
        return driver.check(prop, a.tier, seed, a.budget)
    except KeyboardInterrupt:
        return 2
    except Exception:  # noqa: BLE001
        import traceback
        print('HARNESS-ERROR ' + prop + '\n' + traceback.format_exc(), flush=True)
        return 2


if __name__ == '__main__':
    sys.exit(main())
