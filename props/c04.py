"""C04 - answers do not depend on query history; matching never mutates the tree.

One run = one caller and many *tasks* over 1-3 live documents: plain calls
(select / select_one / iselect / match / filter / closest; module-level, compiled and
pre-compiled forms), suspended ``iselect`` generators that are resumed one item at a time in
any order relative to the other calls and may be closed or drained at any point, documents
that are dropped and re-created during the run (ids recycled), and calls aborted part-way by an
injected exception.  The library is compared with itself:

  O1-history    the answer of every call, at every position of the history, equals the answer of
                the same call made alone on a freshly parsed copy of the same markup after purge()
  O1-generator  what an interleaved generator has yielded so far is a prefix of (when exhausted:
                equal to) the reference select() list
  O2-alone      without :scope/&: e in select(s, t)  <=>  match(s, e) asked alone on a fresh copy,
                for every element descendant e of t (for filter/closest/select_one/limit>0 only
                "returned => matches alone")
  O3-mutation   content and node-identity fingerprint of every live document is unchanged after
                every step, including aborted calls and closed generators
"""
from __future__ import annotations

import gc
import json  # noqa: F401
import random
import sys

from sim import env, fingerprint as fp, gen, ops

PROP = 'C04'
_POOL = frozenset(gen.STATEFUL_POOL)
ENTRIES = ('select', 'select', 'select', 'iselect', 'select_one', 'match', 'match', 'filter', 'closest')


# ---------------------------------------------------------------------------
# workload
# ---------------------------------------------------------------------------

def gen_workload(rng, mode):
    nspecs = rng.randint(2, 4)
    specs = [gen.gen_doc(rng, max_size=rng.choice([12, 25, 40]), odd=0.12) for _ in range(nspecs)]
    # same-shape variants: parsed into the memory a dropped document just released, they get the same node addresses
    variants = {}
    for si in range(nspecs):
        if rng.random() < 0.6:
            v = gen.variant_spec(rng, specs[si])
            if v is not None:
                specs.append(v)
                variants[si] = len(specs) - 1
                variants[len(specs) - 1] = si
    nslots = rng.choice([1, 1, 2, 2, 3])
    slots = [rng.randrange(nspecs) for _ in range(nslots)]
    keys = []
    for _ in range(rng.randint(5, 12)):
        r = rng.random()
        if r < 0.45:
            keys.append({'pattern': rng.choice(gen.STATEFUL_POOL), 'ns': None, 'custom': None, 'flags': 0,
                         'uses_scope': False, 'special': 0})
        elif r < 0.55:
            keys.append({'pattern': rng.choice(gen.STATEFUL_POOL) + ', ' + rng.choice(gen.STATEFUL_POOL), 'ns': None,
                         'custom': None, 'flags': 0, 'uses_scope': False, 'special': 0})
        else:
            keys.append(gen.gen_key(rng, selgen_kw={'simple': True, 'stateful_bias': 0.7, 'invalid': 0.04,
                                                     'lexical': 0.05}, ns_bias=0.2, custom_bias=0.15))
    # align the selector pool with what the documents of this run contain, and remember one "anchor" query per
    # aligned selector: a whole-document select whose membership is compared element by element (O2)
    anchors = []
    for si, sp in enumerate(specs):
        for feat in gen.markup_features(sp['markup'], nsattr=True):
            if rng.random() < 0.6:
                keys.append(gen.feature_key(rng, feat))
                anchors.append((si, len(keys) - 1))
                if feat == 'nsattr':
                    # the same question goes to every XML document of the run (they may bind the prefix differently)
                    for sj, sq in enumerate(specs):
                        if sj != si and sq['parser'] == 'xml':
                            anchors.append((sj, len(keys) - 1))
    with_inputs = [si for si, sp in enumerate(specs) if '<input' in sp['markup'] and sp['parser'] != 'xml']
    if with_inputs and rng.random() < 0.4:
        # form controls whose type/name the API set to a non-string (the HTML-only pseudo-classes may raise on them: a
        # natural exception) + namespace-qualified questions about form state, asked on every document with controls
        si = rng.choice(with_inputs)
        specs[si]['mut'] = list(specs[si].get('mut') or []) + [[rng.randint(1, 60) | 1, rng.choice(['type', 'type', 'name']),
                                                                rng.choice(gen.ODD_VALUES)]]
        for _ in range(rng.randint(1, 2)):
            pat, ns = rng.choice(gen.HTML_NS_POOL)
            keys.append({'pattern': pat, 'ns': ns, 'custom': None, 'flags': 0, 'uses_scope': False, 'special': 0})
            for sj in with_inputs:
                anchors.append((sj, len(keys) - 1))
    for sp in specs:
        if sp['parser'] == 'xml' and '<input' in sp['markup'] and rng.random() < 0.3:
            # XHTML/XML form controls with an attribute the API set to a non-string: the HTML-only pseudo-classes may
            # raise on them (a natural exception) in the middle of a namespace-qualified selector
            sp['mut'] = list(sp.get('mut') or []) + [[rng.randint(1, 60) | 1, rng.choice(['type', 'type', 'name']),
                                                      rng.choice(gen.ODD_VALUES)]]
    if any(sp['parser'] == 'xml' or sp['markup'].startswith('<?xml') for sp in specs):
        for _ in range(rng.randint(1, 4)):
            pat, ns = rng.choice(gen.XML_STATEFUL_POOL)
            keys.append({'pattern': pat, 'ns': ns, 'custom': None, 'flags': 0, 'uses_scope': False, 'special': 0})
            for si, sp in enumerate(specs):
                if sp['parser'] == 'xml' or sp['markup'].startswith('<?xml'):
                    anchors.append((si, len(keys) - 1))
    kinds = {('xml' if (sp['parser'] == 'xml') else 'html') for sp in specs}
    if len(kinds) == 2:
        # one compiled selector (shared through the pattern cache) meets an HTML tree and an XML tree
        for _ in range(rng.randint(1, 3)):
            pat = rng.choice(gen.CASE_POOL)
            keys.append({'pattern': pat, 'ns': {'x': gen.NS_X} if pat.startswith('x|') else None, 'custom': None,
                         'flags': 0, 'uses_scope': False, 'special': 0})
            for si in range(len(specs)):
                anchors.append((si, len(keys) - 1))
    if any(sp.get('detach') is not None for sp in specs):
        for _ in range(rng.randint(1, 3)):
            keys.append({'pattern': rng.choice(gen.ROOT_NTH_POOL), 'ns': None, 'custom': None, 'flags': 0,
                         'uses_scope': False, 'special': 1})
    # numeric twins: the same selector with one number changed by one (two compiled structures that differ in one
    # integer); a call with one of them is followed by the same call with its twin
    twins = {}
    for k in range(len(keys)):
        if rng.random() < 0.5 and len(twins) < 6:
            tw = gen.numeric_neighbour(rng, keys[k]['pattern'])
            if tw is not None and tw != keys[k]['pattern']:
                keys.append(dict(keys[k], pattern=tw))
                twins[k] = len(keys) - 1
                twins[len(keys) - 1] = k
    history = []
    cur = list(slots)
    gens = []       # open generator ids
    ngen = 0
    calls = []      # indices (into history) of plain calls, for repeats
    length = rng.randint(15, 60)
    while len(history) < length:
        r = rng.random()
        if r < 0.50 or not history:
            op = _gen_call(rng, keys, cur, specs)
            if mode == 'faults' and rng.random() < 0.2:
                # the step is a fraction of the call's own length (measured in the reference pass), so the
                # exception lands inside the call rather than after it
                op['fault'] = [round(rng.random(), 4), rng.choice(['MemoryError', 'MemoryError', 'KeyboardInterrupt',
                                                                    'RuntimeError'])]
            history.append(op)
            calls.append(len(history) - 1)
            if op['key'] in twins and rng.random() < 0.6:
                op2 = dict(op, key=twins[op['key']])
                op2.pop('fault', None)
                history.append(op2)
                calls.append(len(history) - 1)
        elif r < 0.58 and calls:
            op = dict(history[rng.choice(calls)])
            op.pop('fault', None)
            op['repeat'] = True
            # the slot may hold another document by now; a repeat is only a repeat when it does not
            history.append(op)
        elif r < 0.68:
            op = _gen_call(rng, keys, cur, specs)
            broad = [k for k, key in enumerate(keys) if key['pattern'] in _POOL]
            if broad and rng.random() < 0.6:
                op['key'] = rng.choice(broad)
                op['target'] = -1
            op = {'op': 'gen_start', 'g': ngen, 'key': op['key'], 'doc': op['doc'], 'target': op['target'],
                  'limit': rng.choice([0, 0, 0, 2, 5]), 'form': op['form']}
            gens.append(ngen)
            ngen += 1
            history.append(op)
        elif r < 0.86 and gens:
            g = rng.choice(gens)
            op = {'op': 'gen_next', 'g': g, 'n': rng.choice([1, 1, 1, 2, 3])}
            if mode == 'faults' and rng.random() < 0.1:
                op['fault'] = [rng.randint(1, 120), 'MemoryError']
            history.append(op)
        elif r < 0.90 and gens:
            g = rng.choice(gens)
            gens.remove(g)
            history.append({'op': rng.choice(['gen_close', 'gen_drain', 'gen_abandon']), 'g': g})
        elif r < 0.925 and mode != 'nochurn':
            # the user edits a live tree between two queries (attribute, text, structure), then asks again
            s = rng.randrange(len(cur))
            edits = [gen.gen_edit(rng) for _ in range(rng.choice([1, 1, 2]))]
            ask = None
            if rng.random() < 0.7:
                # a question the edit is likely to change the answer to: asked before (fills whatever the library
                # remembers) and after the edit
                keys.append({'pattern': rng.choice(gen.EDIT_ALIGNED[gen.edit_family(edits[-1])]), 'ns': None, 'custom': None,
                             'flags': 0, 'uses_scope': False, 'special': 0})
                ask = {'op': 'call', 'entry': rng.choice(['select', 'select', 'iselect', 'filter', 'match', 'closest']),
                       'key': len(keys) - 1, 'doc': s, 'target': -1 if rng.random() < 0.7 else edits[-1][1],
                       'form': rng.choice(['module', 'compiled', 'precompiled', 'bs4']), 'limit': 0}
                if edits[-1][0] == 'detach':
                    # asked about the subtree while it is part of the document, and again once it stands alone
                    edits = edits[-1:]
                    ask['target'] = ['inner', edits[-1][1]]
                history.append(dict(ask))
                calls.append(len(history) - 1)
            for e in edits:
                history.append({'op': 'edit', 'doc': s, 'edit': e})
            if ask is not None:
                history.append(dict(ask, o2=True, target=-1) if edits[-1][0] == 'detach' else dict(ask, o2=True))
                if len(cur) > 1 and rng.random() < 0.4:
                    # and the same selector, right afterwards, on another loaded document (if the question about the
                    # edited tree failed part-way, nothing of that may show here)
                    history.append(dict(ask, doc=(s + 1 + rng.randrange(len(cur) - 1)) % len(cur), target=-1))
                    calls.append(len(history) - 1)
            prev = [c for c in calls if history[c].get('doc') == s]
            if prev and rng.random() < 0.6:
                op = dict(history[rng.choice(prev)])
                op.pop('fault', None)
                history.append(op)
        elif r < 0.96 and mode != 'nochurn':
            s = rng.randrange(len(cur))
            if cur[s] in variants and rng.random() < 0.6:
                cur[s] = variants[cur[s]]
            else:
                cur[s] = rng.randrange(len(specs))
            history.append({'op': 'churn', 'doc': s, 'spec': cur[s]})
            if calls and rng.random() < 0.7:
                # ask again what was asked before the document was replaced
                prev = [c for c in calls if history[c].get('doc') == s]
                if prev:
                    op = dict(history[rng.choice(prev)])
                    op.pop('fault', None)
                    history.append(op)
        else:
            history.append({'op': 'purge'})
        if anchors and rng.random() < 0.25:
            si, k = anchors[rng.randrange(len(anchors))]
            others = sorted({sj for sj, kj in anchors if kj == k and sj != si})
            if others and mode != 'nochurn' and rng.random() < 0.3:
                # the same question to every document it is aligned with, one after the other (what the library may
                # remember from one document must not leak into the answer for the next)
                rng.shuffle(others)
                for sj in others[:3]:
                    wj = [s for s, sidx in enumerate(cur) if sidx == sj]
                    if not wj:
                        s = rng.randrange(len(cur))
                        cur[s] = sj
                        history.append({'op': 'churn', 'doc': s, 'spec': sj})
                        wj = [s]
                    history.append({'op': 'call', 'entry': rng.choice(['select', 'select', 'iselect', 'filter']), 'key': k,
                                    'doc': rng.choice(wj), 'target': -1, 'form': rng.choice(['module', 'compiled', 'precompiled']),
                                    'limit': 0, 'o2': True})
                    calls.append(len(history) - 1)
            where = [s for s, sidx in enumerate(cur) if sidx == si]
            if not where and mode != 'nochurn' and rng.random() < 0.5:
                # the document this question is aligned with is not loaded right now: load it into some slot first
                s = rng.randrange(len(cur))
                cur[s] = si
                history.append({'op': 'churn', 'doc': s, 'spec': si})
                where = [s]
            if where:
                history.append({'op': 'call', 'entry': rng.choice(['select', 'select', 'iselect', 'filter', 'closest']),
                                'key': k, 'doc': rng.choice(where), 'target': -1 if rng.random() < 0.8 else rng.randint(0, 60),
                                'form': rng.choice(['module', 'compiled', 'precompiled']), 'limit': 0, 'o2': True})
                calls.append(len(history) - 1)
    return {'mode': mode, 'specs': specs, 'slots': slots, 'keys': keys, 'history': history}


def _gen_call(rng, keys, cur, specs):
    entry = rng.choice(ENTRIES)
    d = rng.randrange(len(cur))
    op = {
        'op': 'call', 'entry': entry, 'key': rng.randrange(len(keys)), 'doc': d,
        'target': -1 if rng.random() < (0.6 if entry in ('select', 'iselect', 'select_one') else 0.15)
        else rng.randint(0, 60),
        'form': rng.choice(['module', 'module', 'compiled', 'precompiled', 'bs4']),
    }
    if entry in ('select', 'iselect'):
        op['limit'] = rng.choice([0, 0, 0, 0, 1, 3, -1])
    if entry == 'filter' and rng.random() < 0.4:
        op['items'] = [[rng.choice([rng.randrange(len(cur)), -1]) if rng.random() < 0.9 else -1, rng.randint(-1, 60)]
                       for _ in range(rng.randint(1, 6))]
    return op


# ---------------------------------------------------------------------------
# execution
# ---------------------------------------------------------------------------

class FaultTracer:
    """Raises an exception at the k-th fault point inside soupsieve frames.

    Fault points are function entries ('call': the callee fails at once) and function exits ('return': the call raises
    in its caller, inside whatever try/with protects it).  'line' events are deliberately not fault points: they lie
    between statements (e.g. after a with-body, before __exit__), where neither a failing operation nor - on CPython
    3.12 - an asynchronous exception can strike."""

    def __init__(self, prefix, at, exc):
        self.prefix = prefix
        self.at = at
        self.exc = exc
        self.n = 0
        self.fired = None
        self.unwinding = False

    def glob(self, frame, event, arg):
        if event == 'call' and frame.f_code.co_filename.startswith(self.prefix):
            self._step(frame)
            return self.local
        return None

    def local(self, frame, event, arg):
        if event == 'return':
            if not self.unwinding:
                self._step(frame)
            self.unwinding = False
        elif event == 'exception':
            self.unwinding = True
        elif event == 'line':
            self.unwinding = False
        return self.local

    def _step(self, frame):
        self.n += 1
        if self.n == self.at and self.fired is None:
            self.fired = (frame.f_code.co_name, frame.f_lineno)
            from sim import sched
            raise sched.FAULT_EXC[self.exc]('injected by simulator')


class Live:
    """The live side of a run: documents in slots, open generators."""

    def __init__(self, sv, w):
        self.sv = sv
        self.w = w
        self.ctx = ops.Ctx(sv, w['keys'], [])
        self.slot_spec = []
        self.fps = []
        for sidx in w['slots']:
            self._install(None, sidx)
        self.gens = {}

    def _install(self, slot, sidx):
        soup = gen.build_state(self.w['specs'], sidx)
        els, idx = fp.index_doc(soup)
        f = fp.doc_fingerprint(soup)
        if slot is None:
            self.ctx.docs.append(soup)
            self.ctx.els.append(els)
            self.ctx.idx.append(idx)
            self.slot_spec.append(sidx)
            self.fps.append(f)
        else:
            self.ctx.docs[slot] = soup
            self.ctx.els[slot] = els
            self.ctx.idx[slot] = idx
            self.slot_spec[slot] = sidx
            self.fps[slot] = f


def _ref_ctx(sv, w, slot_spec, needed):
    """A context whose needed slots hold freshly parsed copies (others share one tiny placeholder)."""

    ctx = ops.Ctx(sv, w['keys'], [])
    for s, sidx in enumerate(slot_spec):
        if s in needed:
            soup = gen.build_state(w['specs'], sidx)
            els, idx = fp.index_doc(soup)
        else:
            soup, els, idx = None, [], {}
        ctx.docs.append(soup)
        ctx.els.append(els)
        ctx.idx.append(idx)
    return ctx


def _needed_slots(op):
    need = {op['doc']}
    for dd, tt in op.get('items') or ():
        if dd >= 0:
            need.add(dd)
    return need


def _st(state):
    """Hashable form of a slot state (spec index, or [spec index, [edits]])."""
    return state if isinstance(state, int) else (state[0], json.dumps(state[1], sort_keys=True))


def _call_key(op, slot_spec):
    items = op.get('items')
    ik = None
    if items is not None:
        ik = tuple((dd if dd < 0 else ('s', dd % len(slot_spec), _st(slot_spec[dd % len(slot_spec)])), tt) for dd, tt in items)
    t = op.get('target', -1)
    return (op.get('entry', 'select'), op['key'], op['doc'], _st(slot_spec[op['doc']]), tuple(t) if isinstance(t, list) else t,
            op.get('limit', 0), op.get('form', 'module'), ik)


def _as_call(op, entry=None):
    c = {'op': entry or op.get('entry', 'select'), 'key': op['key'], 'doc': op['doc'], 'target': op.get('target', -1),
         'form': op.get('form', 'module')}
    if 'limit' in op:
        c['limit'] = op['limit']
    if op.get('items') is not None:
        c['items'] = [[dd, tt] for dd, tt in op['items']]
    return c


def _normalise_items(op, nslots):
    """filter(list) items refer to slots modulo the number of live slots."""
    if op.get('items') is not None:
        op = dict(op)
        op['items'] = [[(dd % nslots) if dd >= 0 else -1, tt] for dd, tt in op['items']]
    return op


def execute(sv, w, o2_seed=0, o2_rate=0.35, pristine_checks=2):
    """Run one history.  Returns a result dict (pure data)."""

    prefix = env.repo_pkg_dir()
    probes = {}

    def probe(name, n=1):
        probes[name] = probes.get(name, 0) + n

    nslots = len(w['slots'])
    history = [_normalise_items(op, nslots) if op.get('op') == 'call' else op for op in w['history']]

    # ---- plan: which spec is in which slot at each step
    slot_spec = list(w['slots'])
    plan = []
    for op in history:
        if op['op'] == 'churn':
            slot_spec[op['doc'] % nslots] = op['spec']
        elif op['op'] == 'edit':
            st = slot_spec[op['doc'] % nslots]
            slot_spec[op['doc'] % nslots] = [st, [op['edit']]] if isinstance(st, int) else [st[0], list(st[1]) + [op['edit']]]
        plan.append(list(slot_spec))

    # ---- reference pass: every distinct call alone, on fresh copies, after purge, in a shuffled order
    need = {}
    gen_args = {}
    for i, op in enumerate(history):
        if op['op'] == 'call':
            need.setdefault(_call_key(op, plan[i]), (op, plan[i]))
        elif op['op'] == 'gen_start':
            gen_args[op['g']] = (op, plan[i])
            c = dict(op)
            c['entry'] = 'select'
            need.setdefault(_call_key(c, plan[i]), (c, plan[i]))
    order = sorted(need, key=lambda k: fp.h((o2_seed, k)))
    # a few of the reference calls are first made in forked children of the still pristine process (the library has
    # not been used at all in this run yet): the in-process reference pass, which makes one call after the other, must
    # agree with them - otherwise the reference pass itself was history-dependent
    pristine = {}
    if order and pristine_checks:
        from sim import runner
        prng = random.Random(o2_seed ^ 0x5eed)
        for ck in prng.sample(order, min(pristine_checks, len(order))):
            op, ss = need[ck]
            try:
                pristine[ck] = runner.isolated(_alone, sv, w, ss, op, hang_s=20)
            except RuntimeError:
                pass
    # The reference pass below makes one call after the other in ONE process.  A second pass makes the same calls in
    # the reverse order in a forked child of the still pristine process: if the library remembers anything across calls
    # that is keyed on too little, the two passes disagree on some call - the references themselves are then
    # history-dependent.
    refb = None
    if pristine_checks and len(order) > 1:
        from sim import runner
        try:
            refb = runner.isolated(_ref_pass_reversed, sv, w, [(ck, need[ck][0], need[ck][1]) for ck in reversed(order)],
                                   hang_s=30)
        except Exception:  # noqa: BLE001 - killed at the deadline / died: no second opinion for this run
            refb = None
    ref = {}
    ref_len = {}
    faulted_keys = {_call_key(op, plan[i]) for i, op in enumerate(history) if op['op'] == 'call' and op.get('fault')}
    try:
        with env.wall_guard(20.0):
            for ck in order:
                op, ss = need[ck]
                env.canonical_state(sv)
                ctx = _ref_ctx(sv, w, ss, _needed_slots(op))
                if ck in faulted_keys:
                    # measure the call's length in steps (warm pattern cache, as it mostly is in the history)
                    ops.safe_run(ctx, _as_call(op))
                    cnt = FaultTracer(prefix, -1, 'MemoryError')
                    sys.settrace(cnt.glob)
                    try:
                        ref[ck] = ops.safe_run(ctx, _as_call(op))
                    finally:
                        sys.settrace(None)
                    ref_len[ck] = cnt.n
                    env.canonical_state(sv)
                    ctx = _ref_ctx(sv, w, ss, _needed_slots(op))
                ref[ck] = ops.safe_run(ctx, _as_call(op))
    except env.SlowOperation:
        sys.settrace(None)
        return {'discarded': 'slow-operation-in-reference-pass'}
    probe('reference_calls', len(ref))
    early = None
    if isinstance(refb, dict):
        probe('reference_pass_repeated_in_reverse_order_in_a_pristine_process')
        for ck in order:
            if ck in refb and ck in ref and refb[ck] != ref[ck]:
                op, ss = need[ck]
                early = {'oracle': 'O1-history', 'step': -1, 'call': _as_call(op),
                         'pattern': w['keys'][op['key']]['pattern'], 'expected': _j(refb[ck]), 'observed': _j(ref[ck]),
                         'detail': 'the same call, alone on a fresh copy, answers differently depending on which other '
                                   'calls the process made before it (reference pass in shuffled order vs the reverse '
                                   'order in a pristine process)'}
                break

    for ck, alone in pristine.items():
        probe('reference_calls_cross_checked_in_pristine_process')
        if alone != ref[ck] and early is None:
            op, ss = need[ck]
            early = {'oracle': 'O1-history', 'step': -1, 'call': _as_call(op), 'pattern': w['keys'][op['key']]['pattern'],
                     'expected': _j(alone), 'observed': _j(ref[ck]),
                     'detail': 'the same call on a fresh copy answers differently in a pristine process than after the '
                               'other reference calls made in this process'}

    # ---- live pass
    env.canonical_state(sv)
    live = Live(sv, w)
    ctx = live.ctx
    for op in history:
        if op.get('form') == 'precompiled':
            ctx.precompile(op['key'])   # "pre-compiled" = compiled before the history starts, outside any fault
    events = []
    violation = None
    o2rng = random.Random(o2_seed)
    faults_fired = []
    gens = {}   # g -> {'it', 'got', 'ck', 'dead', 'slot', 'spec'}
    seen_calls = set()
    ids_seen = set(id(d) for d in ctx.docs)
    last_query = [-1]

    def violate(clause, **detail):
        nonlocal violation
        if violation is None:
            detail['oracle'] = clause
            violation = detail

    def check_doc(slot, step, what):
        f = fp.doc_fingerprint(ctx.docs[slot])
        f0 = live.fps[slot]
        if f[0] != f0[0]:
            violate('O3-mutation', step=step, after=what, slot=slot, detail='document content/serialisation changed')
        elif f[1] != f0[1]:
            violate('O3-mutation', step=step, after=what, slot=slot, detail='node identities or links changed')

    if early is not None:
        violation = early
    for i, op in enumerate(history):
        if violation is not None:
            break
        kind = op['op']
        ss = plan[i]
        if kind == 'call':
            call = _as_call(op)
            ck = _call_key(op, ss)
            fault = op.get('fault')
            if fault:
                at = fault[0]
                if isinstance(at, float):
                    at = 1 + int(at * max(1, ref_len.get(ck, 50)))
                fault = [at, fault[1]]
                tr = FaultTracer(prefix, fault[0], fault[1])
                sys.settrace(tr.glob)
                try:
                    out = ops.run_op(ctx, call)
                except BaseException as e:  # noqa: BLE001
                    sys.settrace(None)
                    out = fp.fp_exc(e)
                finally:
                    sys.settrace(None)
                if tr.fired:
                    faults_fired.append([i, fault[0], fault[1], tr.fired[0], tr.fired[1]])
                    probe('fault:exc@step')
                    if out[0] == 'exc' and out[1] == fault[1]:
                        probe('call_aborted_by_fault')
                        events.append((i, 'aborted', fault[1]))
                        for s in _needed_slots(op):
                            check_doc(s % nslots, i, 'aborted ' + op['entry'])
                        last_query[0] = i
                        continue
                    probe('fault_swallowed_by_library')
            else:
                out = ops.safe_run(ctx, call)
            last_query[0] = i
            events.append((i, op['entry'], fp.h(out)))
            if ck in seen_calls:
                probe('call_repeated_later_in_history')
            seen_calls.add(ck)
            if out != ref[ck]:
                violate('O1-history', step=i, call=call, pattern=w['keys'][op['key']]['pattern'],
                        expected=_j(ref[ck]), observed=_j(out),
                        earlier_steps=i)
            for s in _needed_slots(op):
                check_doc(s % nslots, i, op['entry'])
            if out[0] != 'exc':
                probe('call_ok')
                if _matches_something(out):
                    probe('call_nonempty')
            # O2: element alone
            if violation is None and out[0] in ('els', 'el') and not op.get('items'):
                if op.get('o2') or o2rng.random() < o2_rate:
                    _o2(sv, w, ss, op, out, violate, probe, i)
        elif kind == 'gen_start':
            call = _as_call(op)
            c = dict(op)
            c['entry'] = 'select'
            gens[op['g']] = {'it': _make_gen(ctx, call), 'got': [], 'ck': _call_key(c, ss), 'dead': False,
                             'slot': op['doc'], 'call': call, 'touched': i}
            events.append((i, 'gen_start', op['g']))
        elif kind in ('gen_next', 'gen_drain', 'gen_close', 'gen_abandon'):
            g = gens.get(op['g'])
            if g is None or g['dead']:
                events.append((i, kind, 'dead'))
                continue
            if kind == 'gen_close':
                try:
                    g['it'].close()
                except Exception as e:  # noqa: BLE001
                    violate('O1-generator', step=i, detail=f'close() raised {type(e).__name__}: {fp.short(e)}')
                g['dead'] = True
                probe('fault:gen-close')
                events.append((i, 'gen_close', len(g['got'])))
                check_doc(g['slot'], i, 'gen_close')
                continue
            if kind == 'gen_abandon':
                g['it'] = None
                g['dead'] = True
                gc.collect()
                probe('fault:gen-abandon')
                events.append((i, 'gen_abandon', len(g['got'])))
                check_doc(g['slot'], i, 'gen_abandon')
                continue
            n = op.get('n', 1) if kind == 'gen_next' else 10 ** 6
            if last_query[0] > g['touched'] and g['got']:
                probe('generator_resumed_after_peer_query')
            g['touched'] = i
            fault = op.get('fault')
            exhausted = False
            err = None
            tr = None
            if fault:
                tr = FaultTracer(prefix, fault[0], fault[1])
                sys.settrace(tr.glob)
            try:
                for _ in range(n):
                    try:
                        el = next(g['it'])
                    except StopIteration:
                        exhausted = True
                        break
                    g['got'].append(ops._any_index(ctx, g['slot'], el))
            except BaseException as e:  # noqa: BLE001
                err = fp.fp_exc(e)
                g['dead'] = True
            finally:
                sys.settrace(None)
            if tr is not None and tr.fired:
                faults_fired.append([i, fault[0], fault[1], tr.fired[0], tr.fired[1]])
                probe('fault:exc@step')
            events.append((i, kind, tuple(g['got']), exhausted, err))
            r = ref[g['ck']]
            if err is not None:
                if tr is not None and tr.fired and err[1] == fault[1]:
                    probe('generator_aborted_by_fault')
                elif r != err and not (r[0] == 'exc' and r[1:] == err[1:]):
                    violate('O1-generator', step=i, call=g['call'], pattern=w['keys'][g['call']['key']]['pattern'],
                            expected=_j(r), observed=_j(err))
            elif r[0] == 'exc':
                # select() alone raises part-way (a natural exception, C08's subject): the generator may yield the
                # items that precede the failing element, but it cannot finish normally
                if exhausted:
                    violate('O1-generator', step=i, call=g['call'], pattern=w['keys'][g['call']['key']]['pattern'],
                            expected=_j(r), observed=['yielded', list(g['got']), 'exhausted'])
                    g['dead'] = True
            else:
                want = list(r[1])
                got = list(g['got'])
                okay = (got == want) if exhausted else (got == want[:len(got)])
                if not okay:
                    violate('O1-generator', step=i, call=g['call'], pattern=w['keys'][g['call']['key']]['pattern'],
                            expected=want, observed=got, exhausted=exhausted)
                if exhausted:
                    g['dead'] = True
                    probe('generator_exhausted')
            check_doc(g['slot'], i, kind)
        elif kind == 'churn':
            s = op['doc'] % nslots
            for g in gens.values():
                if g['slot'] == s and not g['dead']:
                    g['it'].close()
                    g['dead'] = True
                    g['it'] = None
            for g in gens.values():
                if g['slot'] == s:
                    g['it'] = None
            check_doc(s, i, 'before-churn')
            ctx.docs[s] = None
            ctx.els[s] = []
            ctx.idx[s] = {}
            gc.collect()
            live._install(s, op['spec'])
            if id(ctx.docs[s]) in ids_seen:
                probe('doc_id_reused')
            ids_seen.add(id(ctx.docs[s]))
            probe('fault:doc-churn')
            events.append((i, 'churn', s, op['spec']))
        elif kind == 'edit':
            s = op['doc'] % nslots
            for g in gens.values():
                if g['slot'] == s and not g['dead']:
                    g['it'].close()
                    g['dead'] = True
                    g['it'] = None
            check_doc(s, i, 'before-edit')
            ctx.docs[s], changed = gen.apply_edit(ctx.docs[s], op['edit'])
            ctx.els[s], ctx.idx[s] = fp.index_doc(ctx.docs[s])
            live.fps[s] = fp.doc_fingerprint(ctx.docs[s])
            probe('fault:tree-edit' if changed else 'tree_edit_noop')
            if changed:
                probe('tree_edit:' + op['edit'][0])
            events.append((i, 'edit', s, changed))
        elif kind == 'purge':
            sv.purge()
            events.append((i, 'purge'))

    # closing: every live document unchanged
    if violation is None:
        for g in gens.values():
            if g.get('it') is not None and not g['dead']:
                g['it'].close()
        for s in range(nslots):
            check_doc(s, len(history), 'end')

    digest = fp.h((events, violation), 12)
    shape = fp.h([(e[1],) for e in events])
    return {
        'call_steps': max(ref_len.values()) if ref_len else None,
        'violation': violation,
        'digest': digest,
        'probes': probes,
        'faults_fired': faults_fired,
        'nsteps': len(history),
        'sig': fp.h((shape, sorted(k for k in probes if k.startswith(('generator', 'doc_id', 'fault', 'call_rep'))))),
        'nontrivial': bool(probes.get('generator_resumed_after_peer_query') or probes.get('call_repeated_later_in_history')
                           or probes.get('fault:exc@step') or probes.get('doc_id_reused')
                           or probes.get('fault:tree-edit')),
    }


def _ref_pass_reversed(sv, w, items):
    out = {}
    try:
        with env.wall_guard(20.0):
            for ck, op, ss in items:
                env.canonical_state(sv)
                ctx = _ref_ctx(sv, w, ss, _needed_slots(op))
                out[ck] = ops.safe_run(ctx, _as_call(op))
    except env.SlowOperation:
        return None
    return out


def _alone(sv, w, ss, op):
    env.canonical_state(sv)
    ctx = _ref_ctx(sv, w, ss, _needed_slots(op))
    return ops.safe_run(ctx, _as_call(op))


def _matches_something(out):
    if out[0] == 'els':
        return len(out[1]) > 0
    if out[0] == 'el':
        return out[1] is not None
    if out[0] == 'bool':
        return out[1]
    return False


def _make_gen(ctx, call):
    sv = ctx.sv
    key = ctx.keys[call['key']]
    tgt = ctx.target(call['doc'], call.get('target', -1))
    limit = call.get('limit', 0)
    if call.get('form') in ('module', 'bs4'):
        ns = dict(key['ns']) if key.get('ns') is not None else None
        kw = {}
        if key.get('custom') is not None:
            kw['custom'] = dict(key['custom'])
        if call.get('form') == 'bs4':
            if key.get('flags'):
                kw['flags'] = key['flags']
            return tgt.css.iselect(key['pattern'], ns, limit, **kw)
        return sv.iselect(key['pattern'], tgt, ns, limit, key.get('flags', 0), **kw)

    def later():
        # compiled forms: compile lazily at first resumption, like the module-level generator does
        obj = sv.compile(key['pattern'], **gen.key_args(key))
        yield from obj.iselect(tgt, limit)
    return later()


def _o2(sv, w, ss, op, out, violate, probe, step):
    """Element-alone oracle for one call."""

    key = w['keys'][op['key']]
    entry = op['entry']
    full = entry in ('select', 'iselect') and op.get('limit', 0) <= 0 and not key.get('uses_scope')
    ctx = _ref_ctx(sv, w, ss, {op['doc']})
    d = op['doc']
    els = ctx.els[d]
    if not els:
        return
    tgt = ctx.target(d, op.get('target', -1))
    if out[0] == 'els':
        returned = [x for x in out[1] if isinstance(x, int)]
    else:
        returned = [out[1]] if isinstance(out[1], int) else []
    if key.get('uses_scope'):
        # ':scope' means the call target for select and the element itself for match: not comparable
        probe('o2_skipped_scope')
        return
    if full:
        import bs4
        if tgt is ctx.docs[d]:
            cand = list(range(len(els)))
        else:
            cand = [ctx.idx[d][id(e)] for e in tgt.descendants if isinstance(e, bs4.Tag)]
    else:
        cand = returned
    probe('o2_sweeps')
    rs = set(returned)
    for j in cand:
        if j < 0 or j >= len(els):
            continue
        m = ops.safe_run(ctx, {'op': 'match', 'key': op['key'], 'doc': d, 'target': j, 'form': 'module'})
        probe('o2_match_calls')
        if m[0] != 'bool':
            # the selector cannot be evaluated on this element alone (natural exception): not comparable
            probe('o2_match_raised')
            continue
        inside = j in rs
        if inside and not m[1]:
            violate('O2-alone', step=step, call=_as_call(op), pattern=key['pattern'], element=j,
                    detail=f'{entry} returned element {j} but match() on that element alone says False')
            return
        if full and m[1] and not inside:
            violate('O2-alone', step=step, call=_as_call(op), pattern=key['pattern'], element=j,
                    detail=f'match() on element {j} alone says True but {entry} did not return it')
            return


def _j(x):
    if isinstance(x, tuple):
        return [_j(i) for i in x]
    return x


# ---------------------------------------------------------------------------
# systematic single-fault sweep: an exception at every step of one query, then the same questions again
# ---------------------------------------------------------------------------

FAULTSWEEP_BATCH = 40
_SWEEP_DOCS = [
    {'markup': ('<html lang="en"><head><meta http-equiv="content-language" content="de"></head><body><form><input '
                'type="radio" name="r" checked><input type="radio" name="R"><input type="submit"><input type="number" '
                'min="0" max="5" value="7"></form><div dir="rtl" class="a  b"><p class="a">hello</p><p lang="de">x</p>'
                '<a href="#x">l</a></div><ul><li>1</li><li class="c">2</li></ul></body></html>'),
     'parser': 'html.parser', 'mut': []},
    {'markup': '<div class="a b"><p>one</p><p lang="en">two</p><form><input type="radio" name="q"></form><span>t</span></div>',
     'parser': 'html.parser', 'mut': [], 'detach': 0},
    {'markup': ('<?xml version="1.0"?><root xmlns:x="urn:x-test" class="r  s"><x:item k="1" class="p  q">a</x:item><item '
                'xml:lang="en">b</item><Item>c</Item></root>'), 'parser': 'xml', 'mut': []},
]
_SWEEP_SELECTORS = [
    (':lang(en)', None), (':default, :indeterminate', None), (':dir(rtl)', None), ('p:nth-child(2)', None),
    (':first-child *', None), ('.a', None), (':has(> p:lang(de))', None), (':in-range, :out-of-range', None),
    (':nth-child(1 of :lang(en), p) *', None), ('x|item, :checked', {'x': gen.NS_X}), (':root > *:not(.c)', None),
    (':-soup-contains(hello)', None),
]


def run_faultsweep(sv, index):
    from sim import runner
    npairs = len(_SWEEP_DOCS) * len(_SWEEP_SELECTORS)
    pi, batch = index % npairs, index // npairs
    spec = _SWEEP_DOCS[pi % len(_SWEEP_DOCS)]
    pat, ns = _SWEEP_SELECTORS[pi // len(_SWEEP_DOCS)]
    entry = ('select', 'match', 'closest', 'filter')[(pi // 7) % 4]
    key = {'pattern': pat, 'ns': ns, 'custom': None, 'flags': 0, 'uses_scope': False, 'special': 0}
    tgt = -1 if entry in ('select', 'filter') else (0 if entry == 'match' else 3)

    def workload(fault):
        first = {'op': 'call', 'entry': entry, 'key': 0, 'doc': 0, 'target': tgt, 'form': 'module', 'limit': 0}
        if fault is not None:
            first['fault'] = fault
        again = {'op': 'call', 'entry': entry, 'key': 0, 'doc': 0, 'target': tgt, 'form': 'module', 'limit': 0}
        sel = {'op': 'call', 'entry': 'select', 'key': 0, 'doc': 0, 'target': -1, 'form': 'compiled', 'limit': 0, 'o2': True}
        return {'mode': 'faultsweep', 'specs': [spec], 'slots': [0], 'keys': [key], 'history': [first, again, sel]}

    r0 = runner.isolated(execute, sv, workload([10 ** 9, 'MemoryError']), 0, 0.0, 0, hang_s=60)
    if r0.get('discarded'):
        return r0
    length = max(1, r0.get('call_steps') or 1)
    stride = max(1, (length + FAULTSWEEP_BATCH - 1) // FAULTSWEEP_BATCH)
    if batch >= stride:
        return {'discarded': 'faultsweep-batch-beyond-end-of-operation'}
    res = None
    digests = []
    fired = 0
    for st in range(1 + batch, length + 1, stride):
        w = workload([st, 'MemoryError' if st % 3 else 'RuntimeError'])
        try:
            r = runner.isolated(execute, sv, w, 0, 0.0, 0, hang_s=60)
        except runner.IsolatedTimeout:
            continue
        digests.append(r['digest'])
        fired += len(r.get('faults_fired') or [])
        if res is None or (r['violation'] and not res['violation']):
            res = r
            res['workload'] = w
        if r['violation']:
            break
    if res is None:
        return {'discarded': 'faultsweep-batch-beyond-end-of-operation'}
    res = dict(res)
    if not res['violation']:
        res['digest'] = fp.h(digests, 12)
    res['probes'] = dict(res['probes'])
    res['probes']['faultsweep_points'] = len(digests)
    res['probes']['faultsweep_faults_fired'] = fired
    res['nontrivial'] = True
    res['o2_seed'] = 0
    res['o2_rate'] = 0.0
    res['pristine_checks'] = 0
    res['faultsweep'] = {'pair': pi, 'selector': pat, 'parser': spec['parser'], 'detached': spec.get('detach') is not None,
                         'entry': entry, 'batch': batch, 'call_steps': length, 'stride': stride}
    return res


def run_seeded(sv, run_seed, mode, index=None):
    if mode == 'faultsweep':
        res = run_faultsweep(sv, index or 0)
        res['run_seed'] = run_seed
        return res
    rng = random.Random(run_seed)
    w = gen_workload(rng, mode)
    o2 = rng.getrandbits(32)
    res = execute(sv, w, o2)
    res['workload'] = w
    res['o2_seed'] = o2
    res['run_seed'] = run_seed
    return res


def replay(sv, rec):
    res = execute(sv, rec['workload'], rec.get('o2_seed', 0), rec.get('o2_rate', 0.35), rec.get('pristine_checks', 2))
    res['workload'] = rec['workload']
    res['o2_seed'] = rec.get('o2_seed', 0)
    return res


# ---------------------------------------------------------------------------
# batch interface
# ---------------------------------------------------------------------------

def plan(tier):
    if tier == 'thorough':
        scale, budget = 20, 1500
    else:
        scale, budget = 1, 85
    cfgs = []

    def add(mode, bound, nruns, chunk):
        cfgs.append({'name': f'{mode}-k{bound}', 'mode': mode, 'bound': bound, 'nruns': nruns * scale, 'chunk': chunk})

    # fault-free and fault-injecting configurations are separate batches
    add('plain', 500, 3600, 20)
    add('plain', 2, 1400, 20)
    add('nochurn', 500, 1000, 20)
    add('faults', 500, 2400, 20)
    add('faults', 2, 800, 20)
    # systematic single-fault sweep: an exception at every step of one query (36 selector x document pairs incl. a
    # detached fragment and an XML tree), then the same question again and a whole-document select checked element by
    # element; the thorough tier covers every step, the quick tier every ~8th
    cfgs.append({'name': 'faultsweep-k500', 'mode': 'faultsweep', 'bound': 500, 'chunk': 9, 'priority': True, 'det_runs': 2,
                 'nruns': 36 * 5 if tier != 'thorough' else 36 * 105})
    return {'budget_s': budget, 'configs': cfgs, 'minimise_budget': 400}


def make_record(res, cfg=None, index=None):
    w = res['workload']
    return {
        'property': PROP,
        'config': cfg,
        'index': index,
        'run_seed': res.get('run_seed'),
        'o2_seed': res.get('o2_seed', 0),
        'o2_rate': res.get('o2_rate', 0.35),
        'pristine_checks': res.get('pristine_checks', 2),
        'faultsweep': res.get('faultsweep'),
        'bound': (cfg or {}).get('bound') if cfg else res.get('bound'),
        'workload': w,
        'segments': [],
        'faults': [[i, op['fault'][0], op['fault'][1]] for i, op in enumerate(w['history']) if op.get('fault')],
        'faults_fired': res.get('faults_fired'),
        'violation': res['violation'],
        'digest': res['digest'],
        'cost': len(w['history']) * 100 + sum(len(s['markup']) for s in w['specs']),
        'versions': env.versions(),
        'schedule_note': 'single caller; the history order *is* the schedule (which task advances at each step)',
    }


def _quiet_unraisable(unraisable):
    # an injected exception landing while the interpreter closes a library generator is reported through
    # sys.unraisablehook; it is expected under fault injection and carries no information
    pass


def run_chunk(task, agg):
    if task.get('kind') == 'minimise':
        rec = task['rec']
        sys.unraisablehook = _quiet_unraisable
        sv = env.load_soupsieve(cache_bound=rec.get('bound'))
        agg.extra.append(minimise_record(sv, rec, task.get('budget', 400)))
        return
    from sim import runner
    cfg = task['config']
    sys.unraisablehook = _quiet_unraisable
    sv = env.load_soupsieve(cache_bound=cfg['bound'])
    for i in task['indices']:
        runner.merge_isolated(agg, f"{cfg['name']}:{i}", _one_run, sv, task['verif_seed'], cfg, i, len(agg.samples))


def _one_run(sv, verif_seed, cfg, i, nsamples):
    """One seeded run, in a forked child (see runner.isolated); returns a small Agg."""

    from sim import runner
    agg = runner.Agg()
    seed = runner.derive_seed(verif_seed, PROP, cfg['name'], i)
    res = run_seeded(sv, seed, cfg['mode'], index=i)
    if res.get('discarded') == 'faultsweep-batch-beyond-end-of-operation':
        agg.count('probe:faultsweep_batches_beyond_end')
        agg.digests[f"{cfg['name']}:{i}"] = 'beyond-end'
        return agg
    if res.get('discarded'):
        agg.count('discarded:' + res['discarded'])
        agg.digests[f"{cfg['name']}:{i}"] = 'discarded'
        return agg
    agg.runs += 1
    agg.digests[f"{cfg['name']}:{i}"] = res['digest']
    agg.count('steps', res['nsteps'])
    agg.count('mode:' + cfg['mode'])
    agg.count('bound:%s' % cfg['bound'])
    for k, v in res['probes'].items():
        agg.count('probe:' + k, v)
        agg.count('runs_with:' + k)
    if res['nontrivial']:
        agg.add_to_set('sigs', res['sig'])
    if nsamples < 2 and res['nontrivial']:
        w = res['workload']
        agg.samples.append({
            'config': cfg['name'], 'index': i, 'run_seed': seed,
            'documents': [{'parser': s['parser'], 'markup_head': s['markup'][:160], 'len': len(s['markup'])}
                          for s in w['specs']],
            'slots': w['slots'], 'selectors': [k['pattern'] for k in w['keys']],
            'history_head': w['history'][:14], 'n_steps': len(w['history']), 'digest': res['digest'],
        })
    if res['violation']:
        agg.violations.append(make_record(res, cfg, i))
    return agg


def replay_record(rec):
    sys.unraisablehook = _quiet_unraisable
    sv = env.load_soupsieve(cache_bound=rec.get('bound'))
    return replay(sv, rec)


def _family(pattern):
    """Normalised culprit: which stateful pseudo-classes the selector uses."""
    import re
    names = sorted(set(m.lower() for m in re.findall(r':[a-zA-Z-]+', pattern or '')))
    keep = [n for n in names if n in (':lang', ':default', ':indeterminate', ':dir', ':root', ':defined', ':checked',
                                      ':in-range', ':out-of-range', ':has', ':not', ':is', ':where', ':nth-child',
                                      ':nth-of-type', ':nth-last-child', ':nth-last-of-type', ':link', ':any-link',
                                      ':disabled', ':enabled', ':read-write', ':read-only', ':placeholder-shown',
                                      ':required', ':optional', ':-soup-contains', ':-soup-contains-own', ':scope',
                                      ':empty')]
    return '+'.join(keep) or 'plain'


def signature(rec):
    v = rec['violation']
    o = v['oracle']
    entry = (v.get('call') or {}).get('op', '')
    if o == 'O3-mutation':
        return f"O3-mutation:{'content' if 'content' in v.get('detail', '') else 'identity'}"
    return f"{o}:{entry}:{_family(v.get('pattern'))}"


def describe(rec):
    v = rec['violation']
    w = rec['workload']
    lines = ['oracle ' + v['oracle'] + ': ' + _short_json({k: v[k] for k in v if k != 'oracle'})]
    for i, s in enumerate(w['specs']):
        lines.append(f"document spec {i} [{s['parser']}]: {s['markup'][:300]!r}" + (f" mut={s['mut']}" if s.get('mut') else ''))
    lines.append('slots: ' + json.dumps(w['slots']))
    for i, op in enumerate(w['history'][:40]):
        lines.append(f'  step {i}: ' + _op_str(w, op))
    if len(w['history']) > 40:
        lines.append(f"  ... {len(w['history']) - 40} more steps")
    return '\n'.join(lines)


def _short_json(v, n=600):
    s = json.dumps(v, default=str)
    return s if len(s) <= n else s[:n] + '...'


def _op_str(w, op):
    k = op.get('key')
    pat = w['keys'][k]['pattern'] if k is not None and k < len(w['keys']) else None
    if op['op'] == 'call':
        extra = ''
        if 'limit' in op:
            extra += f", limit={op['limit']}"
        if op.get('items') is not None:
            extra += f", items={op['items']}"
        if op.get('fault'):
            extra += f", FAULT {op['fault'][1]}@step{op['fault'][0]}"
        return f"{op['entry']}[{op.get('form')}]({pat!r}, slot{op['doc']}@{op.get('target')}{extra})"
    if op['op'] == 'gen_start':
        return f"g{op['g']} = iselect[{op.get('form')}]({pat!r}, slot{op['doc']}@{op.get('target')}, limit={op.get('limit')})"
    if op['op'] == 'gen_next':
        return f"next(g{op['g']}) x{op.get('n', 1)}" + (f" FAULT {op['fault'][1]}@step{op['fault'][0]}" if op.get('fault') else '')
    if op['op'] == 'edit':
        return f"user edits the tree in slot{op['doc']}: {json.dumps(op['edit'])}"
    if op['op'] == 'churn':
        return f"drop document in slot{op['doc']}; parse spec {op['spec']} into it"
    if op['op'] in ('gen_close', 'gen_drain', 'gen_abandon'):
        return f"{op['op']}(g{op['g']})"
    return op['op'] + '()'


def minimise_record(sv, rec, budget_n=400, wall_s=150.0):
    import time
    from sim import minimise as mz
    sig0 = signature(rec)
    t_end = time.time() + wall_s
    b = mz.Budget(budget_n)
    state = {'sv': sv}

    def fails(cand):
        if time.time() > t_end:
            b.left = 0
            return False
        from sim import runner
        try:
            res = runner.isolated(replay, state['sv'], cand)
        except Exception:  # noqa: BLE001 - an edited record may be ill-formed
            return False
        if res.get('discarded') or not res['violation']:
            return False
        new = make_record(res, cand.get('config'), cand.get('index'))
        new['run_seed'] = cand.get('run_seed')
        new['bound'] = rec.get('bound')
        if signature(new) != sig0:
            return False
        return new

    first = fails(rec)
    if not first:
        rec = dict(rec)
        rec['minimised'] = {'error': 'original record did not reproduce under replay'}
        return rec
    cur = first

    # 1. cut the history after the failing step, then ddmin over the steps before it
    step = cur['violation'].get('step')
    if isinstance(step, int) and step + 1 < len(cur['workload']['history']) and b.take():
        c = mz.clone(cur)
        c['workload']['history'] = c['workload']['history'][:step + 1]
        out = fails(c)
        if out:
            cur = out
    base = cur

    def test(hist):
        c = mz.clone(base)
        c['workload']['history'] = hist
        return bool(fails(c))

    hist = mz.ddmin_list(cur['workload']['history'], test, b)
    if len(hist) < len(cur['workload']['history']):
        c = mz.clone(cur)
        c['workload']['history'] = hist
        out = fails(c)
        if out:
            cur = out

    # 2. drop faults, slots, simplify calls
    def cands(r):
        w = r['workload']
        for i, op in enumerate(w['history']):
            if op.get('fault'):
                c = mz.clone(r)
                c['workload']['history'][i].pop('fault')
                yield c
        for i, op in enumerate(w['history']):
            if op.get('form') not in (None, 'module'):
                c = mz.clone(r)
                c['workload']['history'][i]['form'] = 'module'
                yield c
            if op.get('limit'):
                c = mz.clone(r)
                c['workload']['history'][i]['limit'] = 0
                yield c
        for k, key in enumerate(w['keys']):
            for field in ('ns', 'custom'):
                if key.get(field) is not None:
                    c = mz.clone(r)
                    c['workload']['keys'][k][field] = None
                    yield c
    cur = mz.greedy(cur, cands, fails, b)

    # 3. smaller documents: remove one element at a time (re-serialised with the same parser)
    cur = _shrink_docs(cur, fails, b)
    cur = _gc(cur, fails) or cur

    w0, w1 = rec['workload'], cur['workload']
    cur['minimised'] = {
        'reexecutions': b.used,
        'from': {'steps': len(w0['history']), 'specs': len(w0['specs']), 'markup_chars': sum(len(s['markup']) for s in w0['specs']),
                 'selectors': len(w0['keys'])},
        'to': {'steps': len(w1['history']), 'specs': len(w1['specs']), 'markup_chars': sum(len(s['markup']) for s in w1['specs']),
               'selectors': len(w1['keys'])},
    }
    cur['original_run'] = {'config': rec.get('config'), 'index': rec.get('index'), 'run_seed': rec.get('run_seed'),
                           'digest': rec.get('digest')}
    return cur


def _shrink_docs(cur, fails, b):
    import bs4
    from sim import minimise as mz
    progress = True
    while progress and b.left > 0:
        progress = False
        for si, spec in enumerate(cur['workload']['specs']):
            try:
                soup = gen.build_doc({'markup': spec['markup'], 'parser': spec['parser'], 'mut': []})
            except Exception:  # noqa: BLE001
                continue
            n = len([e for e in soup.descendants if isinstance(e, bs4.Tag)])
            for j in reversed(range(n)):
                if not b.take():
                    return cur
                soup = gen.build_doc({'markup': spec['markup'], 'parser': spec['parser'], 'mut': []})
                els = [e for e in soup.descendants if isinstance(e, bs4.Tag)]
                if j >= len(els):
                    continue
                els[j].extract()
                m2 = soup.decode()
                if len(m2) >= len(spec['markup']):
                    continue
                c = mz.clone(cur)
                c['workload']['specs'][si]['markup'] = m2
                out = fails(c)
                if out:
                    cur = out
                    progress = True
                    break
            if progress:
                break
    return cur


def _gc(rec, fails):
    from sim.minimise import clone
    c = clone(rec)
    w = c['workload']
    used = sorted({o['key'] for o in w['history'] if 'key' in o})
    km = {k: i for i, k in enumerate(used)}
    w['keys'] = [w['keys'][k] for k in used]
    for o in w['history']:
        if 'key' in o:
            o['key'] = km[o['key']]
    return fails(c)


ASSUMPTIONS = [
    'the reference answer is the library\'s own answer for the same call made alone on a freshly parsed copy of the same '
    'markup (same parser, elements correspond by document-order index) after purge(); CSS meaning is not assumed',
    'a call aborted by an injected exception has no answer to compare (that one call only); every later call and the '
    'tree right after the abort are held to the full oracle',
    'O2 is applied only to selectors without :scope/& and, for filter/closest/select_one/limit>0, only in the direction '
    '"returned => matches alone", so entry-point ranging rules (C03) cannot raise a C04 alarm',
    'natural exceptions of the matcher (C08\'s subject) count as answers: they must be the same with and without history',
    'fault points are the function-entry and function-return events of frames under <repo>/soupsieve/ (sys.settrace)',
    'after a user edit the reference is the same call on a freshly parsed copy to which the same edits were applied',
    'seeded sampling of histories, not exhaustive enumeration',
]


def evidence(agg, info, plan_, tier):
    c = agg.counters
    probes = {k[6:]: v for k, v in c.items() if k.startswith('probe:')}
    cov = {
        'evaluations': agg.runs,
        'distinct_nontrivial': len(agg.sets.get('sigs', ())),
        'rule': 'one evaluation = one history of 15-60 steps (plain calls on 6 entry points x 4 forms, suspended iselect '
                'generators resumed/closed/abandoned in between, document churn, user edits of the live tree, purge, '
                'injected exceptions) over 1-3 live documents, preceded by the reference pass (every distinct call alone) '
                'made twice: in this process and, in the reverse order, in a pristine forked child; non-trivial = the '
                'history resumed a generator after a peer query, or repeated an earlier call, or had a fault fire inside '
                'a call, or recycled a document id, or edited a tree; distinct = distinct hash of (sequence of step kinds, '
                'set of reach probes hit)',
        'samples': agg.samples[:3],
        'seeds': agg.runs,
        'history_steps': c.get('steps', 0),
        'simulated_time': 'none: nothing in the system reads a clock; logical time is the step index of the history',
        'faults_fired': {k[6:]: v for k, v in probes.items() if k.startswith('fault:')},
        'workload_modes': {k[5:]: v for k, v in c.items() if k.startswith('mode:')},
        'cache_bounds_used': {k[6:]: v for k, v in c.items() if k.startswith('bound:')},
        'probes': {k: v for k, v in probes.items() if not k.startswith('fault:')},
        'runs_reaching_probe': {k[10:]: v for k, v in c.items() if k.startswith('runs_with:')},
        'runs_discarded': {k[10:]: v for k, v in c.items() if k.startswith('discarded:')},
        'components_real': ['soupsieve (all modules, unmodified, from the working tree)',
                            'bs4 + html.parser / lxml / lxml-xml / html5lib', 'functools.lru_cache (C)'],
        'components_stubbed': ['task scheduling: which call / generator advances next is the seeded history'],
        'budget_s': plan_['budget_s'],
        'tasks_cancelled_by_deadline': info['tasks_cancelled'],
    }
    return {'coverage': cov, 'assumptions': ASSUMPTIONS}
