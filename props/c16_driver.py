"""Runs inside a fresh interpreter: one import program + one probe, result as JSON in a file.

usage: python [-O|-OO|-B] c16_driver.py <job.json> <result.json>

Nothing from /verif is imported here (the interpreter must be as close to a user's as possible);
only the standard library is touched before the program under test runs.
"""
import importlib.abc
import importlib.machinery
import json
import os
import sys
import tempfile
import warnings


def main():
    with open(sys.argv[1]) as f:
        job = json.load(f)
    out_path = sys.argv[2]
    res = {'ok': True, 'init_order': [], 'warnings': [], 'stdout': '', 'stderr': '', 'error': None, 'probe': None,
           'files': {}, 'blocked_hit': []}
    blocked = tuple(job.get('blocked', ()))
    log = res['init_order']

    class Blocker(importlib.abc.MetaPathFinder):
        def find_spec(self, name, path=None, target=None):
            top = name.split('.')[0]
            if top in blocked:
                if top not in res['blocked_hit']:
                    res['blocked_hit'].append(top)
                raise ModuleNotFoundError(f"No module named {name!r} (blocked by simulator)", name=name)
            return None

    class LogLoader(importlib.abc.Loader):
        def __init__(self, inner, name):
            self.inner = inner
            self.name = name

        def create_module(self, spec):
            return self.inner.create_module(spec)

        def exec_module(self, module):
            log.append('+' + self.name)
            try:
                self.inner.exec_module(module)
            except BaseException:
                log.append('!' + self.name)
                raise
            log.append('-' + self.name)

        def __getattr__(self, n):
            return getattr(self.inner, n)

    class Logger(importlib.abc.MetaPathFinder):
        def find_spec(self, name, path=None, target=None):
            top = name.split('.')[0]
            if top not in ('bs4', 'soupsieve'):
                return None
            spec = importlib.machinery.PathFinder.find_spec(name, path, target)
            if spec is None or spec.loader is None:
                return spec
            spec.loader = LogLoader(spec.loader, name)
            return spec

    sys.meta_path.insert(0, Logger())
    sys.meta_path.insert(0, Blocker())

    if job.get('no_dist_info'):
        # the package is used from a source tree / vendored copy: no installed distribution metadata for it
        import importlib.metadata as _md
        _orig_from_name = _md.Distribution.from_name.__func__

        def _from_name(cls, name):
            if str(name).lower().replace('_', '-') == 'soupsieve':
                res.setdefault('dist_info_lookups', 0)
                res['dist_info_lookups'] += 1
                raise _md.PackageNotFoundError(name)
            return _orig_from_name(cls, name)
        _md.Distribution.from_name = classmethod(_from_name)

    caught = []

    def showwarning(message, category, filename, lineno, file=None, line=None):
        caught.append({'category': category.__name__, 'message': str(message)[:300], 'filename': filename, 'lineno': lineno})

    warnings.simplefilter('always')
    warnings.showwarning = showwarning

    # capture fd 1 / fd 2 at the OS level
    sys.stdout.flush()
    sys.stderr.flush()
    tmp_out = tempfile.TemporaryFile(mode='w+b')
    tmp_err = tempfile.TemporaryFile(mode='w+b')
    save1, save2 = os.dup(1), os.dup(2)
    os.dup2(tmp_out.fileno(), 1)
    os.dup2(tmp_err.fileno(), 2)

    stdio = job.get('stdio')
    if stdio:
        # the process has no usable standard streams (pythonw / GUI / daemon), or ASCII-only ones
        import io
        for name in ('stdout', 'stderr'):
            if stdio == 'none':
                setattr(sys, name, None)
            elif stdio == 'closed':
                f = open(os.devnull, 'w')
                f.close()
                setattr(sys, name, f)
            elif stdio == 'ascii':
                setattr(sys, name, io.TextIOWrapper(io.BytesIO(), encoding='ascii', errors='strict'))
    for what in job.get('prestate') or ():
        # the embedding program has configured the interpreter before it gets round to importing anything: whatever it
        # set must still be there afterwards
        if what == 'gc_off':
            import gc
            gc.disable()
        elif what == 'gc_threshold':
            import gc
            gc.set_threshold(123, 7, 7)
        elif what == 'reclimit':
            sys.setrecursionlimit(1777)
        elif what == 'switchinterval':
            sys.setswitchinterval(0.0031)
        elif what == 'excepthook':
            sys.excepthook = lambda *a: None
        elif what == 'unraisablehook':
            sys.unraisablehook = lambda *a: None
        elif what == 'logging_disable':
            import logging
            logging.disable(logging.INFO)
        elif what == 'signal':
            import signal
            signal.signal(signal.SIGUSR1, lambda *a: None)
        elif what == 'dont_write_bytecode':
            sys.dont_write_bytecode = not sys.dont_write_bytecode
    ns = {'__name__': '__main__'}
    state_before = interpreter_state()
    # which environment variables does code of the package under test look at?  (recorded, never altered)
    env_reads = res['env_reads'] = []
    marker = os.sep + 'soupsieve' + os.sep
    env_cls = type(os.environ)
    orig_getitem = env_cls.__getitem__

    def spy_getitem(self, key):
        f = sys._getframe(1)
        depth = 0
        while f is not None and depth < 12:
            if marker in f.f_code.co_filename:
                if isinstance(key, str) and key not in env_reads:
                    env_reads.append(key)
                break
            f = f.f_back
            depth += 1
        return orig_getitem(self, key)
    env_cls.__getitem__ = spy_getitem
    try:
        for i, stmt in enumerate(job['program']):
            try:
                exec(compile(stmt, f'<program:{i}>', 'exec'), ns)
            except BaseException as e:  # noqa: BLE001
                res['ok'] = False
                res['error'] = {'stmt': i, 'text': stmt, 'type': type(e).__name__, 'message': str(e)[:400]}
                break
        res['warnings_at_import'] = len(caught)
        state_after = interpreter_state()
        res['state_changed'] = {k: [state_before[k], state_after[k]] for k in state_before
                                if state_before[k] != state_after[k]}
        fa = foreign_attributes()
        if fa:
            res['state_changed']['bs4 classes patched'] = [[], fa]
        if res['ok']:
            res['probe'] = run_probe(job['probe'], res)
    finally:
        env_cls.__getitem__ = orig_getitem
        if stdio:
            sys.stdout, sys.stderr = sys.__stdout__, sys.__stderr__
        try:
            sys.stdout.flush()
            sys.stderr.flush()
        except Exception:  # noqa: BLE001
            pass
        os.dup2(save1, 1)
        os.dup2(save2, 2)
        tmp_out.seek(0)
        tmp_err.seek(0)
        res['stdout'] = tmp_out.read().decode('utf8', 'replace')[:2000]
        res['stderr'] = tmp_err.read().decode('utf8', 'replace')[:2000]
    res['warnings'] = caught
    for name in ('soupsieve', 'bs4'):
        m = sys.modules.get(name)
        res['files'][name] = getattr(m, '__file__', None) if m is not None else None
    res['modules_loaded'] = sorted(k for k in sys.modules if k.split('.')[0] in ('bs4', 'soupsieve'))
    # "import soupsieve.x" must hand out the module: the package attribute and sys.modules have to agree
    bad = []
    pkg = sys.modules.get('soupsieve')
    if pkg is not None:
        import types
        for k in res['modules_loaded']:
            if k.startswith('soupsieve.') and k.count('.') == 1:
                name = k.split('.')[1]
                mod = sys.modules.get(k)
                attr = getattr(pkg, name, None)
                if not isinstance(mod, types.ModuleType) or attr is not mod:
                    bad.append([k, type(attr).__name__])
        missing = [n for n in getattr(pkg, '__all__', ()) if not hasattr(pkg, n)]
        if missing:
            bad.append(['__all__', 'missing: ' + ', '.join(missing)])
    res['submodule_binding_errors'] = bad
    with open(out_path, 'w') as f:
        json.dump(res, f)


def interpreter_state():
    """Process-wide interpreter state that defining a package has no business changing."""

    import gc
    import locale
    import logging
    import signal
    import threading
    st = {}
    st['warnings.filters'] = repr(warnings.filters)
    st['warnings.showwarning'] = getattr(warnings.showwarning, '__qualname__', repr(warnings.showwarning))
    st['sys.path'] = list(sys.path)
    st['recursionlimit'] = sys.getrecursionlimit()
    st['switchinterval'] = sys.getswitchinterval()
    st['cwd'] = os.getcwd()
    st['environ'] = sorted(os.environ.items())
    st['excepthook'] = (sys.excepthook is sys.__excepthook__, id(sys.excepthook))
    st['displayhook'] = (sys.displayhook is sys.__displayhook__, id(sys.displayhook))
    st['unraisablehook'] = (sys.unraisablehook is sys.__unraisablehook__, id(sys.unraisablehook))
    st['stdout'] = (sys.stdout is sys.__stdout__, id(sys.stdout))
    st['stderr'] = (sys.stderr is sys.__stderr__, id(sys.stderr))
    st['threads'] = threading.active_count()
    st['gc'] = (gc.isenabled(), gc.get_threshold())
    st['locale'] = locale.setlocale(locale.LC_ALL)
    st['logging.root'] = (logging.root.level, len(logging.root.handlers), logging.raiseExceptions)
    st['logging.disable'] = logging.root.manager.disable
    for name in ('SIGINT', 'SIGTERM', 'SIGALRM', 'SIGPIPE', 'SIGUSR1'):
        sig = getattr(signal, name, None)
        if sig is not None:
            h = signal.getsignal(sig)
            st['signal.' + name] = h if isinstance(h, int) else (getattr(h, '__qualname__', repr(h)), id(h))
    st['trace'] = (sys.gettrace() is None, sys.getprofile() is None)
    # sys.meta_path / sys.path_hooks are deliberately not watched: third-party dependencies of bs4 (six, used by
    # html5lib) install an importer there, which is not soupsieve's doing
    st['dont_write_bytecode'] = sys.dont_write_bytecode
    import builtins
    import copyreg
    import re as _re
    st['builtins'] = len(dir(builtins))
    st['re._MAXCACHE'] = getattr(_re, '_MAXCACHE', None)
    st['copyreg.foreign'] = sorted(
        f'{c.__module__}.{c.__qualname__}' for c in copyreg.dispatch_table
        if not c.__module__.startswith(('soupsieve', 're', 'copyreg', 'builtins')) and c.__module__ != 'collections'
        and c.__name__ not in ('complex', 'Pattern', 'UnionType')
    )
    try:
        import atexit
        st['atexit'] = atexit._ncallbacks()
    except Exception:  # noqa: BLE001
        pass
    st['module_aliases'] = sorted(k for k, m in sys.modules.items()
                                  if getattr(m, '__name__', k).startswith('soupsieve') and getattr(m, '__name__', k) != k)
    return st


def foreign_attributes():
    """Attributes of Beautiful Soup classes that were not defined by Beautiful Soup (monkeypatches)."""

    import inspect
    out = []
    b = sys.modules.get('bs4')
    if b is None:
        return out
    root = os.path.dirname(os.path.abspath(b.__file__)) + os.sep
    classes = []
    for modname in ('bs4', 'bs4.element', 'bs4.css'):
        m = sys.modules.get(modname)
        if m is None:
            continue
        for name in ('Tag', 'BeautifulSoup', 'NavigableString', 'PageElement', 'CSS', 'ResultSet', 'Comment'):
            c = getattr(m, name, None)
            if isinstance(c, type) and c not in classes:
                classes.append(c)
    for c in classes:
        for name, val in vars(c).items():
            fn = val
            if isinstance(val, (staticmethod, classmethod)):
                fn = val.__func__
            elif isinstance(val, property):
                fn = val.fget
            code = getattr(fn, '__code__', None)
            if code is not None and not os.path.abspath(code.co_filename).startswith(root) \
                    and 'soupsieve' in os.path.abspath(code.co_filename):
                out.append(f'{c.__name__}.{name}')
    return sorted(out)


def run_probe(probe, res):
    out = {}

    def idx_of(soup):
        import bs4
        els = [e for e in soup.descendants if isinstance(e, bs4.Tag)]
        return els, {id(e): i for i, e in enumerate(els)}

    def guard(name, fn):
        try:
            out[name] = fn()
        except BaseException as e:  # noqa: BLE001
            out[name] = {'exc': type(e).__name__, 'message': str(e)[:300]}

    try:
        from bs4 import BeautifulSoup
        import soupsieve
    except BaseException as e:  # noqa: BLE001
        return {'fatal': {'exc': type(e).__name__, 'message': str(e)[:300]}}
    try:
        soup = BeautifulSoup(probe['markup'], probe['parser'])
    except BaseException as e:  # noqa: BLE001
        return {'fatal': {'exc': type(e).__name__, 'message': str(e)[:300]}}
    els, idx = idx_of(soup)
    sel = probe['selector']
    ns = probe.get('namespaces')
    t = els[probe.get('target', 0) % len(els)] if els else soup

    def ids(r):
        return [idx.get(id(e), -2) for e in r]

    guard('bs4.select', lambda: ids(soup.select(sel, namespaces=ns) if ns else soup.select(sel)))
    guard('bs4.select_one', lambda: (lambda r: None if r is None else idx.get(id(r), -2))(soup.select_one(sel)))
    guard('bs4.css.iselect', lambda: ids(list(soup.css.iselect(sel))))
    guard('bs4.css.match', lambda: bool(t.css.match(sel)))
    guard('bs4.css.closest', lambda: (lambda r: None if r is None else idx.get(id(r), -2))(t.css.closest(sel)))
    guard('bs4.css.filter', lambda: ids(soup.css.filter(sel)))
    guard('sv.select', lambda: ids(soupsieve.select(sel, soup, ns)))
    guard('sv.select_one', lambda: (lambda r: None if r is None else idx.get(id(r), -2))(soupsieve.select_one(sel, soup)))
    guard('sv.match', lambda: bool(soupsieve.match(sel, t)))
    guard('sv.closest', lambda: (lambda r: None if r is None else idx.get(id(r), -2))(soupsieve.closest(sel, t)))
    guard('sv.filter', lambda: ids(soupsieve.filter(sel, soup)))
    guard('sv.compiled.select', lambda: ids(soupsieve.compile(sel, ns).select(soup)))
    # more call shapes across the bridge: limit (positional and keyword), a pre-compiled selector handed to
    # Beautiful Soup, escape, and the parser-recorded prefix map that bs4 passes when namespaces= is omitted
    guard('bs4.select.limit1', lambda: ids(soup.select(sel, ns, 1)))
    guard('bs4.select.limit_kw', lambda: ids(soup.select(sel, limit=1) if not ns else soup.select(sel, namespaces=ns, limit=1)))
    guard('sv.select.limit1', lambda: ids(soupsieve.select(sel, soup, ns, 1)))
    guard('bs4.select.compiled', lambda: ids(soup.select(soupsieve.compile(sel, ns))))
    guard('bs4.css.iselect.limit2', lambda: ids(list(soup.css.iselect(sel, ns, 2))))
    guard('sv.iselect.limit2', lambda: ids(list(soupsieve.iselect(sel, soup, ns, 2))))
    guard('bs4.css.escape', lambda: soup.css.escape('a b#1.c'))
    guard('sv.escape', lambda: soupsieve.escape('a b#1.c'))
    if not ns:
        recorded = dict(getattr(soup, '_namespaces', None) or {})
        guard('bs4.select.default_ns', lambda: ids(soup.select(sel)))
        guard('sv.select.recorded_ns', lambda: ids(soupsieve.select(sel, soup, recorded or None)))
    out['n_elements'] = len(els)
    return out


if __name__ == '__main__':
    main()
