"""C15 - compiled selectors are immutable values; the pattern cache is transparent.

One run = a history of operations against the process-wide pattern cache and the objects it
hands out, executed by one caller (sequential modes) or by 2-3 simulated threads under the
deterministic scheduler (concurrent mode), with a small cache bound in most batches, and with
faults injected *inside* compile: an exception arriving at an arbitrary step, stack exhaustion,
a failing stdout under flags=DEBUG, a peer's purge() at an arbitrary switch point.

Every operation returns an *outcome* whose expected value is known from a reference table
F[key] (fingerprint of a fresh parse, taken right after a purge) and from the key's equality
class; nothing about CSS meaning is assumed.  Oracle clauses:

  1-transparent  compile(key) == F[key] (or raises what the fresh parse raises), whatever preceded
  2-bound        cache_info().maxsize is a number, currsize <= maxsize always, 0 right after purge()
  3-eqhash       a == b  <=>  keys equal;  a == b  =>  hash(a) == hash(b);  (a != b) == not (a == b)
  4-copy         pickle / copy / deepcopy give an equal, hash-equal, fingerprint-equal object selecting the same
  5-immutable    a mutation attempt raises or leaves the object (and what the cache returns) unchanged
  6-passthrough  compile(obj) is obj; extra arguments -> ValueError
"""
from __future__ import annotations

import collections
import threading
import copy
import json  # noqa: F401
import os
import pickle
import random
import sys

from sim import env, fingerprint as fp, gen, sched

PROP = 'C15'

FIXED_DOC = {
    'markup': (
        '<html lang="en"><head><meta http-equiv="content-language" content="de"></head><body>'
        '<div id="d0" class="a b"><p id="d1" lang="de">hello</p><p class="a">world<span>foo bar</span></p>'
        '<a href="#x">a</a></div><form><input type="radio" name="r1"><input type="radio" name="r1" checked>'
        '<input type="submit"><button type="submit">b</button><input type="number" min="0" max="5" value="7">'
        '</form><ul><li>1</li><li class="c">2</li><li>3</li></ul><x-foo dir="rtl">שלום</x-foo></body></html>'
    ),
    'parser': 'html.parser', 'mut': [],
}


# ---------------------------------------------------------------------------
# key pool
# ---------------------------------------------------------------------------

def key_class(key):
    """Equality class of a compile key (Python equality of the four arguments)."""

    ns = key.get('ns')
    cu = key.get('custom')
    return (
        key['pattern'],
        None if ns is None else frozenset(ns.items()),
        None if cu is None else frozenset(cu.items()),
        _flags_value(key),
    )


def _flags_value(key):
    f = key.get('flags', 0)
    return bool(f) if key.get('flags_form') == 'bool' else f


def key_call_args(key):
    """Build the actual arguments (fresh objects) for soupsieve.compile from a key spec."""

    kw = {}
    ns = key.get('ns')
    if ns is not None:
        items = list(ns.items())
        form = key.get('ns_form', 'dict')
        if form == 'reversed':
            kw['namespaces'] = dict(reversed(items))
        elif form == 'ordered':
            kw['namespaces'] = collections.OrderedDict(reversed(items))
        else:
            kw['namespaces'] = dict(items)
    cu = key.get('custom')
    if cu is not None:
        items = list(cu.items())
        kw['custom'] = dict(reversed(items)) if key.get('custom_form') == 'reversed' else dict(items)
    f = _flags_value(key)
    if f or key.get('flags_form') == 'bool' or key.get('flags_explicit'):
        kw['flags'] = f
    return kw


def gen_keys(rng, n, debug_bias=0.15):
    keys = []
    if rng.random() < 0.35:
        v = rng.choice(['radio', 'submit', '"test"', "'x-y'", 'text'])
        op = rng.choice(['=', '^=', '*=', '~=', '|=', '$='])
        a = rng.choice(['type', 'type', 'TYPE', 'id', 'class'])
        wrap = rng.choice(['%s', '%s', ':not(%s)', 'input%s', ':is(a, p)%s'])
        for flag in rng.sample(['', ' i', ' s'], 2):
            keys.append({'pattern': wrap % f'[{a}{op}{v}{flag}]', 'ns': None, 'custom': None, 'flags': 0})
    if rng.random() < 0.12:
        # patterns that the parser's input preprocessing folds together (U+0000 is read as U+FFFD): different pattern
        # strings, hence different keys and unequal compiled selectors, each reporting the pattern it was given
        pat = rng.choice(_PREPROCESS_TWINS)
        keys.append({'pattern': pat, 'ns': None, 'custom': None, 'flags': 0})
        keys.append({'pattern': pat.replace('\x00', '\ufffd'), 'ns': None, 'custom': None, 'flags': 0,
                     'variant_of': len(keys) - 1})
    while len(keys) < n:
        r = rng.random()
        if keys and r < 0.35:
            bi = rng.randrange(len(keys))
            base = dict(keys[bi])
            base['variant_of'] = bi
            v = rng.random() * 1.15
            if v < 0.2 and base.get('ns'):
                base['ns_form'] = rng.choice(['reversed', 'ordered'])
            elif (v < 0.3 or (v < 0.6 and len(base.get('custom') or ()) > 1)) and base.get('custom'):
                base['custom_form'] = 'reversed' if base.get('custom_form') != 'reversed' else 'dict'
            elif v < 0.45:
                base['flags_form'] = 'bool' if base.get('flags_form') != 'bool' else 'int'
            elif v < 0.55:
                base['flags'] = (0 if base.get('flags') else 1) if rng.random() < 0.7 else rng.choice([2, 3, -1, -2])
                base['flags_form'] = 'int'
            elif v < 0.65:
                base['ns'] = {} if base.get('ns') is None else None
            elif v < 0.75:
                base['custom'] = {} if base.get('custom') is None else None
            elif v < 0.8:
                base['ns'] = rng.choice([m for m in gen.NAMESPACE_MAPS if m])
            elif v < 0.85:
                vc = gen.variant_custom(rng, base.get('custom'))
                if vc is None:
                    continue
                base['custom'] = vc
            elif v < 0.9:
                base['pattern'] = ' ' + base['pattern']
            elif v < 0.97:
                nm = near_miss(rng, base['pattern'])
                if nm is None:
                    continue
                base['pattern'] = nm
            else:
                base['flags_explicit'] = True
            keys.append(base)
        else:
            k = gen.gen_key(rng, selgen_kw={'invalid': 0.12, 'special_bias': 0.2}, ns_bias=0.4, custom_bias=0.4,
                            debug_bias=debug_bias)
            keys.append(k)
    return keys


_PREPROCESS_TWINS = ['p.a\x00b', '#i\x00d', '[title="a\x00"]', ':-soup-contains("x\x00y")', 'a\x00 > b', 'div:is(.c\x00, p)',
                     '[data-x\x00]', 'p:lang("e\x00")']

_NEAR = [('2n+1', '2n+2'), ('odd', 'even'), ('(2)', '(3)'), ('n+2', 'n+3'), ('-n+3', '-n+2'), ('(en', '(de'),
         ('"en-US"', '"en-GB"'), ('ltr', 'rtl'), ('[id', '[class'), ('^=', '$='), ('*=', '~='), ('|=', '='),
         (':not(', ':is('), (':is(', ':where('), (' > ', ' + '), (' ~ ', ' + '), (' i]', ' s]'), ('hello', 'world'),
         (':nth-child', ':nth-last-child'), (':nth-of-type', ':nth-last-of-type'), (':first-child', ':last-child'),
         (':-soup-contains-own', ':-soup-contains'), ('of ', 'of *'), ('#d1', '#d2'), ('.a', '.b'), ('p', 'q'),
         (' i]', ']'), (' s]', ']'), (' I]', ']'), ('"]', '" i]'), ("']", "' s]"), ('=radio]', '=radio i]'),
         ('=submit]', '=submit s]'), ('=text]', '=text i]'), ('[type', '[TYPE'), ('[type', '[id'), ('|', '')]


def _first(t):
    for x in t:
        return x
    return 'zz'


# in-place operations a container may offer; tried only when the object actually has the method
_MUTATORS = [
    ('__ior__', lambda t: t.__ior__({'zz': 'urn:x-mutated'} if hasattr(t, 'keys') else {'zz'})),
    ('update', lambda t: t.update({'zz': 'urn:x-mutated'} if hasattr(t, 'keys') else {'zz'})),
    ('clear', lambda t: t.clear()),
    ('pop', lambda t: t.pop(_first(t)) if hasattr(t, 'keys') else t.pop()),
    ('popitem', lambda t: t.popitem()),
    ('setdefault', lambda t: t.setdefault('zz', 'urn:x-mutated')),
    ('__setitem__', lambda t: t.__setitem__(_first(t) if hasattr(t, 'keys') else 0, 'urn:x-mutated')),
    ('__delitem__', lambda t: t.__delitem__(_first(t) if hasattr(t, 'keys') else 0)),
    ('append', lambda t: t.append('mutated')),
    ('extend', lambda t: t.extend(['mutated'])),
    ('insert', lambda t: t.insert(0, 'mutated')),
    ('remove', lambda t: t.remove(_first(t))),
    ('reverse', lambda t: t.reverse()),
    ('sort', lambda t: t.sort(key=repr)),
    ('__iadd__', lambda t: t.__iadd__(['mutated'])),
    ('__imul__', lambda t: t.__imul__(2)),
    ('add', lambda t: t.add('mutated')),
    ('discard', lambda t: t.discard(_first(t))),
    ('__iand__', lambda t: t.__iand__(set())),
    ('__isub__', lambda t: t.__isub__(set(t))),
    ('__ixor__', lambda t: t.__ixor__({'mutated'})),
]


def near_miss(rng, pattern):
    """A pattern that differs from ``pattern`` in one token (one number, one name, one operator)."""

    if rng.random() < 0.35:
        # one number changed by one (nth coefficients and offsets; -1 / -2 are the classic hash twins)
        import re
        ms = [m for m in re.finditer(r'(?<![\w"\'#.\[=\\])(-?\d+|-)(?=n)|(?<=n)\s*([+-])\s*(\d+)|\((\d+)(?=[\s)])', pattern)]
        if ms:
            m = ms[rng.randrange(len(ms))]
            d = rng.choice([1, -1])
            if m.group(1) is not None:
                v = -1 if m.group(1) == '-' else int(m.group(1))
                return pattern[:m.start(1)] + str(v + (d if v + d != 0 else 2 * d)) + pattern[m.end(1):]
            if m.group(3) is not None:
                v = int(m.group(2) + m.group(3)) + d
                return pattern[:m.start()] + ('%+d' % v) + pattern[m.end():]
            v = max(0, int(m.group(4)) + d)
            return pattern[:m.start(4)] + str(v) + pattern[m.end(4):]
    cands = [(a, b) for a, b in _NEAR if a in pattern] + [(b, a) for a, b in _NEAR if b in pattern]
    if not cands:
        return None
    a, b = cands[rng.randrange(len(cands))]
    i = pattern.find(a)
    return pattern[:i] + b + pattern[i + len(a):]


def nested_pattern(depth):
    return ':is(' * depth + 'p' + ')' * depth


# ---------------------------------------------------------------------------
# failing stdout (fault 'stdout-fail')
# ---------------------------------------------------------------------------

class SimStdout:
    """sys.stdout for the duration of a run.  Swallows output; fails where the fault table says."""

    def __init__(self):
        self.table = {}     # (tid, op_index) -> [j, errno]
        self.counts = {}
        self.fired = []
        self.where = lambda: (0, -1)
        self.writes = 0
        self.counts_by_op = {}

    def write(self, s):
        self.writes += 1
        k = self.where()
        self.counts_by_op[k] = self.counts_by_op.get(k, 0) + 1
        f = self.table.get(k)
        if f is not None:
            c = self.counts.get(k, 0) + 1
            self.counts[k] = c
            if c == f[0]:
                self.fired.append((k[0], k[1], f[0]))
                raise OSError(f[1], 'injected by simulator: stdout write failed')
        return len(s)

    def flush(self):
        pass

    def isatty(self):
        return False


# ---------------------------------------------------------------------------
# the machine
# ---------------------------------------------------------------------------

class Machine:
    """Executes C15 operations and evaluates their outcomes against the model."""

    def __init__(self, sv, keys, bound):
        self.sv = sv
        self.keys = keys
        self.bound = bound
        self.ct = sys.modules['soupsieve.css_types']
        self.objs = []          # [key_index, obj, fp, hash]
        self.F = []
        self.violations = []
        self.probes = collections.Counter()
        self.shared_maps = {}
        self.doc = gen.build_doc(FIXED_DOC)
        from sim import fingerprint
        self.doc_els, self.doc_idx = fingerprint.index_doc(self.doc)
        self.cache = env.cache_handle(sv)
        self.stdout = SimStdout()
        self.where = [0, -1]
        self.stdout.where = lambda: (self.where[0], self.where[1])
        self.log = []

    # -- reference table ---------------------------------------------------
    def build_reference(self):
        sv = self.sv
        wrapped = getattr(self.cache, '__wrapped__', None) if self.cache is not None else None
        for key in self.keys:
            sv.purge()
            try:
                o = sv.compile(key['pattern'], **key_call_args(key))
                f = ('ok', fp.h(fp.fp_value(o), 12))
            except RecursionError:
                raise
            except Exception as e:  # noqa: BLE001
                f = fp.fp_exc(e)
            self.F.append(f)
        sv.purge()
        self.probes['wrapped_available'] += 1 if wrapped is not None else 0

    # -- invariants -----------------------------------------------------------
    def violate(self, clause, **detail):
        if len(self.violations) < 3:
            detail['clause'] = clause
            self.violations.append(detail)

    def check_bound(self, after_purge=False, where=None):
        c = self.cache
        if c is None:
            self.probes['cache_not_introspectable'] += 1
            return
        try:
            ci = c.cache_info()
        except sched.SimDeadlock:
            self.violate('2-bound', detail='cache_info() would block forever: a lock taken by an earlier call was never '
                                           'released', at=where)
            return
        if not isinstance(ci.maxsize, int) or isinstance(ci.maxsize, bool):
            self.violate('2-bound', detail=f'maxsize={ci.maxsize!r} is not a number', at=where)
            return
        if ci.currsize > ci.maxsize:
            self.violate('2-bound', detail=f'currsize={ci.currsize} > maxsize={ci.maxsize}', at=where)
        if after_purge and ci.currsize != 0:
            self.violate('2-bound', detail=f'currsize={ci.currsize} right after purge()', at=where)
        if ci.currsize == ci.maxsize:
            self.probes['cache_full'] += 1

    def check_objects(self, where=None, sample=None):
        """Every object produced so far still has its original fingerprint and hash."""

        objs = self.objs if sample is None else sample
        for rec in objs:
            k, o, f0, h0 = rec
            try:
                f1 = fp.h(fp.fp_value(o), 12)
                h1 = hash(o)
            except Exception as e:  # noqa: BLE001
                self.violate('5-immutable', detail=f'object of key {k} became unusable: {type(e).__name__}: {fp.short(e)}',
                             key=k, at=where)
                continue
            if f1 != f0 or h1 != h0:
                self.violate('5-immutable', detail=f'object of key {k} changed (fingerprint or hash)', key=k, at=where)

    # -- operations -------------------------------------------------------------
    def _compile(self, k, scribble=None, shared=False):
        key = self.keys[k]
        kw = key_call_args(key)
        if shared:
            # the caller keeps ONE namespaces dict and ONE custom dict (module-level maps it updates as it goes) and
            # passes the same objects on every call: same identity, whatever content this key asks for
            with sched.untraced():
                for name in ('namespaces', 'custom'):
                    if type(kw.get(name)) is dict:
                        d = self.shared_maps.setdefault((name, threading.get_ident()), {})   # one caller = one thread
                        d.clear()
                        d.update(kw[name])
                        kw[name] = d
                        self.probes['caller_passed_the_same_map_object_again'] += 1
        o = self.sv.compile(key['pattern'], **kw)
        if scribble is not None:
            # the caller goes on using (and changing) the maps it passed in: a compiled selector is a value and must
            # not notice
            with sched.untraced():
                before = fp.h(fp.fp_value(o), 12)
                done = 0
                for name in ('namespaces', 'custom'):
                    m = kw.get(name)
                    if m is None:
                        continue
                    names = list(m)
                    if scribble % 3 == 0 and names:
                        m[names[scribble % len(names)]] = 'urn:x-scribbled' if name == 'namespaces' else 'b.scribbled'
                    elif scribble % 3 == 1 and names:
                        del m[names[scribble % len(names)]]
                    else:
                        m['zz' if name == 'namespaces' else ':--zz'] = 'urn:x-added' if name == 'namespaces' else 'i'
                    done += 1
                if done:
                    self.probes['caller_changed_its_maps_after_compile'] += 1
                    after = fp.h(fp.fp_value(o), 12)
                    if after != before:
                        self.violate('5-immutable', key=k, pattern=key['pattern'],
                                     detail='the compiled selector changed when the caller changed the map it had passed '
                                            'to compile()', scribble=scribble)
        return o

    def op_compile(self, op, faulted=False):
        k = op['key']
        ci0 = self.cache.cache_info() if self.cache is not None else None
        lim = op.get('recursion_limit')
        old_limit = None
        if lim is not None:
            # fault 'recursion': only the library call runs under the lowered limit
            old_limit = sys.getrecursionlimit()
            self.probes['recursion_limit_lowered'] += 1
            faulted = True
        try:
            if old_limit is not None:
                sys.setrecursionlimit(_depth() + lim)
            try:
                with sched.traced():
                    o = self._compile(k, op.get('scribble'), bool(op.get('shared')))
            finally:
                if old_limit is not None:
                    sys.setrecursionlimit(old_limit)
        except sched.SimAbort:
            raise
        except BaseException as e:  # noqa: BLE001
            out = fp.fp_exc(e)
            o = None
        else:
            try:
                out = ('ok', fp.h(fp.fp_value(o), 12))
                hv = hash(o)
            except Exception as e:  # noqa: BLE001 - the library handed out an object that cannot be used
                out = ('broken-object', type(e).__name__, fp.short(e))
                o = None
        if ci0 is not None:
            ci1 = self.cache.cache_info()
            if ci1.hits > ci0.hits:
                self.probes['cache_hit'] += 1
            if ci1.misses > ci0.misses:
                self.probes['cache_miss'] += 1
                if ci0.currsize == ci0.maxsize and o is not None:
                    self.probes['eviction'] += 1
        exp = self.F[k]
        if out != exp:
            if faulted and out[0] == 'exc':
                self.probes['compile_aborted_by_fault'] += 1
            else:
                self.violate('1-transparent', key=k, pattern=self.keys[k]['pattern'], expected=list(exp),
                             observed=list(out), faulted=faulted)
        if o is not None:
            self.objs.append([k, o, out[1], hv])
        return out

    def op_purge(self, op, sequential=True):
        with sched.traced():
            self.sv.purge()
        if sequential:
            self.check_bound(after_purge=True, where='purge')
        return ('purged',)

    def _pick(self, op):
        if not self.objs:
            return None
        return self.objs[op.get('obj', 0) % len(self.objs)]

    def op_recompile(self, op):
        rec = self._pick(op)
        if rec is None:
            return ('noobj',)
        k, o = rec[0], rec[1]
        extra = op.get('extra')
        kw = {}
        if extra == 'flags':
            kw['flags'] = 1
        elif extra == 'namespaces':
            kw['namespaces'] = {'x': gen.NS_X}
        elif extra == 'namespaces-empty':
            kw['namespaces'] = {}
        elif extra == 'custom':
            kw['custom'] = {':--x': 'p'}
        elif extra == 'custom-empty':
            kw['custom'] = {}
        elif extra == 'same':
            # extra arguments that merely repeat what the object was compiled with are still extra arguments
            key = self.keys[k]
            if key.get('ns') is not None:
                kw['namespaces'] = dict(key['ns'])
            elif key.get('custom') is not None:
                kw['custom'] = dict(key['custom'])
            elif key.get('flags'):
                kw['flags'] = key['flags']
            else:
                extra = None
        try:
            with sched.traced():
                r = self.sv.compile(o, **kw)
        except ValueError:
            out = ('ValueError',)
        except Exception as e:  # noqa: BLE001
            out = ('exc', type(e).__name__)
        else:
            out = ('same',) if r is o else ('different-object',)
        exp = ('ValueError',) if extra else ('same',)
        if out != exp:
            self.violate('6-passthrough', key=k, extra=extra, expected=list(exp), observed=list(out))
        return out

    def _select_idx(self, o):
        try:
            with sched.traced():
                r = o.select(self.doc)
            return ('els', tuple(self.doc_idx.get(id(e), 'foreign') for e in r))
        except Exception as e:  # noqa: BLE001
            return fp.fp_exc(e)

    def op_clone(self, op):
        rec = self._pick(op)
        if rec is None:
            return ('noobj',)
        k, o = rec[0], rec[1]
        how = op['how']
        try:
            with sched.traced():
                if how == 'copy':
                    c = copy.copy(o)
                elif how == 'deepcopy':
                    c = copy.deepcopy(o)
                else:
                    c = pickle.loads(pickle.dumps(o, protocol=op.get('proto', pickle.HIGHEST_PROTOCOL)))
        except Exception as e:  # noqa: BLE001
            out = fp.fp_exc(e)
            self.violate('4-copy', key=k, how=how, proto=op.get('proto'), observed=list(out),
                         pattern=self.keys[k]['pattern'])
            return out
        try:
            with sched.traced():
                e1, e2, e3 = c == o, not (c != o), hash(c) == hash(o)
        except Exception as e:  # noqa: BLE001
            out = fp.fp_exc(e)
            self.violate('4-copy', key=k, how=how, proto=op.get('proto'), observed=list(out),
                         pattern=self.keys[k]['pattern'], detail='comparing the clone with the original raised')
            return out
        checks = (
            e1, e2, e3, fp.h(fp.fp_value(c), 12) == rec[2],
            type(c) is type(o), self._select_idx(c) == self._select_idx(o),
        )
        out = ('clone',) + checks
        if not all(checks):
            self.violate('4-copy', key=k, how=how, proto=op.get('proto'), pattern=self.keys[k]['pattern'],
                         checks=dict(zip(('eq', 'not-ne', 'hash', 'fingerprint', 'type', 'select'), checks)))
        # a clone is a value compiled from the same key
        if all(checks):
            self.objs.append([k, c, rec[2], hash(c)])
        return out

    def _nodes(self, o):
        """All Immutable / ImmutableDict nodes reachable from a compiled object, in a fixed order."""

        ct = self.ct
        out = []
        stack = [o]
        seen = set()
        while stack and len(out) < 400:
            v = stack.pop()
            if id(v) in seen:
                continue
            seen.add(id(v))
            if isinstance(v, ct.Immutable):
                out.append(v)
                for s in reversed(fp._slots(v) or []):
                    if s == '_hash':
                        continue
                    try:
                        stack.append(getattr(v, s))
                    except AttributeError:
                        pass
            elif isinstance(v, ct.ImmutableDict):
                out.append(v)
            elif isinstance(v, (tuple, list)):
                stack.extend(reversed(v))
        return out

    def _slot_for(self, node, op):
        slots = fp._slots(node) or []
        return slots[op.get('slot', 0) % len(slots)] if slots else '_hash'

    def _call_target(self, node, op):
        """The container a 'call' mutation goes for: a map node itself, or the value of one slot of a selector node."""
        if isinstance(node, self.ct.ImmutableDict):
            return node
        try:
            return getattr(node, self._slot_for(node, op))
        except AttributeError:
            return node

    def _describe_mutation(self, node, op):
        action = op['action']
        if action == 'call':
            t = self._call_target(node, op)
            names = [n for n, _ in _MUTATORS if hasattr(t, n)]
            if not names:
                return f'no in-place method on {type(t).__name__}'
            return f'{names[op.get("m", 0) % len(names)]} on {type(t).__name__}' + (
                '' if t is node else f' in {type(node).__name__}.{self._slot_for(node, op)}')
        if isinstance(node, self.ct.ImmutableDict):
            return ('setitem ' if action in ('set', 'setnew') else 'delitem ') + type(node).__name__
        if action == 'setnew':
            return f'setattr {type(node).__name__}.brand_new'
        return f'{action}attr {type(node).__name__}.{self._slot_for(node, op)}'

    def _attempt_mutation(self, node, op):
        action = op['action']
        if action == 'call':
            # ordinary in-place operations of whatever container type the part happens to be (|=, +=, update, append, ...)
            t = self._call_target(node, op)
            cands = [(n, f) for n, f in _MUTATORS if hasattr(t, n)]
            if not cands:
                raise TypeError('no in-place method')
            cands[op.get('m', 0) % len(cands)][1](t)
            return
        if isinstance(node, self.ct.ImmutableDict):
            keys = list(node)
            if action in ('set', 'setnew'):
                node['x' if action == 'setnew' or not keys else keys[0]] = 'mutated'
            else:
                del node[keys[0] if keys else 'x']
        elif action == 'set':
            setattr(node, self._slot_for(node, op), op.get('value', 'mutated'))
        elif action == 'setnew':
            setattr(node, 'brand_new', 1)
        else:
            delattr(node, self._slot_for(node, op))

    def op_mutate(self, op):
        rec = self._pick(op)
        if rec is None:
            return ('noobj',)
        k, o = rec[0], rec[1]
        nodes = self._nodes(o)
        node = nodes[op.get('node', 0) % len(nodes)]
        action = op['action']
        what = self._describe_mutation(node, op)
        try:
            with sched.traced():
                self._attempt_mutation(node, op)
        except sched.SimAbort:
            raise
        except Exception as e:  # noqa: BLE001
            out = ('raised', type(e).__name__)
        else:
            out = ('silent', what)
            self.probes['mutation_not_rejected'] += 1
        # whatever happened, the object and what the cache hands out must be unchanged
        before = len(self.violations)
        self.check_objects(where=what, sample=[rec])
        if len(self.violations) > before:
            self.violations[-1]['mutation'] = what
            self.violations[-1]['outcome'] = list(out)
            self.violations[-1]['pattern'] = self.keys[k]['pattern']
        else:
            try:
                again = self._compile(k)
                f = ('ok', fp.h(fp.fp_value(again), 12))
            except Exception as e:  # noqa: BLE001
                f = fp.fp_exc(e)
            if f != self.F[k]:
                if out[0] == 'raised':
                    # the attempt was rejected and the object is intact: what differs is what the cache hands out
                    self.violate('1-transparent', key=k, pattern=self.keys[k]['pattern'], expected=list(self.F[k]),
                                 observed=list(f), at='re-compile after a rejected mutation attempt (cache not purged)')
                else:
                    self.violate('5-immutable', key=k, pattern=self.keys[k]['pattern'], mutation=what, outcome=list(out),
                                 detail='after the mutation attempt compile() of the same key no longer equals a fresh parse',
                                 expected=list(self.F[k]), observed=list(f))
        return out

    def op_select(self, op):
        rec = self._pick(op)
        if rec is None:
            return ('noobj',)
        return self._select_idx(rec[1])

    def op_eq(self, op):
        if len(self.objs) < 2:
            return ('noobj',)
        a = self.objs[op.get('a', 0) % len(self.objs)]
        b = self.objs[op.get('b', 1) % len(self.objs)]
        return self._eq_pair(a, b)

    def _eq_pair(self, a, b):
        same = key_class(self.keys[a[0]]) == key_class(self.keys[b[0]])
        try:
            with sched.traced():
                eq = a[1] == b[1]
                ne = a[1] != b[1]
                hq = hash(a[1]) == hash(b[1])
        except Exception as e:  # noqa: BLE001
            self.violate('3-eqhash', detail=f'comparison raised {type(e).__name__}: {fp.short(e)}', keys=[a[0], b[0]])
            return ('exc',)
        bad = None
        if bool(eq) != same:
            bad = 'a == b is %s but keys are %s' % (eq, 'equal' if same else 'different')
        elif bool(ne) == bool(eq):
            bad = '(a != b) is not the negation of (a == b)'
        elif eq and not hq:
            bad = 'equal objects have different hashes'
        if bad:
            self.violate('3-eqhash', detail=bad, keys=[a[0], b[0]],
                         key_a=_key_brief(self.keys[a[0]]), key_b=_key_brief(self.keys[b[0]]))
        if same and a[1] is not b[1]:
            self.probes['equal_keys_distinct_objects'] += 1
            if not bad:
                self._eq_parts(a, b)
        if not same and not bad:
            self._neq_parts(a, b)
        return ('eq', bool(eq), bool(ne), hq)

    def _neq_parts(self, a, b):
        """The selector lists of two objects are equal exactly when they are structurally the same."""

        try:
            sa, sb = a[1].selectors, b[1].selectors
            with sched.traced():
                eq = sa == sb
                ne = sa != sb
                hq = hash(sa) == hash(sb)
        except Exception as e:  # noqa: BLE001
            self.violate('3-eqhash', detail=f'comparing parts raised {type(e).__name__}: {fp.short(e)}', keys=[a[0], b[0]])
            return
        same_struct = fp.fp_value(sa) == fp.fp_value(sb)
        bad = None
        if bool(eq) != same_struct:
            bad = 'the selector lists (part .selectors) compare %s but are structurally %s' % (
                'equal' if eq else 'unequal', 'the same' if same_struct else 'different')
        elif bool(ne) == bool(eq):
            bad = 'part .selectors: (a != b) is not the negation of (a == b)'
        elif eq and not hq:
            bad = 'part .selectors: equal parts have different hashes'
        if bad:
            self.violate('3-eqhash', detail=bad, keys=[a[0], b[0]], key_a=_key_brief(self.keys[a[0]]),
                         key_b=_key_brief(self.keys[b[0]]))
        self.probes['parts_compared_across_keys'] += 1

    def _eq_parts(self, a, b):
        """Every part of the structure is hashable, and corresponding parts of equal objects are equal/hash-equal."""

        na, nb = self._nodes(a[1])[:60], self._nodes(b[1])[:60]
        if len(na) != len(nb):
            return
        for x, y in zip(na, nb):
            try:
                with sched.traced():
                    ok = (x == y) and not (x != y) and hash(x) == hash(y)
            except Exception as e:  # noqa: BLE001
                self.violate('3-eqhash', detail=f'part {type(x).__name__} of a compiled selector is not hashable/comparable: '
                                                f'{type(e).__name__}: {fp.short(e)}', keys=[a[0], b[0]],
                             key_a=_key_brief(self.keys[a[0]]), key_b=_key_brief(self.keys[b[0]]))
                return
            if not ok:
                self.violate('3-eqhash', detail=f'corresponding parts ({type(x).__name__}) of two equal compiled selectors '
                                                'are unequal or hash differently', keys=[a[0], b[0]],
                             key_a=_key_brief(self.keys[a[0]]), key_b=_key_brief(self.keys[b[0]]))
                return
        self.probes['parts_compared'] += len(na)

    # -- dispatcher -------------------------------------------------------------
    def run_op(self, op, sequential=True, faulted=False):
        with sched.untraced():
            return self._run_op(op, sequential, faulted)

    def _run_op(self, op, sequential=True, faulted=False):
        kind = op['op']
        if kind == 'compile':
            out = self.op_compile(op, faulted)
        elif kind == 'purge':
            out = self.op_purge(op, sequential)
        elif kind == 'recompile':
            out = self.op_recompile(op)
        elif kind == 'clone':
            out = self.op_clone(op)
        elif kind == 'mutate':
            out = self.op_mutate(op)
        elif kind == 'select':
            out = self.op_select(op)
        elif kind == 'eq':
            out = self.op_eq(op)
        else:
            raise ValueError(kind)
        self.check_bound(where=kind)
        return out

    def final_checks(self, rng_pairs):
        self.check_bound(where='end')
        self.check_objects(where='end')
        n = len(self.objs)
        if n >= 2:
            for a, b in rng_pairs:
                self._eq_pair(self.objs[a % n], self.objs[b % n])
            # a key derived from another one by a single change is compared with the key it was derived from
            first = {}
            for r in self.objs:
                first.setdefault(r[0], r)
            done = 0
            for k, r in sorted(first.items()):
                b = self.keys[k].get('variant_of')
                if b is not None and b in first and done < 12 and not self.violations:
                    self._eq_pair(r, first[b])
                    self.probes['variant_compared_with_its_base'] += 1
                    done += 1
        # nothing wrong left behind: every key compiles to the reference once more, without purging
        for k in sorted({r[0] for r in self.objs}):
            try:
                o = self._compile(k)
                f = ('ok', fp.h(fp.fp_value(o), 12))
            except Exception as e:  # noqa: BLE001
                f = fp.fp_exc(e)
            if f != self.F[k]:
                self.violate('1-transparent', key=k, pattern=self.keys[k]['pattern'], expected=list(self.F[k]),
                             observed=list(f), at='end-of-run re-compile (cache not purged)')


def _key_brief(k):
    return {x: k.get(x) for x in ('pattern', 'ns', 'custom', 'flags', 'flags_form', 'ns_form', 'custom_form') if x in k}


# ---------------------------------------------------------------------------
# workload
# ---------------------------------------------------------------------------

def gen_history(rng, nkeys, length, mode):
    ops_ = []
    for _ in range(length):
        r = rng.random()
        if r < 0.46:
            ops_.append({'op': 'compile', 'key': rng.randrange(nkeys)})
            if rng.random() < 0.25:
                ops_[-1]['scribble'] = rng.randrange(12)
            if rng.random() < 0.3:
                ops_[-1]['shared'] = True
        elif r < 0.54:
            ops_.append({'op': 'purge'})
        elif r < 0.60:
            ops_.append({'op': 'recompile', 'obj': rng.randrange(50),
                         'extra': rng.choice([None, None, 'flags', 'namespaces', 'custom', 'namespaces-empty',
                                              'custom-empty', 'same', 'same'])})
        elif r < 0.70:
            how = rng.choice(['copy', 'deepcopy', 'pickle', 'pickle'])
            op = {'op': 'clone', 'obj': rng.randrange(50), 'how': how}
            if how == 'pickle':
                op['proto'] = rng.randint(0, pickle.HIGHEST_PROTOCOL)
            ops_.append(op)
        elif r < 0.86:
            ops_.append({'op': 'mutate', 'obj': rng.randrange(50), 'node': rng.randrange(400),
                         'slot': rng.randrange(12), 'action': rng.choice(['set', 'del', 'del', 'setnew', 'call', 'call']),
                         'value': rng.choice(['mutated', 0, None]), 'm': rng.randrange(64)})
        elif r < 0.93:
            ops_.append({'op': 'eq', 'a': rng.randrange(50), 'b': rng.randrange(50)})
        else:
            ops_.append({'op': 'select', 'obj': rng.randrange(50)})
    return ops_


def gen_workload(rng, mode):
    if mode == 'big':
        n = rng.randint(501, 700)
        keys = [{'pattern': f'[data-x="{i}"]' if i % 3 else f'p.c{i}:nth-child({i})', 'ns': None, 'custom': None,
                 'flags': 0} for i in range(n)]
        order = list(range(n))
        hist = [{'op': 'compile', 'key': k} for k in order]
        for _ in range(rng.randint(5, 30)):
            hist.insert(rng.randrange(len(hist)), {'op': 'compile', 'key': rng.randrange(n)})
        if rng.random() < 0.5:
            hist.insert(rng.randrange(len(hist)), {'op': 'purge'})
        return {'mode': mode, 'keys': keys, 'programs': [hist], 'faults': [], 'stdout_faults': []}
    nkeys = rng.randint(4, 16)
    keys = gen_keys(rng, nkeys, debug_bias=0.3 if mode in ('faults', 'concurrent') else 0.12)
    faults = []
    stdout_faults = []
    if mode == 'concurrent':
        nthreads = rng.choice([2, 2, 3])
        programs = [gen_history(rng, nkeys, rng.randint(3, 12), mode) for _ in range(nthreads)]
    else:
        programs = [gen_history(rng, nkeys, rng.randint(10, 60), mode)]
    if mode in ('faults', 'concurrent'):
        if rng.random() < 0.25:
            d = rng.choice([30, 60, 120])
            keys.append({'pattern': nested_pattern(d), 'ns': None, 'custom': None, 'flags': 0, 'deep': d})
        for t, prog in enumerate(programs):
            for i, op in enumerate(prog):
                if op['op'] != 'compile':
                    continue
                r = rng.random()
                if r < (0.25 if mode == 'faults' else 0.12):
                    faults.append([t, i, rng.randint(1, 400), rng.choice(['MemoryError', 'MemoryError', 'KeyboardInterrupt',
                                                                           'RuntimeError'])])
                elif r < 0.45 and keys[op['key']].get('flags'):
                    stdout_faults.append([t, i, rng.randint(1, 12), rng.choice([32, 28])])
                elif r < 0.5 and keys[-1].get('deep') and mode == 'faults':
                    op['key'] = len(keys) - 1
                    op['recursion_limit'] = rng.choice([25, 40, 70])
    return {'mode': mode, 'keys': keys, 'programs': programs, 'faults': faults, 'stdout_faults': stdout_faults}


# ---------------------------------------------------------------------------
# execution
# ---------------------------------------------------------------------------

def _depth():
    f = sys._getframe()
    n = 0
    while f is not None:
        n += 1
        f = f.f_back
    return n


def _reference_child(sv, keys, bound):
    m = Machine(sv, keys, bound)
    old_stdout = sys.stdout
    sys.stdout = m.stdout
    try:
        env.canonical_state(sv)
        try:
            with env.wall_guard(20.0):
                m.build_reference()
        except env.SlowOperation:
            return {'discarded': 'slow-operation-in-reference-pass'}
        return m.F
    finally:
        sys.stdout = old_stdout


def execute(sv, workload, bound, policy_spec=None, sched_seed=0, pairs_seed=0, ref_pack=None):
    """Run one history.  Returns a result dict (pure data)."""

    from props import c14
    m = Machine(sv, workload['keys'], bound)
    old_stdout = sys.stdout
    sys.stdout = m.stdout
    try:
        env.canonical_state(sv)
        # the reference table is computed in a forked child: this process reaches the history without having parsed
        # anything, so first-use effects (lazy initialisation aborted by a fault, raced by a peer) stay reachable
        from sim import runner
        if ref_pack is not None:
            F = ref_pack
        else:
            try:
                F = runner.isolated(_reference_child, sv, workload['keys'], bound, hang_s=30)
            except runner.IsolatedTimeout:
                return {'discarded': 'reference-pass-killed-at-deadline(stuck-in-C-code)'}
        if isinstance(F, dict):
            return F
        m.F = F
        m.check_bound(after_purge=True, where='start')
        for t, i, j, errno in workload.get('stdout_faults', ()):
            m.stdout.table[(t, i)] = [j, errno]
        fault_tab = {(t, i, s): e for t, i, s, e in workload.get('faults', ())}
        faulted_ops = {(t, i) for t, i, s, e in workload.get('faults', ())}
        faulted_ops |= {(t, i) for t, i, j, e in workload.get('stdout_faults', ())}
        programs = workload['programs']
        concurrent = len(programs) > 1
        sim = None
        outcomes = [[] for _ in programs]

        def make(t, i, op):
            def run(s, tid):
                m.where[0], m.where[1] = t, i
                return m.run_op(op, sequential=not concurrent, faulted=(t, i) in faulted_ops)
            return run

        if concurrent or fault_tab:
            progs = [[make(t, i, op) for i, op in enumerate(prog)] for t, prog in enumerate(programs)]
            kinds = [[op['op'] for op in prog] for prog in programs]
            if policy_spec is None:
                policy = sched.Policy()
                policy_spec = {'name': 'none'}
            else:
                if callable(policy_spec):
                    est = [[300] * len(p) for p in programs]
                    policy_spec = policy_spec(est)
                policy = c14.make_policy(policy_spec, random.Random(sched_seed))

            def on_switch(s, frm, to, why):
                if frm.in_op and frm.op_kind == 'compile' and to.in_op is False:
                    pass

            sim = sched.Sim(progs, policy, faults=fault_tab, prefix=env.repo_pkg_dir(), op_kinds=kinds)
            # where() must follow the thread that holds the baton
            m.stdout.where = lambda: ((sim.current.idx, sim.current.op_index) if sim.current is not None else (0, -1))
            try:
                sim.run()
            except sched.HarnessError as e:
                if 'did not finish within' in str(e):
                    return {'discarded': 'simulation-exceeded-its-wall-clock-allowance'}
                raise
            if sim.deadlock:
                m.violate('1-transparent', detail='deadlock: all unfinished threads blocked')
            for t in sim.threads:
                outcomes[t.idx] = list(t.results)
            for (tid, opi, st, exc, fn, ln) in sim.faults_fired:
                m.probes['fault:exc@step'] += 1
                m.probes['fault:exc@step:' + fn] += 1
            peers_purge = 0
            for sg in sim.switch_sig:
                if sg[0] == 'compile' and sg[3] in ('purge',):
                    peers_purge += 1
            for ev in sim.events:
                if ev[0] == 'sw' and ev[4] == 'preempt' and ev[5] == 'compile':
                    m.probes['preempted_inside_compile'] += 1
            # a purge executed by a peer while a compile was parked mid-way
            _count_purge_inflight(sim, programs, m.probes)
        else:
            for i, op in enumerate(programs[0]):
                m.where[0], m.where[1] = 0, i
                outcomes[0].append(m.run_op(op, True, (0, i) in faulted_ops))
        for k in m.stdout.fired:
            m.probes['fault:stdout-fail'] += 1
        m.stdout.table.clear()  # faults belong to operations of the history, not to the closing checks
        prng = random.Random(pairs_seed)
        pairs = [(prng.randrange(1 << 30), prng.randrange(1 << 30)) for _ in range(60)]
        m.final_checks(pairs)
    finally:
        sys.stdout = old_stdout

    for prog_out in outcomes:
        for out in prog_out:
            if out and len(out) > 1 and out[0] == 'exc' and out[1] == 'RecursionError':
                m.probes['fault:recursion'] += 1
    violation = m.violations[0] if m.violations else None
    if violation is not None:
        violation = dict(violation)
        violation['oracle'] = violation.pop('clause')
    events = sim.events if sim is not None else []
    digest = fp.h((outcomes, events, [list(v.items()) for v in m.violations]), 12)
    res = {
        'violation': violation,
        'digest': digest,
        'segments': [list(s) for s in sim.segments] if sim is not None else [],
        'policy': policy_spec if sim is not None else {'name': 'sequential-untraced'},
        'steps': sim.gstep if sim is not None else 0,
        'switches': sim.switches if sim is not None else 0,
        'probes': dict(m.probes),
        'nobjs': len(m.objs),
        'nops': sum(len(p) for p in programs),
        'sig': fp.h(([tuple(o[:2]) if o else o for po in outcomes for o in po],
                     sim.switch_sig if sim is not None else ())),
        'overlap': bool(sim is not None and sim.probes.get('two_ops_overlapped')),
        'sim_probes': dict(sim.probes) if sim is not None else {},
        'stdout_writes': m.stdout.writes,
        'first_op_steps': (sim.threads[0].op_steps[0] if sim is not None and sim.threads[0].op_steps else None),
        'stdout_writes_first_op': m.stdout.counts_by_op.get((0, 0), 0),
        'faults_fired': ([list(f) for f in sim.faults_fired] if sim is not None else []),
        'stdout_fired': [list(f) for f in m.stdout.fired],
    }
    return res


def _count_purge_inflight(sim, programs, probes):
    """Probe: a purge() completed while some other thread was parked inside a compile."""

    inflight = {}
    for ev in sim.events:
        if ev[0] == 'op+':
            inflight[ev[1]] = ev[3]
        elif ev[0] == 'op-':
            kind = inflight.pop(ev[1], None)
            if kind == 'purge' and any(v == 'compile' for v in inflight.values()):
                probes['purge_during_inflight_compile'] += 1
            if kind == 'compile' and any(v == 'compile' for v in inflight.values()):
                probes['compile_finished_during_inflight_compile'] += 1


# ---------------------------------------------------------------------------
# systematic single-fault sweep: an exception at every step (a failing stdout at every write) of one compile
# ---------------------------------------------------------------------------

FAULTSWEEP_BATCH = 40


def faultsweep_catalogue():
    cm = {':--a': ':--b > span', ':--b': 'div, section', ':--c': ':--a:not(:--b)'}
    pats = ['input:checked', ':default', ':read-only', ':nth-child(2n+1 of p:lang(en))', ':lang(en, "de-*")',
            'div:has(> p:first-child) ~ a[href^="#"]', ':is(:dir(rtl), :not(:root)) > li:nth-last-of-type(2)',
            ':-soup-contains("a", "b")', 'a:any-link, input:in-range:enabled', 'p.a#b[c=d i]:empty']
    keys = [{'pattern': p_, 'ns': None, 'custom': None, 'flags': 0} for p_ in pats]
    keys += [{'pattern': ':--c, :--a', 'ns': None, 'custom': cm, 'flags': 0},
             {'pattern': 'p:--b', 'ns': None, 'custom': cm, 'flags': 0},
             {'pattern': 'input:checked', 'ns': None, 'custom': None, 'flags': 1},
             {'pattern': ':--c', 'ns': {'h': gen.NS_XHTML}, 'custom': cm, 'flags': 1}]
    return keys


def run_faultsweep(sv, index, bound):
    """Run ``index``: victim = catalogue[index % n]; batch index // n of its steps (stride order), one forked
    sub-run per step: compile aborted at that step, then the same key, a related key, purge, the same key again."""

    from sim import runner
    keys = faultsweep_catalogue()
    n = len(keys)
    vi, batch = index % n, index // n
    related = (vi + 1) % n if vi < 10 else (10 if vi != 10 else 11)
    base = {'mode': 'faultsweep', 'keys': keys, 'stdout_faults': [],
            'programs': [[{'op': 'compile', 'key': vi}, {'op': 'compile', 'key': vi}, {'op': 'compile', 'key': related},
                          {'op': 'purge'}, {'op': 'compile', 'key': vi}, {'op': 'clone', 'obj': 0, 'how': 'pickle'}]]}
    try:
        F = runner.isolated(_reference_child, sv, keys, bound, hang_s=30)
    except runner.IsolatedTimeout:
        return {'discarded': 'reference-pass-killed-at-deadline(stuck-in-C-code)'}
    if isinstance(F, dict):
        return F
    # length of the victim compile, in steps and in stdout writes
    probe_w = dict(base)
    probe_w['faults'] = [[0, 0, 10 ** 9, 'MemoryError']]
    r0 = runner.isolated(execute, sv, probe_w, bound, None, 0, 0, F, hang_s=60)
    length = max(1, r0.get('first_op_steps') or 1)
    writes = r0.get('stdout_writes_first_op', 0)
    stride = max(1, (length + FAULTSWEEP_BATCH - 1) // FAULTSWEEP_BATCH)
    if batch >= stride + (1 if writes else 0):
        return {'discarded': 'faultsweep-batch-beyond-end-of-operation'}
    res = None
    digests = []
    fired = 0
    if writes and batch == 0:
        points = [('stdout', j) for j in range(1, writes + 1)]
    else:
        b = batch - (1 if writes else 0)
        points = [('exc', st) for st in range(1 + b, length + 1, stride)]
    for kind, st in points:
        w = dict(base)
        if kind == 'exc':
            w['faults'] = [[0, 0, st, 'MemoryError' if st % 3 else 'KeyboardInterrupt']]
        else:
            w['faults'] = []
            w['stdout_faults'] = [[0, 0, st, 32]]
        try:
            r = runner.isolated(execute, sv, w, bound, None, 0, 0, F, hang_s=60)
        except runner.IsolatedTimeout:
            continue
        if r.get('discarded'):
            continue
        digests.append(r['digest'])
        fired += len(r.get('faults_fired') or []) + len(r.get('stdout_fired') or [])
        if res is None or (r['violation'] and not res['violation']):
            res = r
            res['workload'] = w
        if r['violation']:
            break
    if res is None:
        return {'discarded': 'faultsweep-batch-beyond-end-of-operation'}
    res = dict(res)
    if not res['violation']:
        res['digest'] = fp.h(digests, 12)
    res['probes'] = dict(res['probes'])
    res['probes']['faultsweep_points'] = len(digests)
    res['probes']['faultsweep_faults_fired'] = fired
    res['bound'] = bound
    res['pairs_seed'] = 0
    res['faultsweep'] = {'victim': vi, 'pattern': keys[vi]['pattern'], 'batch': batch, 'victim_steps': length,
                         'stride': stride, 'stdout_writes': writes}
    return res


# ---------------------------------------------------------------------------
# process restart: pickled compiled selectors are the durable state; the next incarnation has another hash seed
# ---------------------------------------------------------------------------

def run_restart(sv, run_seed, bound, workload=None, hashseed=None, protocol=None):
    import base64
    import shutil
    import subprocess
    import tempfile
    rng = random.Random(run_seed)
    if workload is None:
        keys = gen_keys(rng, rng.randint(4, 10), debug_bias=0.0)
        workload = {'mode': 'restart', 'keys': keys, 'programs': [[{'op': 'compile', 'key': k} for k in range(len(keys))]],
                    'faults': [], 'stdout_faults': []}
        hashseed = 1 + rng.randrange(4000)
        protocol = rng.randint(0, pickle.HIGHEST_PROTOCOL)
    keys = workload['keys']
    items = []
    old_stdout = sys.stdout
    sys.stdout = SimStdout()   # DEBUG-flag keys print while they are compiled
    try:
        for k, key in enumerate(keys):
            try:
                obj = sv.compile(key['pattern'], **key_call_args(key))
                items.append({'k': k, 'key': key,
                              'pickle': base64.b64encode(pickle.dumps(obj, protocol=protocol)).decode()})
            except Exception:  # noqa: BLE001 - invalid keys have nothing durable
                continue
    finally:
        sys.stdout = old_stdout
    violation = None
    outcome = None
    if items:
        scratch = tempfile.mkdtemp(prefix='c15r-')
        try:
            jp, rp = os.path.join(scratch, 'job.json'), os.path.join(scratch, 'res.json')
            with open(jp, 'w') as f:
                json.dump({'repo': env.REPO, 'verif': os.path.dirname(os.path.dirname(os.path.abspath(__file__))),
                           'items': items}, f)
            e = {k: v for k, v in os.environ.items() if not k.startswith(('COVERAGE', 'PYTHON'))}
            e['PYTHONHASHSEED'] = str(hashseed)
            e['PYTHONDONTWRITEBYTECODE'] = '1'
            e['VERIF_REPO'] = env.REPO
            p = subprocess.run(['/venv/bin/python', os.path.join(os.path.dirname(os.path.abspath(__file__)),
                                                                  'c15_restart_driver.py'), jp, rp],
                               capture_output=True, text=True, env=e, timeout=120, cwd=scratch)
            if os.path.exists(rp):
                outcome = json.load(open(rp))['items']
            else:
                violation = {'oracle': '4-copy', 'how': 'restart', 'detail': 'the restarted interpreter could not load the '
                             'pickled selectors', 'stderr': (p.stderr or '')[-600:]}
        finally:
            shutil.rmtree(scratch, ignore_errors=True)
    if outcome is not None:
        for rec in outcome:
            bad = [n for n in ('eq', 'hash', 'in_set', 'parts_hash', 'select', 'repickle') if rec.get(n) is False]
            if rec.get('ne') is True:
                bad.append('ne')
            if rec.get('load_error') or rec.get('error'):
                bad.append('error')
            if bad:
                violation = {'oracle': '4-copy', 'how': 'restart', 'key': rec['k'], 'pattern': keys[rec['k']]['pattern'],
                             'failed': bad, 'record': rec,
                             'detail': 'a compiled selector pickled before a process restart (other hash seed) is no longer '
                                       'an equal, hash-equal value after it'}
                break
    digest = fp.h((workload['keys'], hashseed, protocol, outcome, violation), 12)
    return {
        'violation': violation, 'digest': digest, 'segments': [], 'policy': {'name': 'restart'}, 'steps': 0, 'switches': 0,
        'probes': {'fault:restart(other hash seed)': 1, 'restart_objects': len(items)}, 'nobjs': len(items),
        'nops': len(keys) + 1, 'sig': fp.h(('restart', [r.get('k') for r in (outcome or [])], protocol)), 'overlap': False,
        'sim_probes': {}, 'stdout_writes': 0, 'faults_fired': [], 'stdout_fired': [], 'workload': workload, 'bound': bound,
        'pairs_seed': 0, 'restart': {'hashseed': hashseed, 'protocol': protocol},
    }


def run_seeded(sv, run_seed, mode, bound, index=None):
    if mode == 'restart':
        res = run_restart(sv, run_seed, bound)
        res['run_seed'] = run_seed
        return res
    if mode == 'faultsweep':
        res = run_faultsweep(sv, index or 0, bound)
        res['run_seed'] = run_seed
        return res
    rng = random.Random(run_seed)
    workload = gen_workload(rng, mode)
    prng = random.Random(rng.getrandbits(64))
    sseed = rng.getrandbits(64)
    pseed = rng.getrandbits(64)
    from props import c14
    spec = None
    if mode == 'concurrent':
        spec = lambda est: c14.gen_policy_spec(prng, est)  # noqa: E731
    res = execute(sv, workload, bound, spec, sseed, pseed)
    res['workload'] = workload
    res['bound'] = bound
    res['run_seed'] = run_seed
    res['pairs_seed'] = pseed
    return res


def replay(sv, rec):
    if rec.get('restart'):
        return run_restart(sv, rec.get('run_seed') or 0, rec.get('bound'), rec['workload'], rec['restart']['hashseed'],
                           rec['restart']['protocol'])
    spec = None
    if rec.get('segments'):
        spec = {'name': 'replay', 'segments': rec['segments']}
    res = execute(sv, rec['workload'], rec.get('bound'), spec, 0, rec.get('pairs_seed', 0))
    res['workload'] = rec['workload']
    res['bound'] = rec.get('bound')
    res['pairs_seed'] = rec.get('pairs_seed', 0)
    return res


# ---------------------------------------------------------------------------
# batch interface
# ---------------------------------------------------------------------------

def plan(tier):
    if tier == 'thorough':
        scale, budget = 20, 1500
    else:
        scale, budget = 1, 85
    cfgs = []

    def add(mode, bound, nruns, chunk):
        cfgs.append({'name': f'{mode}-k{bound}', 'mode': mode, 'bound': bound, 'nruns': nruns * scale, 'chunk': chunk})

    add('seq', 3, 1500, 40)
    add('seq', 1, 700, 40)
    add('seq', 8, 700, 40)
    add('seq', 500, 300, 40)
    add('faults', 2, 800, 25)
    add('faults', 5, 500, 25)
    add('concurrent', 2, 800, 25)
    add('concurrent', 3, 500, 25)
    add('concurrent', 500, 300, 25)
    add('big', 500, 32, 2)
    # process restart: compiled selectors pickled by one incarnation, loaded by the next (another hash seed)
    cfgs.append({'name': 'restart-k500', 'mode': 'restart', 'bound': 500, 'chunk': 10,
                 'nruns': 160 if tier != 'thorough' else 3000})
    # systematic single-fault sweep of one compile (exception at every step, failing stdout at every write): the
    # thorough tier covers every step of the 14 catalogue compiles, the quick tier every ~6th
    cfgs.append({'name': 'faultsweep-k3', 'mode': 'faultsweep', 'bound': 3, 'chunk': 7, 'priority': True, 'det_runs': 2,
                 'nruns': 14 * 6 if tier != 'thorough' else 14 * 62})
    return {'budget_s': budget, 'configs': cfgs, 'minimise_budget': 500}


def make_record(res, cfg=None, index=None):
    return {
        'property': PROP,
        'config': cfg,
        'index': index,
        'run_seed': res.get('run_seed'),
        'pairs_seed': res.get('pairs_seed', 0),
        'bound': res.get('bound'),
        'workload': res['workload'],
        'segments': res['segments'],
        'faults': res['workload'].get('faults', []),
        'faultsweep': res.get('faultsweep'),
        'restart': res.get('restart'),
        'faults_fired': res.get('faults_fired'),
        'stdout_faults_fired': res.get('stdout_fired'),
        'policy': {k: v for k, v in (res.get('policy') or {}).items() if k != 'segments'},
        'violation': res['violation'],
        'digest': res['digest'],
        'steps': res['steps'],
        'cost': sum(len(p) for p in res['workload']['programs']) * 1000 + res['steps'] // 100,
        'versions': env.versions(),
        'granularity': 'pre-emption/fault points at line/call events inside soupsieve frames; C code atomic (GIL)',
    }


def run_chunk(task, agg):
    if task.get('kind') == 'minimise':
        rec = task['rec']
        sv = env.load_soupsieve(cache_bound=rec.get('bound'))
        agg.extra.append(minimise_record(sv, rec, task.get('budget', 500)))
        return
    from sim import runner
    cfg = task['config']
    sv = env.load_soupsieve(cache_bound=cfg['bound'])
    for i in task['indices']:
        runner.merge_isolated(agg, f"{cfg['name']}:{i}", _one_run, sv, task['verif_seed'], cfg, i, len(agg.samples))


def _one_run(sv, verif_seed, cfg, i, nsamples):
    """One seeded run, in a forked child (see runner.isolated); returns a small Agg."""

    from sim import runner
    agg = runner.Agg()
    seed = runner.derive_seed(verif_seed, PROP, cfg['name'], i)
    res = run_seeded(sv, seed, cfg['mode'], cfg['bound'], index=i)
    if res.get('discarded') == 'faultsweep-batch-beyond-end-of-operation':
        agg.count('probe:faultsweep_batches_beyond_end')
        agg.digests[f"{cfg['name']}:{i}"] = 'beyond-end'
        return agg
    if res.get('discarded'):
        agg.count('discarded:' + res['discarded'])
        agg.digests[f"{cfg['name']}:{i}"] = 'discarded'
        return agg
    agg.runs += 1
    agg.digests[f"{cfg['name']}:{i}"] = res['digest']
    agg.count('steps', res['steps'])
    agg.count('switches', res['switches'])
    agg.count('ops', res['nops'])
    agg.count('objects', res['nobjs'])
    agg.count('mode:' + cfg['mode'])
    agg.count('bound:%s' % cfg['bound'])
    agg.count('policy:' + res['policy']['name'])
    for k, v in res['probes'].items():
        if k.startswith('fault:exc@step:'):
            agg.count('faultsite:' + k[15:], v)
            continue
        agg.count('probe:' + k, v)
    for k, v in res['sim_probes'].items():
        agg.count('probe:' + k, v)
    p = res['probes']
    nontrivial = (
        p.get('restart_objects', 0) > 0 or p.get('eviction', 0) > 0 or p.get('fault:exc@step', 0) > 0 or p.get('fault:stdout-fail', 0) > 0 or
        p.get('fault:recursion', 0) > 0 or res['overlap'] or p.get('purge_during_inflight_compile', 0) > 0
    )
    if nontrivial:
        agg.add_to_set('sigs', res['sig'])
    if nsamples < 2 and nontrivial:
        w = res['workload']
        agg.samples.append({
            'config': cfg['name'], 'index': i, 'run_seed': seed,
            'keys': [_key_brief(k) for k in w['keys'][:6]], 'n_keys': len(w['keys']),
            'programs_head': [prog[:10] for prog in w['programs']],
            'n_ops': res['nops'], 'faults': w.get('faults', [])[:6], 'stdout_faults': w.get('stdout_faults', [])[:4],
            'faults_fired': res['faults_fired'][:6], 'policy': res['policy'], 'digest': res['digest'],
        })
    if res['violation']:
        agg.violations.append(make_record(res, cfg, i))
    return agg


def replay_record(rec):
    sv = env.load_soupsieve(cache_bound=rec.get('bound'))
    return replay(sv, rec)


def signature(rec):
    v = rec['violation']
    o = v['oracle']
    if o == '5-immutable':
        m = (v.get('mutation') or 'unknown').split(' ')[0]
        return f'5-immutable:{m}'
    if o == '3-eqhash':
        d = v.get('detail', '')
        if 'different hashes' in d:
            return '3-eqhash:equal-objects-different-hashes'
        if 'negation' in d:
            return '3-eqhash:ne-not-negation'
        if 'keys are equal' in d:
            return '3-eqhash:equal-keys-unequal-objects'
        if 'keys are different' in d:
            return '3-eqhash:different-keys-equal-objects'
        if 'part' in d:
            return '3-eqhash:parts'
        return '3-eqhash:other'
    if o == '4-copy':
        return f"4-copy:{v.get('how')}"
    if o == '6-passthrough':
        return f"6-passthrough:{v.get('extra')}"
    if o == '2-bound':
        d = v.get('detail', '')
        if 'after purge' in d:
            return '2-bound:not-empty-after-purge'
        if 'not a number' in d:
            return '2-bound:unbounded'
        return '2-bound:exceeded'
    if o == '1-transparent':
        obs = v.get('observed')
        if 'deadlock' in str(v.get('detail', '')):
            return '1-transparent:deadlock'
        if isinstance(obs, list) and obs and obs[0] == 'exc':
            return f'1-transparent:exc:{obs[1]}'
        return '1-transparent:wrong-value'
    return o


def describe(rec):
    v = rec['violation']
    w = rec['workload']
    lines = ['oracle ' + v['oracle'] + ': ' + _short_json({k: v[k] for k in v if k != 'oracle'})]
    for t, prog in enumerate(w['programs']):
        lines.append(f'thread {t}: ' + '; '.join(_op_str(w, o) for o in prog[:30]) + (' ...' if len(prog) > 30 else ''))
    if rec.get('restart'):
        lines.append(f"process restart: selectors pickled with protocol {rec['restart']['protocol']} under PYTHONHASHSEED=0, "
                     f"loaded by a fresh interpreter under PYTHONHASHSEED={rec['restart']['hashseed']}")
        for k, key in enumerate(w['keys']):
            lines.append(f'  key {k}: ' + json.dumps(_key_brief(key)))
    if w.get('faults'):
        lines.append('faults (thread, op, step, exception): ' + json.dumps(w['faults']))
    if w.get('stdout_faults'):
        lines.append('stdout faults (thread, op, write#, errno): ' + json.dumps(w['stdout_faults']))
    lines.append(f"schedule: {len(rec.get('segments') or [])} segments; cache bound {rec.get('bound')}")
    return '\n'.join(lines)


def _short_json(v, n=500):
    s = json.dumps(v, default=str)
    return s if len(s) <= n else s[:n] + '...'


def _op_str(w, o):
    k = o.get('key')
    if o['op'] == 'compile':
        key = w['keys'][k]
        extra = ''.join(f', {x}' for x in ('ns', 'custom') if key.get(x) is not None)
        if key.get('flags'):
            extra += f", flags={_flags_value(key)!r}"
        return f"compile({key['pattern']!r}{extra})"
    if o['op'] == 'mutate':
        return f"mutate(obj{o.get('obj')}, node{o.get('node')}, {o.get('action')})"
    if o['op'] == 'clone':
        return f"{o.get('how')}(obj{o.get('obj')})"
    if o['op'] == 'recompile':
        return f"compile(obj{o.get('obj')}, extra={o.get('extra')})"
    if o['op'] == 'eq':
        return f"eq(obj{o.get('a')}, obj{o.get('b')})"
    if o['op'] == 'select':
        return f"obj{o.get('obj')}.select(doc)"
    return o['op'] + '()'


def minimise_record(sv, rec, budget_n=500, wall_s=150.0):
    import time
    from sim import minimise as mz
    sig0 = signature(rec)
    t_end = time.time() + wall_s
    b = mz.Budget(budget_n)

    state = {'sv': sv}

    def fails(cand):
        if time.time() > t_end:
            b.left = 0
            return False
        from sim import runner
        try:
            res = runner.isolated(replay, state['sv'], cand)
        except RuntimeError:
            return False
        if res.get('discarded') or not res['violation']:
            return False
        new = make_record(res, cand.get('config'), cand.get('index'))
        new['run_seed'] = cand.get('run_seed')
        if signature(new) != sig0:
            return False
        return new

    first = fails(rec)
    if not first:
        rec = dict(rec)
        rec['minimised'] = {'error': 'original record did not reproduce under replay'}
        return rec

    def size(r):
        w = r['workload']
        return (len(w['programs']), sum(len(p) for p in w['programs']), len(w.get('faults', [])) +
                len(w.get('stdout_faults', [])), len(r.get('segments') or []))

    def drop_faults(cur):
        w = cur['workload']
        for name in ('faults', 'stdout_faults'):
            if w.get(name):
                base = cur

                def test(sub, base=base, name=name):
                    c = mz.clone(base)
                    c['workload'][name] = sub
                    return bool(fails(c))

                sub = mz.ddmin_list(w[name], test, b)
                if len(sub) < len(w[name]):
                    c = mz.clone(cur)
                    c['workload'][name] = sub
                    out = fails(c)
                    if out:
                        cur = out
                        w = cur['workload']
        return cur

    def simplify_keys(cur):
        def cands(r):
            for k, key in enumerate(r['workload']['keys']):
                for field in ('ns', 'custom'):
                    if key.get(field) is not None:
                        c = mz.clone(r)
                        c['workload']['keys'][k][field] = None
                        yield c
                for sp in ('p', ':lang(en)', 'div p', ':nth-child(2)'):
                    if len(sp) < len(key['pattern']) and not key.get('deep'):
                        c = mz.clone(r)
                        c['workload']['keys'][k]['pattern'] = sp
                        yield c
        return mz.greedy(cur, cands, fails, b)

    cur = first
    for _ in range(3):
        before = size(cur)
        nt = len(cur['workload']['programs'])
        if nt > 1:
            for t in reversed(range(nt)):
                if len(cur['workload']['programs']) <= 1:
                    break
                if b.take():
                    out = fails(mz.drop_thread(cur, t))
                    if out:
                        cur = out
        cur = drop_faults(cur)
        cur = mz.shrink_schedule(cur, fails, b)
        cur = mz.shrink_programs(cur, fails, b)
        if size(cur) == before or b.left <= 0:
            break
    cur = simplify_keys(cur)
    cur = _gc_keys(cur, fails) or cur
    final = cur
    w0, w1 = rec['workload'], final['workload']
    final['minimised'] = {
        'reexecutions': b.used,
        'from': {'threads': len(w0['programs']), 'ops': sum(len(p) for p in w0['programs']),
                 'faults': len(w0.get('faults', [])) + len(w0.get('stdout_faults', [])),
                 'segments': len(rec.get('segments') or []), 'keys': len(w0['keys'])},
        'to': {'threads': len(w1['programs']), 'ops': sum(len(p) for p in w1['programs']),
               'faults': len(w1.get('faults', [])) + len(w1.get('stdout_faults', [])),
               'segments': len(final.get('segments') or []), 'keys': len(w1['keys'])},
    }
    final['original_run'] = {'config': rec.get('config'), 'index': rec.get('index'), 'run_seed': rec.get('run_seed'),
                             'digest': rec.get('digest')}
    return final


def _gc_keys(rec, fails):
    from sim.minimise import clone
    c = clone(rec)
    w = c['workload']
    used = sorted({o['key'] for p in w['programs'] for o in p if 'key' in o})
    if len(used) == len(w['keys']):
        return None
    km = {k: i for i, k in enumerate(used)}
    w['keys'] = [w['keys'][k] for k in used]
    for p in w['programs']:
        for o in p:
            if 'key' in o:
                o['key'] = km[o['key']]
    return fails(c)


ASSUMPTIONS = [
    'fault and pre-emption points are the line and function-entry events of frames under <repo>/soupsieve/ '
    '(sys.settrace); C code (regex engine, lru_cache internals, pickle) executes atomically, as under the GIL',
    'the reference F[key] is the library\'s own fresh parse right after purge(); CSS meaning is not assumed',
    'an operation aborted by an injected fault may raise instead of returning; it may never return a wrong value, and '
    'every later operation is held to the full oracle',
    'cache order (LRU vs FIFO) and object identity on cache hits are not required; only bound, purge and transparency',
    'the cache bound is varied through a functools.lru_cache seam applied while soupsieve is imported; a tree whose '
    'cache is not an lru_cache object is checked for transparency only (probe cache_not_introspectable)',
    'seeded sampling of histories/schedules/fault positions, not exhaustive enumeration',
]


def evidence(agg, info, plan_, tier):
    c = agg.counters
    probes = {k[6:]: v for k, v in c.items() if k.startswith('probe:')}
    faults = {k[6:]: v for k, v in probes.items() if k.startswith('fault:')}
    faults['purge-by-peer(purge finished while a compile was in flight)'] = probes.get('purge_during_inflight_compile', 0)
    faults['small-cache(runs with bound<500)'] = sum(v for k, v in c.items() if k.startswith('bound:') and k != 'bound:500')
    faults['caller-changed-the-maps-it-passed(after compile returned)'] = probes.get('caller_changed_its_maps_after_compile', 0)
    faults['caller-passed-the-same-map-object-again(new content)'] = probes.get('caller_passed_the_same_map_object_again', 0)
    faults['mutation-attempts-not-rejected'] = probes.get('mutation_not_rejected', 0)
    sites = sorted(((v, k[10:]) for k, v in c.items() if k.startswith('faultsite:')), reverse=True)
    cov = {
        'evaluations': agg.runs,
        'distinct_nontrivial': len(agg.sets.get('sigs', ())),
        'rule': 'one evaluation = one history of 10-60 operations (compile / purge / compile(compiled) / pickle-copy-'
                'deepcopy / mutation attempt / equality check / select) by one caller, or 3-12 per thread for 2-3 '
                'simulated threads, against the real cache with a seeded bound; non-trivial = the run evicted from a '
                'full cache, or had a fault fire inside compile, or overlapped two operations, or had a peer purge land '
                'during an in-flight compile; distinct = distinct hash of (operation outcomes, switch trace)',
        'samples': agg.samples[:3],
        'seeds': agg.runs,
        'operations': c.get('ops', 0),
        'objects_produced': c.get('objects', 0),
        'logical_steps_traced': c.get('steps', 0),
        'switches': c.get('switches', 0),
        'simulated_time': 'none: nothing in the system reads a clock; logical time is the step count',
        'faults_fired': faults,
        'fault_sites_top': [[k, v] for v, k in sites[:15]],
        'fault_sites_distinct_functions': len(sites),
        'workload_modes': {k[5:]: v for k, v in c.items() if k.startswith('mode:')},
        'cache_bounds_used': {k[6:]: v for k, v in c.items() if k.startswith('bound:')},
        'policies': {k[7:]: v for k, v in c.items() if k.startswith('policy:')},
        'probes': {k: v for k, v in probes.items() if not k.startswith('fault:')},
        'runs_discarded': {k[10:]: v for k, v in c.items() if k.startswith('discarded:')},
        'components_real': ['soupsieve (all modules, unmodified, from the working tree)', 'functools.lru_cache (C)',
                            'pickle/copy/copyreg', 'bs4 + html.parser (fixed document for the select clause)', 're'],
        'components_stubbed': ['thread scheduling (baton passing, seeded policy)', 'sys.stdout (sink that fails on demand)',
                               'threading primitives as seen by soupsieve at import (unused by the current tree)'],
        'budget_s': plan_['budget_s'],
        'tasks_cancelled_by_deadline': info['tasks_cancelled'],
    }
    return {'coverage': cov, 'assumptions': ASSUMPTIONS}
