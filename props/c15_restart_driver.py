"""Runs in a fresh interpreter (another PYTHONHASHSEED): the process restart of C15.

usage: python c15_restart_driver.py <job.json> <result.json>
Durable state = pickled compiled selectors written by the previous "incarnation"; after the restart they must
still be equal to fresh compiles of the same keys, hash equal, usable as set members, and select the same.
"""
import base64
import json
import os
import pickle
import sys
import warnings


def main():
    warnings.simplefilter('ignore')
    job = json.load(open(sys.argv[1]))
    sys.path.insert(0, job['repo'])
    sys.path.insert(0, job['verif'])
    import soupsieve as sv
    from sim import gen
    from props import c15
    assert os.path.abspath(sv.__file__).startswith(os.path.abspath(job['repo'])), sv.__file__
    import bs4
    doc = gen.build_doc(c15.FIXED_DOC)
    els = [e for e in doc.descendants if isinstance(e, bs4.Tag)]
    idx = {id(e): i for i, e in enumerate(els)}
    out = []
    for item in job['items']:
        key = item['key']
        rec = {'k': item['k']}
        try:
            obj = pickle.loads(base64.b64decode(item['pickle']))
        except Exception as e:  # noqa: BLE001
            rec['load_error'] = f'{type(e).__name__}: {e}'[:300]
            out.append(rec)
            continue
        try:
            fresh = sv.compile(key['pattern'], **c15.key_call_args(key))
        except Exception as e:  # noqa: BLE001
            rec['fresh_error'] = f'{type(e).__name__}: {e}'[:300]
            out.append(rec)
            continue
        try:
            rec['eq'] = bool(obj == fresh)
            rec['ne'] = bool(obj != fresh)
            rec['hash'] = hash(obj) == hash(fresh)
            rec['in_set'] = obj in {fresh}
            rec['parts_hash'] = all(
                hash(getattr(obj, a)) == hash(getattr(fresh, a)) for a in ('selectors', 'namespaces', 'custom', 'pattern', 'flags')
            )
            rec['select'] = [idx.get(id(e), -2) for e in obj.select(doc)] == [idx.get(id(e), -2) for e in fresh.select(doc)]
            again = pickle.loads(pickle.dumps(obj))
            rec['repickle'] = again == fresh and hash(again) == hash(fresh)
        except Exception as e:  # noqa: BLE001
            rec['error'] = f'{type(e).__name__}: {e}'[:300]
        out.append(rec)
    json.dump({'items': out, 'hashseed': os.environ.get('PYTHONHASHSEED')}, open(sys.argv[2], 'w'))


if __name__ == '__main__':
    main()
