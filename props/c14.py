"""C14 - concurrent compilation and matching behave as if run one at a time.

One run = 2-4 simulated caller threads, each with a short program of operations, executed
under the deterministic scheduler (sim.sched) with line/call-level pre-emption inside
soupsieve frames.  Oracles:

  a-result   every operation's result equals the result of that operation run alone
  b-cache    after the run, without purging, every key compiles to the reference; size <= bound
  c-deadlock all threads finish
"""
from __future__ import annotations

import math
import random
import sys

import json  # noqa: F401

from sim import env, fingerprint as fp, gen, ops, sched

PROP = 'C14'
MODES = ('dense', 'mixed', 'purge', 'match', 'sweep', 'msweep', 'msweep2')
BOUNDS = (1, 2, 3, 5, 8, 500)

# Patterns that pack the five "special" functional pseudo-classes densely (S1 of DESIGN.md).
SPECIAL_POOL = [
    ':nth-child(2n+1)', ':lang(en)', 'p:nth-of-type(2)', ':dir(ltr)', ':-soup-contains("a")',
    'div:nth-last-child(odd) > p:lang(de, "en-US")', ':nth-child(2 of p:lang(en))', ':not(:lang(fr)):nth-child(3)',
    'li:nth-last-of-type(-n+2)', ':-soup-contains-own(hello, world)', ':is(:dir(rtl), :lang("*-DE"))',
    'a:lang(en):nth-child(1):dir(ltr)', ':has(> :nth-child(2)):lang(de)', ':contains(x)',
]


# patterns that go through the internal HTML-only selector lists (whatever a changed tree does lazily or per purge
# with them happens while these are compiled)
PURGE_POOL = ['input:checked', ':default', ':link', ':any-link', ':read-only', ':read-write', ':disabled', ':enabled',
              ':required', ':optional', ':placeholder-shown', ':indeterminate', ':in-range', ':out-of-range',
              'p:nth-child(2)', ':is(:checked, :disabled)', ':not(:read-only)', 'form :default, a:link', ':root',
              ':lang(en)', ':dir(ltr)', 'option:checked:enabled']


def _seeded(rng):
    return random.Random(rng.getrandbits(64))


def gen_match_workload(rng):
    """Matching-dense workload: few selectors, 1-2 documents, every thread issues queries."""

    nthreads = rng.choice([2, 2, 3])
    docs = [gen.gen_doc(rng, max_size=rng.choice([10, 18, 28])) for _ in range(rng.choice([1, 1, 2]))]
    keys = []
    if rng.random() < 0.2 and docs[0].get('detach') is None:
        docs[0]['detach'] = rng.randint(0, 60)
    if any(d.get('detach') is not None for d in docs):
        # a parentless fragment shared by the threads: structural pseudo-classes on its root vs. questions about
        # the root and its ancestors
        for _ in range(rng.randint(2, 4)):
            pat = rng.choice(gen.ROOT_NTH_POOL + gen.DETACHED_POOL)
            keys.append({'pattern': pat, 'ns': None, 'custom': None, 'flags': 0, 'uses_scope': ':scope' in pat,
                         'special': 0})
    if {('xml' if d['parser'] == 'xml' else 'html') for d in docs} == {'xml', 'html'}:
        for _ in range(2):
            pat = rng.choice(gen.CASE_POOL)
            keys.append({'pattern': pat, 'ns': {'x': gen.NS_X} if pat.startswith('x|') else None, 'custom': None,
                         'flags': 0, 'uses_scope': False, 'special': 0})
    for d in docs:
        for feat in gen.markup_features(d['markup']):
            if rng.random() < 0.5:
                keys.append(gen.feature_key(rng, feat))
    while len(keys) < 2 or (len(keys) < 5 and rng.random() < 0.5):
        r = rng.random()
        if r < 0.5:
            keys.append({'pattern': rng.choice(gen.STATEFUL_POOL), 'ns': None, 'custom': None, 'flags': 0,
                         'uses_scope': False, 'special': 0})
        elif r < 0.65:
            pat, ns = rng.choice(gen.XML_STATEFUL_POOL)
            keys.append({'pattern': pat, 'ns': ns, 'custom': None, 'flags': 0, 'uses_scope': False, 'special': 0})
        else:
            keys.append(gen.gen_key(rng, selgen_kw={'simple': True, 'stateful_bias': 0.7, 'invalid': 0.03,
                                                     'lexical': 0.05}, ns_bias=0.25, custom_bias=0.15))
    keys = keys[:7]
    programs = []
    for _ in range(nthreads):
        prog = []
        for _ in range(rng.randint(1, 3)):
            kind = rng.choice(['select', 'select', 'iselect', 'match', 'match', 'filter', 'closest', 'closest', 'select_one'])
            op = {'op': kind, 'key': rng.randrange(len(keys)), 'doc': rng.randrange(len(docs)),
                  'target': -1 if rng.random() < 0.5 else rng.randint(0, 40),
                  'form': rng.choice(['module', 'compiled', 'precompiled', 'precompiled', 'bs4'])}
            if kind in ('select', 'iselect'):
                op['limit'] = rng.choice([0, 0, 0, 2])
            prog.append(op)
        programs.append(prog)
    return {'mode': 'match', 'keys': keys, 'docs': docs, 'programs': programs,
            'lower_pressure': rng.choice([0, 0, 0, 505, 511, 512, 600])}


def gen_workload(rng, mode):
    if mode == 'match':
        return gen_match_workload(rng)
    nthreads = rng.choice([2, 2, 2, 3, 3, 4])
    keys = []
    nkeys = rng.randint(2, 7)
    dense = mode == 'dense'
    for _ in range(nkeys):
        r = rng.random()
        if r < (0.55 if dense else 0.25):
            keys.append({'pattern': rng.choice(SPECIAL_POOL), 'ns': None, 'custom': None, 'flags': 0,
                         'uses_scope': False, 'special': 1})
        else:
            keys.append(gen.gen_key(
                rng, selgen_kw={'special_bias': 0.5 if dense else 0.15, 'invalid': 0.1},
                custom_bias=0.35, ns_bias=0.25
            ))
    # a shared custom map used by several keys (S6: shared CustomSelectors)
    if rng.random() < 0.3:
        cm = rng.choice([c for c in gen.CUSTOM_MAPS if c])
        names = list(cm)
        for _ in range(rng.randint(1, 3)):
            g = gen.SelGen(rng, custom_names=names, invalid=0.0)
            s = g.one()
            keys.append({'pattern': s.text if rng.random() < 0.5 else rng.choice(names), 'ns': None,
                         'custom': cm, 'flags': 0, 'uses_scope': s.uses_scope, 'special': s.special})
    if mode == 'purge':
        for _ in range(rng.randint(2, 4)):
            keys.append({'pattern': rng.choice(PURGE_POOL), 'ns': None, 'custom': None, 'flags': 0,
                         'uses_scope': False, 'special': 0})
    deep = None
    if rng.random() < 0.05:
        # a very deeply nested (far beyond the default recursion limit) pattern: whatever the library does about stack
        # depth for one caller must not reach into another caller's compile
        d = rng.choice([450, 600])
        keys.append({'pattern': ':is(' * d + 'p' + ')' * d, 'ns': None, 'custom': None, 'flags': 0, 'uses_scope': False,
                     'special': 0})
        deep = len(keys) - 1
    docs = []
    if not dense:
        for _ in range(rng.choice([1, 1, 2])):
            docs.append(gen.gen_doc(rng, max_size=30))
    programs = []
    for _ in range(nthreads):
        prog = []
        for _ in range(rng.randint(1, 6 if dense else 4)):
            k = rng.randrange(len(keys))
            if mode == 'purge' and rng.random() < 0.35:
                prog.append({'op': 'purge'})
            elif dense or rng.random() < (0.7 if mode == 'purge' else 0.45):
                prog.append({'op': 'compile', 'key': k})
            else:
                kind = rng.choice(ops.QUERY_OPS)
                op = {
                    'op': kind, 'key': k, 'doc': rng.randrange(len(docs)),
                    'target': rng.choice([-1, -1, rng.randint(0, 40)]),
                    'form': rng.choice(['module', 'module', 'compiled', 'precompiled', 'bs4']),
                }
                if kind in ('select', 'iselect'):
                    op['limit'] = rng.choice([0, 0, 0, 1, 2])
                prog.append(op)
        programs.append(prog)
    if mode == 'purge' and not any(o['op'] == 'purge' for p in programs for o in p):
        programs[rng.randrange(nthreads)].append({'op': 'purge'})
    if deep is not None:
        t = rng.randrange(1, nthreads) if nthreads > 1 else 0
        programs[t].insert(rng.randrange(len(programs[t]) + 1), {'op': 'compile', 'key': deep})
    return {'mode': mode, 'keys': keys, 'docs': docs, 'programs': programs,
            'lower_pressure': rng.choice([0, 0, 0, 505, 511, 512, 600]),
            # bytecode-granularity scheduling (sched.Sim(opcodes=True)) is implemented but switched off: per-opcode
            # tracing of generator-heavy code with several threads segfaults CPython 3.12.1 (2 of 18 runs)
            'opcodes': False}


def gen_policy_spec(rng, ref_steps):
    """Draw a schedule policy (as data) for this run."""

    r = rng.random()
    if r < 0.28:
        p = math.exp(rng.uniform(math.log(0.001), math.log(0.3)))
        return {'name': 'bernoulli', 'p': p}
    if r < 0.40:
        total = max(10, sum(sum(x) + len(x) + 1 for x in ref_steps))
        d = rng.choice([1, 2, 2, 3, 4])
        return {'name': 'pct', 'points': sorted(rng.randint(1, total) for _ in range(d - 1)),
                'seed': rng.getrandbits(32)}
    if r < 0.6:
        k = rng.choice([1, 1, 2, 2, 3])
        pts = []
        for _ in range(k):
            tid = rng.randrange(len(ref_steps))
            total = max(2, sum(ref_steps[tid]) + len(ref_steps[tid]) + 1)
            r2 = rng.random()
            hold = None if r2 < 0.45 else ('op' if r2 < 0.75 else rng.randint(1, 200))
            pts.append([tid, rng.randint(1, total), hold])
        return {'name': 'k-preempt', 'points': pts}
    if r < 0.85:
        return {'name': 'after-return', 'p': rng.choice([0.02, 0.05, 0.1, 0.3]),
                'p_other': rng.choice([0.0, 0.0, 0.002, 0.01])}
    return {'name': 'round-robin', 'q': rng.choice([1, 2, 3, 5, 8, 13, 34]), 'start': rng.randrange(4)}


def make_policy(spec, rng):
    n = spec['name']
    if n == 'bernoulli':
        return sched.Bernoulli(rng, spec['p'])
    if n == 'k-preempt':
        return sched.KPreempt(rng, {(a, b): c for a, b, c in spec['points']}, spec.get('first'),
                              {(a, fn, ln): [k, hold] for a, fn, ln, k, hold in spec.get('sites', ())})
    if n == 'after-return':
        return sched.AfterReturn(rng, spec['p'], spec.get('p_other', 0.0))
    if n == 'round-robin':
        return sched.RoundRobin(spec['q'], spec.get('start', 0))
    if n == 'pct':
        return sched.PCT(random.Random(spec.get('seed', 0)), spec.get('nthreads', 4), spec['points'])
    if n == 'replay':
        return sched.Replay(spec['segments'])
    raise ValueError(n)


class _Counter:
    """Counting-only tracer for the sequential reference pass (also notes the steps that directly follow the
    return of a traced callee: the generic position of a store-then-read / check-then-act window)."""

    def __init__(self, prefix):
        self.n = 0
        self.prefix = prefix
        self.after = False
        self.after_return_steps = []
        self.sites = {}     # (function, line) -> steps at which the site was reached (capped)

    def _site(self, frame):
        lst = self.sites.setdefault((frame.f_code.co_name, frame.f_lineno), [])
        if len(lst) < 400:
            lst.append(self.n)

    def glob(self, frame, event, arg):
        if event == 'call' and frame.f_code.co_filename.startswith(self.prefix):
            self.n += 1
            self.after = False
            self._site(frame)
            return self.local
        return None

    def local(self, frame, event, arg):
        if event == 'line':
            self.n += 1
            self._site(frame)
            if self.after:
                self.after_return_steps.append(self.n)
                self.after = False
        elif event == 'return':
            self.n += 1     # the simulator counts a step at 'return' events too
            self.after = True
        return self.local


def reference_pass(sv, ctx, workload, count_steps=True):
    """Every operation alone, from the canonical state."""

    prefix = env.repo_pkg_dir()
    ref = []
    steps = []
    for prog in workload['programs']:
        rr = []
        ss = []
        for op in prog:
            env.canonical_state(sv)
            if count_steps:
                c = _Counter(prefix)
                sys.settrace(c.glob)
                try:
                    res = ops.safe_run(ctx, op)
                finally:
                    sys.settrace(None)
                ss.append(c.n)
                if workload.get('mode') == 'sweep':
                    workload.setdefault('_after_return', {})[(len(ref), len(rr))] = c.after_return_steps
                elif workload.get('mode') in ('msweep', 'msweep2') and not ref and not rr:
                    workload['_sites'] = sorted([k[0], k[1], len(v)] for k, v in c.sites.items())
                elif workload.get('mode') == 'msweep2' and len(ref) == 1 and not rr:
                    g = _guarded_sites()
                    workload['_a_guarded'] = sorted({st for k, v in c.sites.items() if k in g for st in (v[0], v[-1])})
            else:
                res = ops.safe_run(ctx, op)
                ss.append(0)
            rr.append(res)
        ref.append(rr)
        steps.append(ss)
    ref_keys = []
    for k in range(len(workload['keys'])):
        env.canonical_state(sv)
        ref_keys.append(ops.safe_run(ctx, {'op': 'compile', 'key': k}))
    return ref, steps, ref_keys


def _proc_state():
    """Process-wide interpreter state that no library call may leave changed (the part of it a thread-unsafe
    save/restore idiom such as warnings.catch_warnings() or a temporarily raised recursion limit would tear)."""

    import warnings, gc, os, decimal, locale
    return {
        'warnings.filters': [repr(f) for f in warnings.filters],
        'recursionlimit': sys.getrecursionlimit(),
        'sys.path': list(sys.path),
        'meta_path': [type(f).__name__ if not isinstance(f, type) else f.__name__ for f in sys.meta_path],
        'gc': gc.isenabled(),
        'cwd': os.getcwd(),
        'environ': fp.h(sorted(os.environ.items())),
        'decimal': repr(decimal.getcontext()),
        'locale': locale.setlocale(locale.LC_ALL),
        'excepthook': getattr(sys.excepthook, '__name__', repr(type(sys.excepthook))),
        'showwarning': getattr(warnings.showwarning, '__module__', '?'),
    }


def _state_diff(a, b):
    return {k: [_j(a[k]), _j(b[k])] for k in a if a[k] != b[k]}


def _seq_state_child(sv, workload):
    """Do the same calls, one after the other, change the process state?  (Then it is not the interleaving's doing
    and C14 has nothing to say about it.)"""

    ctx = ops.Ctx(sv, workload['keys'], workload['docs'])
    for prog in workload['programs']:
        for op in prog:
            if op.get('form') == 'precompiled':
                ctx.precompile(op['key'])
    env.canonical_state(sv)
    before = _proc_state()
    for prog in workload['programs']:
        for op in prog:
            ops.safe_run(ctx, op)
    for k in range(len(workload['keys'])):
        ops.safe_run(ctx, {'op': 'compile', 'key': k})
    return sorted(_state_diff(before, _proc_state()))


def _reference_child(sv, workload, count_steps):
    ctx = ops.Ctx(sv, workload['keys'], workload['docs'])
    for prog in workload['programs']:
        for op in prog:
            if op.get('form') == 'precompiled':
                ctx.precompile(op['key'])
    try:
        with env.wall_guard(8.0):
            out = reference_pass(sv, ctx, workload, count_steps)
            if workload.get('mode') == 'sweep':
                out = tuple(out) + ({f'{a}:{b}': v for (a, b), v in workload.pop('_after_return', {}).items()},)
            elif workload.get('mode') in ('msweep', 'msweep2'):
                out = tuple(out) + (workload.pop('_sites', []), workload.pop('_a_guarded', []))
            return out
    except env.SlowOperation:
        sys.settrace(None)
        return {'discarded': 'slow-operation-in-reference-pass'}


def execute(sv, workload, policy_spec, sched_seed=0, bound=None, docs=None, count_steps=True, ref_pack=None):
    """Run one workload under one schedule.  Returns a result dict (pure data)."""

    # The "run alone" reference is computed in a forked child, so that this process reaches the concurrent run without
    # having used the library at all: races that only exist at FIRST use (lazy initialisation) stay reachable.
    from sim import runner
    if ref_pack is not None:
        got = ref_pack
    else:
        try:
            got = runner.isolated(_reference_child, sv, workload, count_steps, hang_s=20)
        except runner.IsolatedTimeout:
            return {'discarded': 'reference-pass-killed-at-deadline(stuck-in-C-code)'}
    if isinstance(got, dict):
        return got
    ref, ref_steps, ref_keys = got[:3]
    ctx = ops.Ctx(sv, workload['keys'], workload['docs'], docs=docs)
    # 'precompiled' forms are prepared outside the simulated run
    for prog in workload['programs']:
        for op in prog:
            if op.get('form') == 'precompiled':
                ctx.precompile(op['key'])
    if policy_spec is None:
        return {'ref': ref, 'ref_steps': ref_steps}
    if callable(policy_spec):
        policy_spec = policy_spec(ref_steps)
    env.canonical_state(sv)
    pressure = workload.get('lower_pressure', 0)
    if pressure:
        # fill the shared lower-casing cache (bound 512) through the public helper, so that insertions made during
        # the concurrent run have to evict
        low = sys.modules['soupsieve.util'].lower
        for j in range(pressure):
            low('Pad%dX' % j)
    if policy_spec.get('name') == 'pct':
        policy_spec['nthreads'] = len(workload['programs'])
    policy = make_policy(policy_spec, random.Random(sched_seed))
    programs = [[(lambda s, tid, o=op: ops.run_op(ctx, o)) for op in prog] for prog in workload['programs']]
    kinds = [[('compile' if op['op'] == 'compile' else ('purge' if op['op'] == 'purge' else 'query')) for op in prog]
             for prog in workload['programs']]
    sim = sched.Sim(programs, policy, prefix=env.repo_pkg_dir(), op_kinds=kinds,
                    opcodes=bool(workload.get('opcodes')), max_steps=12_000_000,
                    record_sites=policy_spec.get('record_sites'))
    state_before = _proc_state()
    try:
        sim.run()
    except sched.HarnessError as e:
        if 'did not finish within' in str(e):
            # the run outlasted its wall-clock allowance (a very deep recursion under the tracer, or a loop that a
            # changed tree got itself into): it has no outcome; it is counted, and too many of them are a harness error
            return {'discarded': 'simulation-exceeded-its-wall-clock-allowance'}
        raise

    violation = None
    if sim.deadlock:
        violation = {'oracle': 'c-deadlock', 'detail': 'all unfinished threads blocked'}
    if violation is None:
        for t, rr in enumerate(ref):
            for i, r in enumerate(rr):
                if r[0] == 'exc' and r[1] == 'SimDeadlock':
                    violation = {'oracle': 'c-deadlock', 'thread': t, 'op_index': i, 'op': workload['programs'][t][i],
                                 'detail': 'a call made alone, after the preceding sequential calls, tried to take a '
                                           'lock that an earlier call never released: it would never return'}
                    break
            if violation:
                break
    if violation is None:
        for t in sim.threads:
            for i, res in enumerate(t.results):
                if res != ref[t.idx][i]:
                    violation = {
                        'oracle': 'a-result', 'thread': t.idx, 'op_index': i,
                        'op': workload['programs'][t.idx][i],
                        'expected': _j(ref[t.idx][i]), 'observed': _j(res),
                    }
                    break
            if violation:
                break
    cache_sizes = None
    if violation is None:
        used = sorted({op['key'] for prog in workload['programs'] for op in prog if 'key' in op})
        for k in used:
            again = ops.safe_run(ctx, {'op': 'compile', 'key': k})
            if again != ref_keys[k]:
                violation = {
                    'oracle': 'b-cache', 'key': k, 'pattern': workload['keys'][k]['pattern'],
                    'expected': _j(ref_keys[k]), 'observed': _j(again),
                }
                break
        ch = env.cache_handle(sv)
        if ch is not None and violation is None:
            ci = ch.cache_info()
            cache_sizes = (ci.currsize, ci.maxsize)
            if ci.maxsize is None or ci.currsize > ci.maxsize:
                violation = {'oracle': 'b-cache', 'detail': f'currsize={ci.currsize} maxsize={ci.maxsize}'}

    if violation is None:
        changed = _state_diff(state_before, _proc_state())
        if changed:
            try:
                alone = runner.isolated(_seq_state_child, sv, workload, hang_s=20)
            except runner.IsolatedTimeout:
                alone = None
            if alone is not None and not isinstance(alone, dict):
                changed = {k: v for k, v in changed.items() if k not in alone}
                if changed:
                    violation = {'oracle': 'd-process-state',
                                 'detail': 'process-wide interpreter state differs after the concurrent calls, and '
                                           'the same calls made one after the other leave it alone',
                                 'changed': changed}

    same_key = 0
    for a, b in _overlaps(sim):
        same_key += 1
    res_digest = fp.h([[r for r in t.results] for t in sim.threads])
    digest = fp.h((sim.events, res_digest, sim.segments), 12)
    probes = dict(sim.probes)
    return {
        'violation': violation,
        'digest': digest,
        'segments': [list(s) for s in sim.segments],
        'policy': policy_spec,
        'steps': sim.gstep,
        'switches': sim.switches,
        'preempts': sum(1 for s in sim.segments if s[2] == 'p'),
        'sig': fp.h(sim.switch_sig),
        'switch_trace': [list(x) for x in sim.switch_sig[:60]],
        'overlap': probes.get('two_ops_overlapped', 0) > 0,
        'sites': sorted(sim.sites),
        'probes': probes,
        'ref_steps': ref_steps,
        'cache': cache_sizes,
        'nthreads': len(sim.threads),
        'nops': sum(len(p) for p in workload['programs']),
        'site_visits': sorted([k[0], k[1], v] for k, v in sim.site_visits.items()),
    }


def _overlaps(sim):
    return ()


def _j(x):
    """JSON-able rendering of a fingerprint."""
    if isinstance(x, tuple):
        return [_j(i) for i in x]
    return x


# ---------------------------------------------------------------------------
# systematic depth-1 sweep: one whole peer operation injected at every step of a victim operation
# ---------------------------------------------------------------------------

_SWEEP_DOC = {
    'markup': ('<html lang="en"><head><meta http-equiv="content-language" content="de"></head><body><form><input '
               'type="radio" name="r" checked><input type="radio" name="R"><input type="submit"></form><div dir="rtl">'
               '<p class="a">hello</p><p lang="de">x</p><a href="#x">l</a></div><ul><li>1</li><li>2</li></ul></body></html>'),
    'parser': 'html.parser', 'mut': [],
}
_SWEEP_CUSTOM = {':--a': ':--b > span', ':--b': 'div, section', ':--c': ':--a:not(:--b)'}


def sweep_pairs():
    """Deterministic catalogue of (victim operation, injected peer operation) pairs."""

    pats = PURGE_POOL[:12] + SPECIAL_POOL[:7]
    keys = [{'pattern': p_, 'ns': None, 'custom': None, 'flags': 0} for p_ in pats]
    keys.append({'pattern': ':--c, :--a', 'ns': None, 'custom': _SWEEP_CUSTOM, 'flags': 0})
    keys.append({'pattern': 'p:--b', 'ns': None, 'custom': _SWEEP_CUSTOM, 'flags': 0})
    kc, kc2 = len(keys) - 2, len(keys) - 1
    pairs = []
    for k in range(len(pats)):
        victim = {'op': 'compile', 'key': k}
        other = (k + 5) % len(pats)
        for peer in ({'op': 'purge'}, {'op': 'compile', 'key': k}, {'op': 'compile', 'key': other}):
            pairs.append((victim, peer))
    for peer in ({'op': 'purge'}, {'op': 'compile', 'key': kc}, {'op': 'compile', 'key': kc2}):
        pairs.append(({'op': 'compile', 'key': kc}, peer))
    for k in (1, 11, 13, 14, 18):
        victim = {'op': 'select', 'key': k, 'doc': 0, 'target': -1, 'form': 'module', 'limit': 0}
        for peer in ({'op': 'purge'}, {'op': 'select', 'key': k, 'doc': 0, 'target': -1, 'form': 'module', 'limit': 0},
                     {'op': 'match', 'key': (k + 3) % len(pats), 'doc': 0, 'target': 6, 'form': 'compiled'}):
            pairs.append((victim, peer))
    # purge-by-peer pairs first (the quick tier sweeps only those), then same-key peers, then the rest
    def rank(pp):
        v, q = pp
        if q['op'] == 'purge':
            return 0
        if q.get('key') == v.get('key'):
            return 1
        return 2
    pairs.sort(key=rank)
    return keys, pairs


SWEEP_BATCH = 20


def run_sweep(sv, index, bound, active=None):
    """Run number ``index`` of the sweep: pair index % npairs, batch index // npairs of that pair's injection points
    (points right after a callee returned first, then all the others)."""

    from sim import runner
    keys, pairs = sweep_pairs()
    if active:
        pairs = pairs[:active]
    pi, batch = index % len(pairs), index // len(pairs)
    victim, peer = pairs[pi]
    workload = {'mode': 'sweep', 'keys': keys, 'docs': [_SWEEP_DOC], 'programs': [[victim], [peer]],
                'lower_pressure': 0, 'opcodes': False, 'pair': pi}
    try:
        got = runner.isolated(_reference_child, sv, workload, True, hang_s=20)
    except runner.IsolatedTimeout:
        return {'discarded': 'reference-pass-killed-at-deadline(stuck-in-C-code)'}
    if isinstance(got, dict):
        return got
    length = got[1][0][0]
    first = list(got[3].get('0:0', []))
    rest = [s_ for s_ in range(1, length + 2) if s_ not in set(first)]
    points = (first + rest)[batch * SWEEP_BATCH:(batch + 1) * SWEEP_BATCH]
    res = None
    digests = []
    tot_steps = tot_sw = 0
    for st in points:
        # thread steps count the thread's 'start' step too, operation steps do not
        spec = {'name': 'k-preempt', 'points': [[0, st + 1, 'op']], 'first': 0}
        try:
            r = runner.isolated(execute, sv, workload, spec, 0, bound, None, False, got[:3], hang_s=60)
        except runner.IsolatedTimeout:
            continue
        if r.get('discarded'):
            continue
        digests.append(r['digest'])
        tot_steps += r['steps']
        tot_sw += r['switches']
        if res is None or (r['violation'] and not res['violation']):
            res = r
        if r['violation']:
            break
    if res is None:
        # beyond the end of this pair's victim operation: nothing left to inject
        return {'discarded': 'sweep-batch-beyond-end-of-operation'}
    res = dict(res)
    res['steps'] = tot_steps
    res['switches'] = tot_sw
    if not res['violation']:
        res['digest'] = fp.h(digests, 12)
    res['probes'] = dict(res['probes'])
    res['probes']['sweep_injection_points'] = len(digests)
    res['probes']['sweep_after_return_points'] = sum(1 for st in points if st in set(first))
    res['workload'] = workload
    res['bound'] = bound
    res['sweep'] = {'pair': pi, 'batch': batch, 'victim': victim, 'peer': peer, 'victim_steps': length,
                    'after_return_points': len(first)}
    return res


# ---------------------------------------------------------------------------
# matcher-side site sweep: the victim is a query, parked once at every distinct code site it reaches (first time it
# gets there, and once more half-way through its visits) while a peer runs one whole query of the same family
# ---------------------------------------------------------------------------

_MSWEEP_DOCS = [
    _SWEEP_DOC,
    {'markup': ('<html lang="de"><head><meta http-equiv="content-language" content="en"></head><body><form><input '
                'type="radio" name="r"><input type="radio" name="R" checked><input type="submit"><input type="number" '
                'min="1" max="4" value="9" required></form><div dir="ltr"><p class="a" lang="en">x</p><p>hello</p><p '
                'class="a b">hello world</p><a href="#y">m</a></div><ul><li class="a">1</li><li>2</li><li class="a">3</li>'
                '<li>4</li><li>5</li></ul></body></html>'),
     'parser': 'html.parser', 'mut': []},
]
_MSWEEP_DOCS.append({'markup': '<div class="a b"><p>one</p><p lang="en">two</p><form><input type="radio" name="q"></form>'
                               '<span>t</span></div>', 'parser': 'html.parser', 'mut': [], 'detach': 0})
MSWEEP_FAMILIES = [
    ('lang', [':lang(de)', ':lang(en)', 'p:lang("*-DE", en)', ':not(:lang(de))', ':lang(fr, de, en)']),
    ('nth', ['li:nth-child(odd)', 'li:nth-child(2n+1)', 'p:nth-of-type(2)', ':nth-child(2 of .a)', ':nth-last-child(-n+2)']),
    ('dir', [':dir(rtl)', ':dir(ltr)', 'p:dir(ltr)']),
    ('form', [':default', ':indeterminate', ':checked', ':in-range, :out-of-range', ':required']),
    ('attr', ['[type=radio]', '[type="RADIO" i]', '[class~=a]', '[href^="#"]', '[lang|=de]']),
    ('text', [':-soup-contains(hello)', ':-soup-contains-own(x)', 'p:empty, li:not(:empty)']),
    ('rel', [':has(> p)', 'div > p', 'p ~ a', ':not(div p)', ':is(p, a):first-child', 'li:has(+ li.a)']),
    ('root', [':root', ':root > body', 'html:first-child', ':root :link']),
]
MSWEEP_DETACHED_PATTERNS = [':first-child *', ':nth-child(1) > p', ':only-child, :nth-last-child(1) *', ':root', '* > p', ':root > *',
                            'p:not(* > p)', ':first-child']
MSWEEP_ERROR_PATTERNS = ['div >\n  p:nth-child(foo)\n  , a', 'ul li\n a[href\n=x', 'p,\n\n,a', ':is(p, :not(\n  span!))\n', 'div > p.a:lang(en)']
MSWEEP_BATCH = 40


def msweep_pairs(core=False):
    """core=True: the quick tier's subset (every pattern as victim against itself on another document + the error
    family); the other pair shapes belong to the thorough tier."""
    keys = []
    pairs = []
    for fam, pats in MSWEEP_FAMILIES:
        base = len(keys)
        keys.extend({'pattern': p_, 'ns': None, 'custom': None, 'flags': 0} for p_ in pats)
        k0, k1 = base, base + 1
        q = lambda op, k, d, t=-1, form='precompiled': dict(  # noqa: E731
            {'op': op, 'key': k, 'doc': d, 'target': t, 'form': form}, **({'limit': 0} if op == 'select' else {}))
        # same pattern on another document, the shared state primed with a sibling pattern first (every pattern of the
        # family takes the victim's role once: multi-part patterns have windows that single-part ones do not)
        for j in range(len(pats)):
            kj, ks = base + j, base + (j + 1) % len(pats)
            pairs.append((fam, q('select', kj, j % 2), q('select', kj, 1 - j % 2), q('select', ks, 1 - j % 2) if j % 3 != 2 else None))
        if core:
            continue
        # a sibling pattern asked about one element while the victim walks the document
        pairs.append((fam, q('select', k0, 0), q('match', k1, 0, 9), None))
        # the victim asks about one element (and compiles inside the call), the peer selects with the same pattern
        pairs.append((fam, q('match', k0, 1, 12, 'module'), q('select', k0, 0, -1, 'compiled'), None))
        if len(pats) > 2:
            pairs.append((fam, q('select', base + 2, 1), q('closest', base + 2, 0, 14), q('filter', k0, 0)))
    # a parentless fragment shared by both threads: structural questions about its root (for which the matcher has to
    # invent a parent) against questions about the root, its parent and its ancestors - on the SAME tree
    base = len(keys)
    keys.extend({'pattern': p_, 'ns': None, 'custom': None, 'flags': 0} for p_ in MSWEEP_DETACHED_PATTERNS)
    n = len(MSWEEP_DETACHED_PATTERNS)
    for j in range(n):
        pairs.append(('detached', q('select', base + j, 2), q('select' if j % 2 else 'match', base + (j + 3) % n, 2), None))
    # the error / diagnostic path of compilation: two threads being told what is wrong with their (different or same)
    # malformed patterns at the same time; each must get the message, context, line and column of its own pattern
    base = len(keys)
    keys.extend({'pattern': p_, 'ns': None, 'custom': None, 'flags': 0} for p_ in MSWEEP_ERROR_PATTERNS)
    c = lambda k: {'op': 'compile', 'key': base + k}  # noqa: E731
    pairs.extend([('error', c(0), c(1), None), ('error', c(0), c(0), None), ('error', c(1), c(2), c(0)),
                  ('error', c(2), c(4), None), ('error', c(4), c(0), None), ('error', c(3), c(1), c(2))])
    return keys, pairs


def run_msweep(sv, index, bound, core=False):
    from sim import runner
    keys, pairs = msweep_pairs(core)
    pi, batch = index % len(pairs), index // len(pairs)
    fam, victim, peer, prime = pairs[pi]
    workload = {'mode': 'msweep', 'keys': keys, 'docs': _MSWEEP_DOCS, 'programs': [[victim], ([prime] if prime else []) + [peer]],
                'lower_pressure': 0, 'opcodes': False, 'pair': pi, 'family': fam}
    try:
        got = runner.isolated(_reference_child, sv, workload, True, hang_s=20)
    except runner.IsolatedTimeout:
        return {'discarded': 'reference-pass-killed-at-deadline(stuck-in-C-code)'}
    if isinstance(got, dict):
        return got
    length = got[1][0][0]
    sites = got[3]      # [function, line, visits] of the victim query run alone
    # every site at its first visit, then half-way through its visits, then at its last visit
    # (sites visited only a few times are the two-step publications and short loops: their later visits come before
    # those of the per-element loops)
    allp = ([[fn, ln, 1] for fn, ln, n in sites] + [[fn, ln, n // 2 + 1] for fn, ln, n in sites if 1 < n <= 6]
            + [[fn, ln, n // 2 + 1] for fn, ln, n in sites if n > 6] + [[fn, ln, n] for fn, ln, n in sites if n > 2])
    points = allp[batch * MSWEEP_BATCH:(batch + 1) * MSWEEP_BATCH]
    if not points:
        return {'discarded': 'sweep-batch-beyond-end-of-operation'}
    res = None
    digests = []
    tot_steps = tot_sw = 0
    for fn, ln, k in points:
        # the peer's priming query (if any) runs right after the victim's call has begun
        spec = {'name': 'k-preempt', 'points': [[0, 2, 'op']] if prime else [], 'sites': [[0, fn, ln, k, 'op']], 'first': 0}
        try:
            r = runner.isolated(execute, sv, workload, spec, 0, bound, None, False, got[:3], hang_s=60)
        except runner.IsolatedTimeout:
            continue
        if r.get('discarded'):
            continue
        digests.append(r['digest'])
        tot_steps += r['steps']
        tot_sw += r['switches']
        if res is None or (r['violation'] and not res['violation']):
            res = r
        if r['violation']:
            break
    if res is None:
        return {'discarded': 'sweep-batch-beyond-end-of-operation'}
    res = dict(res)
    res['steps'] = tot_steps
    res['switches'] = tot_sw
    if not res['violation']:
        res['digest'] = fp.h(digests, 12)
    res['probes'] = dict(res['probes'])
    res['probes']['msweep_injection_points'] = len(digests)
    res['probes']['msweep_distinct_sites_of_victim'] = len(sites) if batch == 0 else 0
    res['workload'] = workload
    res['bound'] = bound
    res['sweep'] = {'kind': 'matcher-site-sweep', 'pair': pi, 'family': fam, 'batch': batch, 'victim': victim, 'peer': peer,
                    'prime': prime, 'victim_steps': length, 'distinct_sites': len(sites), 'points_total': len(allp)}
    return res


# ---------------------------------------------------------------------------
# depth-2 site sweep: thread A is parked part-way through its operation (so that whatever it holds only while it
# runs is alive), thread B runs up to one of its code sites and is parked there, A runs to completion (releasing what
# it held), B resumes - the check-then-act windows whose check is only true WHILE a peer is mid-operation
# ---------------------------------------------------------------------------

_NS = {'h': gen.NS_XHTML, 'x': gen.NS_X}
MSWEEP2_KEYS = [
    {'pattern': 'x|item > h|p:nth-child(foo)', 'ns': _NS, 'custom': None, 'flags': 0},       # 0 malformed, namespaces
    {'pattern': 'x|item h|p.a', 'ns': dict(_NS), 'custom': None, 'flags': 0},                  # 1 valid, equal namespaces
    {'pattern': ':--c, :--a', 'ns': None, 'custom': _SWEEP_CUSTOM, 'flags': 0},                # 2 alias chain
    {'pattern': 'p:--b', 'ns': None, 'custom': dict(_SWEEP_CUSTOM), 'flags': 0},               # 3 equal custom map
    {'pattern': 'div > p.a:lang(en)', 'ns': None, 'custom': None, 'flags': 0},                 # 4 plain
    {'pattern': 'ul li\n a[href\n=x', 'ns': None, 'custom': None, 'flags': 0},                 # 5 malformed, plain
    {'pattern': ':--undefined p', 'ns': dict(_NS), 'custom': dict(_SWEEP_CUSTOM), 'flags': 0},  # 6 fails late, both maps
    {'pattern': 'p:contains(a)', 'ns': None, 'custom': None, 'flags': 0},                      # 7 deprecated spelling (warns)
    {'pattern': 'div :contains("b c", d)', 'ns': None, 'custom': None, 'flags': 0},            # 8 deprecated spelling (warns)
    {'pattern': 'a:contains(x):nth-child(2n of :dir(ltr)):lang(en)', 'ns': None, 'custom': None, 'flags': 0},  # 9 all special forms
]
MSWEEP2_BATCH = 40
MSWEEP2_FRACTIONS = (0.25, 0.6, 0.9)


_GUARDED = None


def _guarded_sites():
    """(function, line) of every source line inside a `with` body or inside a try body that has a finally clause:
    the save / restore (enter / exit) regions.  Two threads inside the same region that leave it in the order they
    entered it are the schedule a thread-unsafe save/restore idiom needs."""

    global _GUARDED
    if _GUARDED is None:
        import ast
        import os
        out = set()
        d = env.repo_pkg_dir()
        for fn in sorted(os.listdir(d)):
            if not fn.endswith('.py'):
                continue
            try:
                tree = ast.parse(open(os.path.join(d, fn), encoding='utf-8').read())
            except (OSError, SyntaxError):
                continue
            for f in ast.walk(tree):
                if isinstance(f, (ast.FunctionDef, ast.AsyncFunctionDef)):
                    for n in ast.walk(f):
                        if isinstance(n, (ast.With, ast.AsyncWith)) or (isinstance(n, ast.Try) and n.finalbody):
                            lo, hi = n.body[0].lineno, (n.body[-1].end_lineno or n.body[-1].lineno)
                            out.update((f.name, ln) for ln in range(lo, hi + 1))
        _GUARDED = out
    return _GUARDED


def msweep2_pairs():
    c = lambda k: {'op': 'compile', 'key': k}  # noqa: E731
    sel = lambda k: {'op': 'select', 'key': k, 'doc': 0, 'target': -1, 'form': 'module', 'limit': 0}  # noqa: E731
    # (B = the thread swept over its sites, A = the thread parked mid-operation and completed inside B's gap)
    return [(c(1), c(0)), (c(3), c(2)), (c(4), c(4)), (sel(4), sel(4)), (c(5), c(5)), (c(1), c(6)), (c(3), c(6)), (c(0), c(0)),
            (c(7), c(8)), (c(9), c(9))]


def run_msweep2(sv, index, bound):
    from sim import runner
    pairs = msweep2_pairs()
    combos = len(pairs) * (len(MSWEEP2_FRACTIONS) + 1)
    ci, batch = index % combos, index // combos
    pi, fi = ci % len(pairs), ci // len(pairs)
    b_op, a_op = pairs[pi]
    workload = {'mode': 'msweep2', 'keys': MSWEEP2_KEYS, 'docs': [_SWEEP_DOC], 'programs': [[b_op], [a_op]],
                'lower_pressure': 0, 'opcodes': False, 'pair': pi}
    try:
        got = runner.isolated(_reference_child, sv, workload, True, hang_s=20)
    except runner.IsolatedTimeout:
        return {'discarded': 'reference-pass-killed-at-deadline(stuck-in-C-code)'}
    if isinstance(got, dict):
        return got
    a_len = got[1][1][0]
    guarded_slot = fi >= len(MSWEEP2_FRACTIONS)
    if guarded_slot:
        # A is parked INSIDE a save/restore region (a `with` body, a try body with a finally clause) and B at the sites
        # of such regions: both inside, and the one that entered first leaves first
        if batch:
            return {'discarded': 'sweep-batch-beyond-end-of-operation'}
        a_steps = sorted({x for st in got[4] for x in (st, st + 1) if 2 <= x < a_len})[:16]
        if not a_steps:
            return {'discarded': 'sweep-batch-beyond-end-of-operation'}
    else:
        a_steps = [max(2, int(a_len * MSWEEP2_FRACTIONS[fi]))]
    res = None
    digests = []
    tot_steps = tot_sw = 0
    nsites = npoints = 0
    for a_step in a_steps:
        # which code sites does B reach WHILE A is parked mid-operation?  (Paths that only exist then - the "somebody
        # else is already at it" branches - are invisible when B runs alone.)
        try:
            r0 = runner.isolated(execute, sv, workload, {'name': 'k-preempt', 'points': [[1, a_step + 1, None]], 'first': 1,
                                                         'record_sites': 0}, 0, bound, None, False, got[:3], hang_s=60)
        except runner.IsolatedTimeout:
            if guarded_slot:
                continue
            return {'discarded': 'reference-pass-killed-at-deadline(stuck-in-C-code)'}
        if r0.get('discarded'):
            if guarded_slot:
                continue
            return r0
        if r0.get('violation'):
            r0 = dict(r0)
            r0['workload'] = workload
            r0['bound'] = bound
            return r0
        sites = r0['site_visits']
        if guarded_slot:
            g = _guarded_sites()
            points = [[fn, ln, 1] for fn, ln, n in sites if (fn, ln) in g]
            allp = points
        else:
            allp = [[fn, ln, 1] for fn, ln, n in sites] + [[fn, ln, 2] for fn, ln, n in sites if n > 1]
            points = allp[batch * MSWEEP2_BATCH:(batch + 1) * MSWEEP2_BATCH]
            if not points:
                return {'discarded': 'sweep-batch-beyond-end-of-operation'}
        nsites, npoints = len(sites), npoints + len(allp)
        for fn, ln, k in points:
            # A starts, is parked at a_step (the other thread runs until it finishes or is itself parked), B is parked
            # at its site (A then runs to completion), B resumes
            spec = {'name': 'k-preempt', 'points': [[1, a_step + 1, None]], 'sites': [[0, fn, ln, k, None]], 'first': 1}
            try:
                r = runner.isolated(execute, sv, workload, spec, 0, bound, None, False, got[:3], hang_s=60)
            except runner.IsolatedTimeout:
                continue
            if r.get('discarded'):
                continue
            digests.append(r['digest'])
            tot_steps += r['steps']
            tot_sw += r['switches']
            if res is None or (r['violation'] and not res['violation']):
                res = r
            if r['violation']:
                break
        if res is not None and res['violation']:
            break
    if res is None:
        return {'discarded': 'sweep-batch-beyond-end-of-operation'}
    res = dict(res)
    res['steps'] = tot_steps
    res['switches'] = tot_sw
    if not res['violation']:
        res['digest'] = fp.h(digests, 12)
    res['probes'] = dict(res['probes'])
    res['probes']['msweep2_injection_points'] = len(digests)
    res['workload'] = workload
    res['bound'] = bound
    res['sweep'] = {'kind': 'depth-2-site-sweep', 'pair': pi, 'batch': batch, 'swept': b_op, 'parked_then_completed': a_op,
                    'parked_at_step': a_step, 'of_steps': a_len, 'distinct_sites': nsites, 'points_total': npoints,
                    'slot': 'save-restore-regions' if guarded_slot else MSWEEP2_FRACTIONS[fi]}
    return res


def run_seeded(sv, run_seed, mode, bound, index=None, active=None):
    """One seeded run: workload, policy and schedule all derive from ``run_seed``."""

    if mode == 'msweep2':
        res = run_msweep2(sv, index or 0, bound)
        res['run_seed'] = run_seed
        return res
    if mode == 'msweep':
        res = run_msweep(sv, index or 0, bound, core=bool(active))
        res['run_seed'] = run_seed
        return res
    if mode == 'sweep':
        res = run_sweep(sv, index or 0, bound, active)
        res['run_seed'] = run_seed
        return res

    rng = random.Random(run_seed)
    workload = gen_workload(rng, mode)
    prng = _seeded(rng)
    sseed = rng.getrandbits(64)
    res = execute(sv, workload, lambda ref_steps: gen_policy_spec(prng, ref_steps), sseed, bound)
    res['workload'] = workload
    res['bound'] = bound
    res['run_seed'] = run_seed
    return res


def replay(sv, rec):
    """Re-execute a recorded run exactly (explicit workload + explicit segments)."""

    spec = {'name': 'replay', 'segments': rec['segments']}
    res = execute(sv, rec['workload'], spec, 0, rec.get('bound'), count_steps=False)
    res['workload'] = rec['workload']
    res['bound'] = rec.get('bound')
    return res


# ---------------------------------------------------------------------------
# batch interface (sim.driver / sim.runner)
# ---------------------------------------------------------------------------

def plan(tier):
    if tier == 'thorough':
        scale, budget = 28, 1500
    else:
        # the three systematic sweeps take ~55 s of the quick budget on 16 cores; the rest is seeded sampling
        scale, budget = 1, 150
    cfgs = []

    def add(mode, bound, nruns, chunk):
        cfgs.append({'name': f'{mode}-k{bound}', 'mode': mode, 'bound': bound, 'nruns': nruns * scale, 'chunk': chunk})

    add('dense', 3, 2500, 50)
    add('dense', 500, 1200, 50)
    add('dense', 1, 1200, 50)
    add('mixed', 2, 600, 25)
    add('mixed', 500, 600, 25)
    add('mixed', 5, 300, 25)
    add('purge', 3, 900, 25)
    add('purge', 8, 450, 25)
    add('match', 500, 700, 20)
    add('match', 2, 300, 20)
    # systematic depth-1 sweep (one whole peer operation injected at every step of a victim operation): the thorough
    # tier walks the whole catalogue, the quick tier the purge-by-peer pairs (after-return points first)
    cfgs.append({'name': 'sweep-k500', 'mode': 'sweep', 'bound': 500, 'chunk': 12,
                 'nruns': 25 * 14 if tier != 'thorough' else 75 * 190, 'pairs': 25 if tier != 'thorough' else 75})
    # matcher-side site sweep: every pair's victim query is parked once (thorough: up to three times) at every distinct
    # (function, line) site it reaches while the peer runs a whole query of the same family
    npairs = len(msweep_pairs(tier != 'thorough')[1])
    cfgs.append({'name': 'msweep-k500', 'mode': 'msweep', 'bound': 500, 'chunk': 8, 'pairs': 1 if tier != 'thorough' else 0,
                 'nruns': npairs * (9 if tier != 'thorough' else 17)})
    # the systematic sweeps are dispatched first in every round: a deadline cut then only shortens the random sampling
    # depth-2 site sweep (8 pairs x 3 parking points of the peer x the sites of the swept thread)
    combos = len(msweep2_pairs()) * (len(MSWEEP2_FRACTIONS) + 1)
    cfgs.append({'name': 'msweep2-k500', 'mode': 'msweep2', 'bound': 500, 'chunk': 6,
                 'nruns': combos * (9 if tier != 'thorough' else 22)})
    for c in cfgs:
        if c['mode'] in ('sweep', 'msweep', 'msweep2'):
            c['priority'] = True
            c['det_runs'] = 3
    return {'budget_s': budget, 'configs': cfgs, 'minimise_budget': 300}


def make_record(res, cfg=None, index=None):
    return {
        'property': PROP,
        'config': cfg,
        'index': index,
        'run_seed': res.get('run_seed'),
        'bound': res.get('bound'),
        'workload': res['workload'],
        'segments': res['segments'],
        'faults': [],
        'policy': {k: v for k, v in (res.get('policy') or {}).items() if k != 'segments'},
        'switch_trace': res.get('switch_trace'),
        'sweep': res.get('sweep'),
        'violation': res['violation'],
        'digest': res['digest'],
        'steps': res['steps'],
        'cost': res['steps'],
        'versions': env.versions(),
        'granularity': ('pre-emption at BYTECODE boundaries inside soupsieve frames (finer than the GIL hands over on '
                        'CPython 3.12; realisable on free-threaded builds)' if res['workload'].get('opcodes') else
                        'pre-emption at line/call events inside soupsieve frames; C code atomic (GIL)'),
    }


def run_chunk(task, agg):
    if task.get('kind') == 'minimise':
        rec = task['rec']
        sv = env.load_soupsieve(cache_bound=rec.get('bound'))
        agg.extra.append(minimise_record(sv, rec, task.get('budget', 300)))
        return
    from sim import runner
    cfg = task['config']
    sv = env.load_soupsieve(cache_bound=cfg['bound'])
    for i in task['indices']:
        runner.merge_isolated(agg, f"{cfg['name']}:{i}", _one_run, sv, task['verif_seed'], cfg, i, len(agg.samples))


def _one_run(sv, verif_seed, cfg, i, nsamples):
    """One seeded run, in a forked child (see runner.isolated); returns a small Agg."""

    from sim import runner
    agg = runner.Agg()
    seed = _derive(verif_seed, cfg['name'], i)
    res = run_seeded(sv, seed, cfg['mode'], cfg['bound'], index=i, active=cfg.get('pairs'))
    if res.get('discarded') == 'sweep-batch-beyond-end-of-operation':
        # the pair's victim operation has fewer steps than this batch index reaches: nothing left to inject
        agg.count('probe:sweep_batches_beyond_end')
        agg.digests[f"{cfg['name']}:{i}"] = 'beyond-end'
        return agg
    if res.get('discarded'):
        agg.count('discarded:' + res['discarded'])
        agg.digests[f"{cfg['name']}:{i}"] = 'discarded'
        return agg
    agg.runs += 1
    agg.digests[f"{cfg['name']}:{i}"] = res['digest']
    agg.count('steps', res['steps'])
    agg.count('switches', res['switches'])
    agg.count('preempts', res['preempts'])
    agg.count('ops', res['nops'])
    agg.count('policy:' + res['policy']['name'])
    agg.count('mode:' + cfg['mode'])
    agg.count('bound:%s' % cfg['bound'])
    agg.count('threads:%d' % res['nthreads'])
    agg.count('granularity:' + ('opcode' if res['workload'].get('opcodes') else 'line'))
    for k, v in res['probes'].items():
        agg.count('probe:' + k, v)
        agg.count('runs_with:' + k)
    if res['overlap']:
        agg.add_to_set('sigs', res['sig'])
    for s in res['sites']:
        agg.add_to_set('sites', tuple(s))
    if res['cache'] and res['cache'][0] >= res['cache'][1]:
        agg.count('probe:cache_full_at_end')
    if nsamples < 2 and res['overlap']:
        agg.samples.append({
            'config': cfg['name'], 'index': i, 'run_seed': seed, 'policy': res['policy'],
            'programs': res['workload']['programs'],
            'keys': [k['pattern'] for k in res['workload']['keys']],
            'segments_head': res['segments'][:12], 'n_segments': len(res['segments']),
            'steps': res['steps'], 'digest': res['digest'],
        })
    if res['violation']:
        agg.violations.append(make_record(res, cfg, i))
    return agg


def _derive(verif_seed, name, i):
    from sim import runner
    return runner.derive_seed(verif_seed, PROP, name, i)


def replay_record(rec):
    sv = env.load_soupsieve(cache_bound=rec.get('bound'))
    return replay(sv, rec)


def signature(rec):
    """Oracle clause + normalised culprit; used to match known findings."""

    v = rec['violation']
    o = v['oracle']
    if o == 'a-result':
        obs = v.get('observed')
        kind = v.get('op', {}).get('op', '?')
        if isinstance(obs, list) and obs and obs[0] == 'exc':
            return f'a-result:{kind}:exc:{obs[1]}'
        return f'a-result:{kind}:wrong-value'
    if o == 'b-cache':
        return 'b-cache'
    return o


def describe(rec):
    v = rec['violation']
    w = rec['workload']
    lines = [f"oracle {v['oracle']}: " + json_short(v)]
    for t, prog in enumerate(w['programs']):
        lines.append(f'thread {t}: ' + '; '.join(_op_str(w, o) for o in prog))
    lines.append(f"schedule: {len(rec['segments'])} segments, "
                 f"{sum(1 for s in rec['segments'] if s[2] == 'p')} pre-emptions; cache bound {rec.get('bound')}")
    return '\n'.join(lines)


def _op_str(w, o):
    if o['op'] == 'purge':
        return 'purge()'
    k = w['keys'][o['key']]
    extra = ''
    if k.get('ns') is not None:
        extra += ', ns'
    if k.get('custom') is not None:
        extra += ', custom'
    if o['op'] == 'compile':
        return f"compile({k['pattern']!r}{extra})"
    return f"{o['op']}[{o.get('form')}]({k['pattern']!r}{extra}, doc{o['doc']}@{o.get('target')})"


def json_short(v, n=400):
    import json
    s = json.dumps({k: v[k] for k in v if k != 'oracle'}, default=str)
    return s if len(s) <= n else s[:n] + '...'


SIMPLE_PATTERNS = [':nth-child(2)', ':lang(en)', ':dir(ltr)', ':nth-of-type(2)', ':-soup-contains(a)', 'p', 'div p']


def _candidates(rec):
    from sim.minimise import clone
    w = rec['workload']
    nt = len(w['programs'])
    # 1. drop a whole thread
    if nt > 2:
        for t in range(nt):
            c = clone(rec)
            del c['workload']['programs'][t]
            segs = []
            for s in c['segments']:
                if s[0] == t:
                    continue
                s = list(s)
                s[0] -= 1 if s[0] > t else 0
                segs.append(s)
            c['segments'] = segs
            yield c
    # 2. drop one operation (schedule anchors of that thread are shifted / removed)
    for t in range(nt):
        for j in reversed(range(len(w['programs'][t]))):
            if sum(len(p) for p in w['programs']) <= 1:
                break
            c = clone(rec)
            del c['workload']['programs'][t][j]
            segs = []
            for s in c['segments']:
                s = list(s)
                if s[0] == t and len(s) > 3 and s[3] is not None:
                    if s[3] == j:
                        if s[2] == 'p':
                            continue
                    elif s[3] > j:
                        s[3] -= 1
                segs.append(s)
            c['segments'] = segs
            yield c
    # 3. simpler selectors / no maps
    for k, key in enumerate(w['keys']):
        if key.get('ns') is not None or key.get('custom') is not None:
            c = clone(rec)
            c['workload']['keys'][k]['ns'] = None
            c['workload']['keys'][k]['custom'] = None
            yield c
        for sp in SIMPLE_PATTERNS:
            if len(sp) < len(key['pattern']):
                c = clone(rec)
                c['workload']['keys'][k]['pattern'] = sp
                yield c
    # 4. smaller documents
    for d, spec in enumerate(w['docs']):
        small = {'markup': '<div><p lang="en">a</p><p>b</p></div>', 'parser': 'html.parser', 'mut': []}
        if spec != small:
            c = clone(rec)
            c['workload']['docs'][d] = small
            yield c


def minimise_record(sv, rec, budget_n=600, wall_s=120.0):
    import time
    from sim.minimise import Budget, greedy, ddmin_list, clone
    sig0 = signature(rec)
    t_end = time.time() + wall_s

    def fails(cand):
        if time.time() > t_end:
            b.left = 0
            return False
        from sim import runner
        try:
            res = runner.isolated(replay, sv, cand)
        except RuntimeError:
            return False
        if res.get('discarded') or not res['violation']:
            return False
        new = make_record(res, cand.get('config'), cand.get('index'))
        new['run_seed'] = cand.get('run_seed')
        if signature(new) != sig0:
            return False
        return new

    b = Budget(budget_n)
    # canonicalise first (replay of the original must fail the same way)
    first = fails(rec)
    if not first:
        rec = dict(rec)
        rec['minimised'] = {'error': 'original record did not reproduce under replay'}
        return rec

    def size(r):
        return (len(r['workload']['programs']), sum(len(p) for p in r['workload']['programs']), len(r['segments']))

    def shrink_schedule(cur):
        # shortest failing prefix of the schedule (everything after it runs to completion un-pre-empted)
        segs = cur['segments']
        lo, hi = 1, len(segs)
        best = None
        while lo < hi and b.take():
            mid = (lo + hi) // 2
            c = clone(cur)
            c['segments'] = segs[:mid]
            out = fails(c)
            if out:
                best = out
                hi = mid
            else:
                lo = mid + 1
        if best is not None:
            cur = best
        base = cur

        def test(sub):
            c = clone(base)
            c['segments'] = sub
            return bool(fails(c))

        sub = ddmin_list(cur['segments'], test, b)
        if len(sub) < len(cur['segments']):
            c = clone(cur)
            c['segments'] = sub
            out = fails(c)
            if out:
                cur = out
        return cur

    cur = first
    for _ in range(4):
        before = size(cur)
        cur = shrink_schedule(cur)
        cur = greedy(cur, _candidates, fails, b)
        if size(cur) == before or b.left <= 0:
            break
    out = _gc_pool(cur)
    final = fails(out) or cur
    final['minimised'] = {
        'reexecutions': b.used,
        'from': {'threads': len(rec['workload']['programs']), 'ops': sum(len(p) for p in rec['workload']['programs']),
                 'segments': len(rec['segments'])},
        'to': {'threads': len(final['workload']['programs']),
               'ops': sum(len(p) for p in final['workload']['programs']), 'segments': len(final['segments'])},
    }
    final['original_run'] = {'config': rec.get('config'), 'index': rec.get('index'), 'run_seed': rec.get('run_seed'),
                             'digest': rec.get('digest')}
    return final


def _gc_pool(rec):
    """Drop unused keys/documents and renumber."""
    from sim.minimise import clone
    c = clone(rec)
    w = c['workload']
    used_k = sorted({o['key'] for p in w['programs'] for o in p if 'key' in o})
    used_d = sorted({o['doc'] for p in w['programs'] for o in p if 'doc' in o})
    km = {k: i for i, k in enumerate(used_k)}
    dm = {d: i for i, d in enumerate(used_d)}
    w['keys'] = [w['keys'][k] for k in used_k]
    w['docs'] = [w['docs'][d] for d in used_d]
    for p in w['programs']:
        for o in p:
            if 'key' in o:
                o['key'] = km[o['key']]
            if 'doc' in o:
                o['doc'] = dm[o['doc']]
            if 'items' in o:
                o.pop('items')
    return c


ASSUMPTIONS = [
    'pre-emption points are the line and function-entry events of frames under <repo>/soupsieve/ (sys.settrace); '
    'C code (regex engine, functools.lru_cache internals, bs4 frames) executes atomically, as under the GIL; '
    'free-threaded CPython is not modelled',
    'seeded sampling of schedules, not exhaustive enumeration: a clean batch is evidence, not proof',
    '"run alone" reference = the same operation executed sequentially from a purged cache in the same process',
    'the cache bound is varied through a functools.lru_cache seam applied while soupsieve is imported; '
    'the cache itself is the real C implementation',
]


def evidence(agg, info, plan_, tier):
    c = agg.counters
    probes = {k[6:]: v for k, v in c.items() if k.startswith('probe:')}
    runs_with = {k[10:]: v for k, v in c.items() if k.startswith('runs_with:')}
    cov = {
        'evaluations': agg.runs,
        'distinct_nontrivial': len(agg.sets.get('sigs', ())),
        'rule': 'one evaluation = one simulated concurrent run (2-4 threads x 1-6 operations) under one seeded '
                'schedule; non-trivial = at least two operations actually overlapped (a thread was parked inside an '
                'operation while another executed inside one); distinct = distinct hash of the switch trace '
                '[(from op kind, function, line) -> (to op kind, function, line)]',
        'samples': agg.samples[:3],
        'seeds': agg.runs,
        'logical_steps': c.get('steps', 0),
        'switches': c.get('switches', 0),
        'preemptions': c.get('preempts', 0),
        'operations': c.get('ops', 0),
        'simulated_time': 'none: nothing in the system reads a clock; logical time is the step count',
        'policies': {k[7:]: v for k, v in c.items() if k.startswith('policy:')},
        'workload_modes': {k[5:]: v for k, v in c.items() if k.startswith('mode:')},
        'cache_bounds_used': {k[6:]: v for k, v in c.items() if k.startswith('bound:')},
        'thread_counts': {k[8:]: v for k, v in c.items() if k.startswith('threads:')},
        'granularity': {k[12:]: v for k, v in c.items() if k.startswith('granularity:')},
        'faults_fired': {'purge-by-peer(runs of the purge-dense mode)': c.get('mode:purge', 0),
                         'small-cache(runs with bound<500)': sum(
                             v for k, v in c.items() if k.startswith('bound:') and k != 'bound:500'),
                         'whole-peer-operation-injected-at-a-step-of-a-compile/select(sweep)': probes.get('sweep_injection_points', 0),
                         'whole-peer-query-injected-at-a-code-site-of-a-query/failing-compile(msweep)':
                             probes.get('msweep_injection_points', 0),
                         'peer-completed-inside-a-gap-at-a-code-site-while-it-was-itself-mid-operation(msweep2)':
                             probes.get('msweep2_injection_points', 0),
                         'pre-emptions(all policies)': c.get('preempts', 0)},
        'probes': probes,
        'runs_reaching_probe': runs_with,
        'preemption_sites_used': len(agg.sets.get('sites', ())),
        'components_real': ['soupsieve (all modules, unmodified, from the working tree)', 'bs4 + html.parser/lxml/html5lib',
                            'functools.lru_cache (C)', 're', 'OS threads (one runnable at a time)'],
        'components_stubbed': ['thread scheduling (baton passing, seeded policy)',
                               'threading.Lock/RLock/Condition/Semaphore/Event as seen by soupsieve at import '
                               '(simulator-aware; unused by the current tree)'],
        'runs_discarded': {k[10:]: v for k, v in c.items() if k.startswith('discarded:')},
        'budget_s': plan_['budget_s'],
        'tasks_cancelled_by_deadline': info['tasks_cancelled'],
    }
    return {'coverage': cov, 'assumptions': ASSUMPTIONS}
