"""C16 - importing works in either order and Beautiful Soup can always select.

One run = one fresh interpreter (restart) executing a seeded *import program* over the two
mutually-initialising packages, under a seeded set of absent optional modules (fault) and
interpreter switches (configuration), followed by a probe that selects through Beautiful Soup and
through soupsieve directly.  Oracles:

  a-imports    every statement of the program succeeds (exit status 0, no exception) and every submodule import form
               hands out the module (package attribute is sys.modules[...]; names in __all__ exist)
  b-agree      BeautifulSoup(...).select & co. give what soupsieve.select & co. give, and succeed
  c-order      all runs with the same probe and the same available parsers give identical results,
               whichever import program preceded the probe
  d-silent     importing produces no output, no warning attributed to a file of the package, and leaves
               process-wide interpreter state alone (warning filters, sys.path, recursion limit, hooks, signal
               handlers, logging root, locale, environment, cwd, threads)
  e-origin     soupsieve was imported from the tree under test
"""
from __future__ import annotations

import json
import os
import random
import shutil
import subprocess
import sys
import tempfile

from sim import env, fingerprint as fp, gen

PROP = 'C16'
PY = '/venv/bin/python'
DRIVER = os.path.join(os.path.dirname(os.path.abspath(__file__)), 'c16_driver.py')

STATEMENTS = [
    'import bs4',
    'from bs4 import BeautifulSoup',
    'import bs4.element',
    'from bs4.element import Tag',
    'import bs4.css',
    'import bs4.builder',
    'import soupsieve',
    'import soupsieve as sv',
    'from soupsieve import select',
    'from soupsieve import compile',
    'from soupsieve import SoupSieve',
    'from soupsieve import css_match',
    'import soupsieve.css_match',
    'import soupsieve.css_parser',
    'import soupsieve.css_types',
    'import soupsieve.util',
    'import soupsieve.pretty',
    'import soupsieve.__meta__',
    'from soupsieve.css_types import SelectorList',
    'from soupsieve import *',
    'import importlib; importlib.import_module("bs4")',
    'import importlib; importlib.import_module("soupsieve")',
    'import importlib; importlib.import_module("soupsieve.css_match")',
    'import importlib; importlib.import_module("bs4.element")',
    'import bs4, soupsieve',
    'import soupsieve, bs4',
    'from bs4 import BeautifulSoup, Tag; import soupsieve',
    'from bs4.css import CSS',
    'import bs4.builder._htmlparser',
    'import bs4.dammit',
    'import bs4.formatter',
]
BS4_FIRST = ('import bs4', 'from bs4 import BeautifulSoup', 'import bs4.element', 'from bs4.element import Tag',
             'import bs4.css', 'import bs4, soupsieve', 'import importlib; importlib.import_module("bs4")')

OPTIONAL = ['lxml', 'html5lib', 'chardet', 'charset_normalizer', 'cchardet']

PROBE_DOCS = [
    '<div><p id="a" class="x">one</p><p id="b" lang="en">two</p><span>three</span></div>',
    '<!DOCTYPE html><html lang="de"><head><meta http-equiv="content-language" content="en"></head><body><p>a</p>'
    '<p lang="en">b</p><!-- trailing --></body></html>',
    '<form><input type="radio" name="r"><input type="radio" name="r" checked><input type="submit"><button>x</button></form>'
    '<form><input type="radio" name="q"><input type="submit"></form>',
    '<ul><li>1</li><li class="c">2</li><li>3</li></ul>',
    '<div><a href="#x">l</a><p>t <b>bold</b></p></div>',
    '<div dir="rtl"><p>x</p><input type="number" min="0" max="5" value="7"><bdi>\u05e9\u05dc\u05d5\u05dd</bdi></div>',
    '<p>hello world</p><p>bye</p>',
    '<div id="d"><x-foo>c</x-foo><svg><circle r="1"/></svg></div>',
    '<!DOCTYPE html>\n<!-- lead --><html><body><p id="a"><!-- hidden note --></p><p id="b">note</p><p id="c"> </p>'
    '<?pi x?></body></html>',
    '<div><p>a</p><p>b</p><p>c</p></div>',
    '<html><body><iframe><html lang="fr"><body><p>in</p><form><input type="submit"></form></body></html></iframe>'
    '<p lang="en">out</p></body></html>',
    '<div><!-- only a comment --></div><div></div><div> </div><div>x</div>',
    '<form><input type="date" min="2020-01-01" max="2020-12-31" value="2021-02-30"><input type="date" max="2020-02-30" '
    'value="2020-03-15"><input type="month" min="2020-01" value="2020-13"><input type="week" max="2020-W10" value="2020-W60">'
    '<input type="time" min="24:00" value="08:00"><input type="time" min="09:00" max="17:00" value="25:61">'
    '<input type="datetime-local" max="2020-12-31T24:00" value="2021-01-01T00:00"><input type="number" min="0" max="5" '
    'value="abc"><input type="range" min="1" max="3" value="2"><input type="date" min="2020-01-01" value="2020-06-15"></form>',
]
PROBE_XML = [
    '<?xml version="1.0"?><root xmlns:x="urn:x-test"><x:item k="1">a</x:item><item>b</item></root>',
    '<?xml version="1.0"?><!-- c --><root><item><![CDATA[cd]]></item><item><!-- only comment --></item><?pi y?>'
    '<item xml:lang="en">t</item></root>',
]
# XHTML served as XML: the matcher must treat it as both XML and HTML whatever optional modules are installed
PROBE_XHTML = [
    '<?xml version="1.0" encoding="UTF-8"?><html xmlns="http://www.w3.org/1999/xhtml" lang="en"><head><title>t</title></head>'
    '<body><form><input type="checkbox" checked="checked" id="i1"/><input type="text" required="required" disabled="disabled"/>'
    '<input type="radio" name="r"/></form><p id="p1">x <a href="#a">l</a></p><p lang="de" dir="rtl">y</p></body></html>',
]
XHTML_SELECTORS = ['input:checked', ':required', ':disabled', ':enabled', ':link', 'p:lang(en)', ':dir(rtl)', ':indeterminate',
                   ':root', 'p:first-child', ':default', 'a:any-link', ':read-write', 'INPUT', 'input']
# every kind of string node Beautiful Soup creates (ruby annotations, script/style/template bodies, CDATA, comments,
# declarations): what counts as an element's text content must not depend on how the packages were imported
PROBE_STRINGS = [
    '<div><ruby>K<rp>(</rp><rt>kan</rt><rp>)</rp></ruby><p>plain kan</p><rt></rt></div>',
    '<html><head><script>var kan = 1;</script><style>p { color: red }</style><title>kan</title></head><body>'
    '<template><p>kan</p></template><textarea>kan</textarea><p><!-- kan --></p><p><![CDATA[kan]]></p><bdi>kan</bdi>'
    '<p dir="auto"><script>abc</script>ש</p></body></html>',
]
STRING_SELECTORS = ['rt:empty', 'rp:empty, rt:empty', ':-soup-contains-own(kan)', ':-soup-contains(kan)', ':empty',
                    'ruby:-soup-contains("(")', 'script:empty, style:empty', 'template:empty', ':dir(rtl)', ':dir(ltr)',
                    'p:empty', ':-soup-contains(color)', ':-soup-contains-own(var)', ':root', 'p:not(:empty)', '*']
PROBE_SELECTORS = [
    'p:nth-child(2)', ':lang(en)', ':default, :indeterminate', 'li:not(.c):nth-of-type(odd)', 'div:has(> a:any-link) b',
    ':dir(rtl), :out-of-range', 'p:-soup-contains("hello")', ':defined, :root > *', 'p:nth-last-child(-n+2):is(:scope p, p)',
    ':root', ':empty', 'p:-soup-contains("note")', 'html:root > body p', ':-soup-contains-own(note)', 'div:empty, p:empty',
    ':checked', ':enabled', ':link', ':lang("")', ':not(:lang(en))', ':is(p, li):first-child', ':has(+ p)', '*',
    ':read-write', ':required, :optional', 'iframe p', ':only-child', ':dir(ltr)',
    ':in-range', ':out-of-range', 'input:not(:in-range)', ':in-range, :out-of-range', ':disabled', ':placeholder-shown',
    ':indeterminate', ':default', 'p:lang(de)', ':nth-last-of-type(2n+1)', ':is(:root, :empty)',
]
# malformed selectors: Beautiful Soup and soupsieve must reject them the same way in every configuration
INVALID_SELECTORS = ['p:nth-child(foo)', 'div >', ':lang()', 'p::before', ':has()', 'a[href', ':not()', 'p:unknown-pseudo',
                     ':nth-child(2n+)', '> p', 'p,,a', ':dir(up)']
XML_SELECTORS = ['x|item, item:first-child', 'item:empty', ':root', 'item:-soup-contains(cd)', ':lang(en)', 'item:nth-child(2)', '*']


def gen_job(rng):
    n = rng.choice([1, 1, 2, 2, 3, 4])
    program = []
    r = rng.random()
    if r < 0.45:
        program.append(rng.choice(BS4_FIRST))
    for _ in range(n - len(program)):
        program.append(rng.choice(STATEMENTS))
    blocked = []
    r = rng.random()
    if r < 0.25:
        blocked = ['lxml', 'html5lib', 'chardet', 'charset_normalizer', 'cchardet']
    elif r < 0.55:
        blocked = sorted(rng.sample(OPTIONAL, rng.randint(1, 3)))
    switches = rng.choice([[], [], [], [], ['-O'], ['-OO'], ['-B'], ['-O', '-B'], ['-s'], ['-W', 'error'], ['-X', 'dev'],
                           ['-W', 'default'], ['-W', 'error', '-O']])
    r0 = rng.random()
    if r0 < 0.05:
        # deeply (but comfortably below the interpreter's own limit: ~326 levels) nested selector lists: whatever the
        # library decides about nesting depth, it has to decide the same in every configuration
        d = rng.randrange(200, 262, 2)
        probe = {'markup': '<div><p id="a">x</p><p id="b">y</p></div>', 'selector': ':is(' * d + 'p' + ')' * d, 'deep': True}
        parser = 'html.parser'
    elif r0 < 0.10:
        probe = {'markup': rng.choice(PROBE_STRINGS), 'selector': rng.choice(STRING_SELECTORS)}
        parser = rng.choice(['html.parser', 'html.parser'] + [p for p in ('lxml', 'html5lib') if p not in blocked])
    elif r0 < 0.20:
        probe = {'markup': rng.choice(PROBE_XHTML), 'selector': rng.choice(XHTML_SELECTORS)}
        parser = 'xml' if 'lxml' not in blocked else 'html.parser'
    elif r0 < 0.30:
        probe = {'markup': rng.choice(PROBE_XML), 'selector': rng.choice(XML_SELECTORS)}
        if probe['selector'].startswith('x|'):
            probe['namespaces'] = {'x': 'urn:x-test'}
        parser = 'xml' if 'lxml' not in blocked else 'html.parser'
    else:
        probe = {'markup': rng.choice(PROBE_DOCS), 'selector': rng.choice(PROBE_SELECTORS)}
        feats = gen.markup_features(probe['markup'])
        if feats and rng.random() < 0.5:
            # a selector that exercises what this document contains (so that every group of the cross-run oracle
            # is populated by several import programs / switches / fault sets)
            probe['selector'] = rng.choice(gen.FEATURE_POOLS[rng.choice(feats)])
        if rng.random() < 0.12:
            probe['selector'] = rng.choice(INVALID_SELECTORS)
            probe['invalid'] = True
        avail = ['html.parser', 'html.parser'] + [p for p in ('lxml', 'html5lib') if p not in blocked]
        parser = rng.choice(avail)
    probe['parser'] = parser
    probe['target'] = rng.randint(0, 1)
    job = {'program': program, 'blocked': blocked, 'switches': switches, 'probe': probe}
    if rng.random() < 0.2:
        job['no_dist_info'] = True
    if rng.random() < 0.1:
        job['stdio'] = rng.choice(['none', 'none', 'closed', 'ascii'])
    if rng.random() < 0.15:
        job['prestate'] = sorted(rng.sample(PRESTATES, rng.randint(1, 3)))
    return job


def run_job(job, timeout=120):
    """Execute one job in a fresh interpreter; returns (result dict, returncode, raw stderr)."""

    scratch = tempfile.mkdtemp(prefix='c16-')
    try:
        jp = os.path.join(scratch, 'job.json')
        rp = os.path.join(scratch, 'result.json')
        with open(jp, 'w') as f:
            json.dump(job, f)
        e = {k: v for k, v in os.environ.items() if not k.startswith(('COVERAGE', 'PYTHON'))}
        e['PYTHONPATH'] = env.REPO
        e['PYTHONHASHSEED'] = '0'
        e['PYTHONDONTWRITEBYTECODE'] = '1'
        e.update(job.get('env') or {})
        cwd = os.path.join(scratch, 'cwd')
        os.mkdir(cwd)
        try:
            p = subprocess.run([PY] + list(job.get('switches', ())) + [DRIVER, jp, rp], capture_output=True, text=True,
                               env=e, cwd=cwd, timeout=timeout)
        except subprocess.TimeoutExpired:
            return None, 'timeout', ''
        res = None
        if os.path.exists(rp):
            with open(rp) as f:
                res = json.load(f)
            # whatever reaches the process's own stdout/stderr (e.g. from an atexit hook, after the driver has
            # restored the descriptors) is output too
            res['process_stdout'] = (p.stdout or '')[-600:]
            res['process_stderr'] = (p.stderr or '')[-600:]
        return res, p.returncode, (p.stderr or '')[-1500:]
    finally:
        shutil.rmtree(scratch, ignore_errors=True)


def probe_key(job):
    pr = job['probe']
    # NB: interpreter switches and absent modules are deliberately NOT part of the key: the same probe must give the
    # same answers under -O / -OO / -B and whatever optional modules are installed
    return fp.h((pr['markup'], pr['selector'], pr['parser'], pr.get('target'), sorted((pr.get('namespaces') or {}).items())))


PAIRS = [('bs4.select.limit1', 'sv.select.limit1'), ('bs4.select.limit_kw', 'sv.select.limit1'),
         ('bs4.select.compiled', 'sv.select'), ('bs4.css.iselect.limit2', 'sv.iselect.limit2'),
         ('bs4.css.escape', 'sv.escape'), ('bs4.select.default_ns', 'sv.select.recorded_ns'),
         ('bs4.select', 'sv.select'), ('bs4.select_one', 'sv.select_one'), ('bs4.css.iselect', 'sv.select'),
         ('bs4.css.match', 'sv.match'), ('bs4.css.closest', 'sv.closest'), ('bs4.css.filter', 'sv.filter'),
         ('sv.compiled.select', 'sv.select')]


def judge(job, res, rc, stderr):
    """Oracles a, b, d, e for one run (c needs the batch)."""

    if res is None:
        return {'oracle': 'a-imports', 'detail': f'interpreter died without a result (rc={rc})', 'stderr': stderr}
    if not res['ok']:
        return {'oracle': 'a-imports', 'detail': 'statement failed', 'error': res['error']}
    if rc != 0:
        return {'oracle': 'a-imports', 'detail': f'exit status {rc}', 'stderr': stderr}
    pr = res['probe'] or {}
    if 'fatal' in pr:
        return {'oracle': 'b-agree', 'detail': 'probe could not import/parse', 'error': pr['fatal']}
    if job['probe'].get('deep') and any(isinstance(v, dict) and v.get('exc') == 'RecursionError' for v in pr.values()):
        # the interpreter's own stack limit was reached: how many frames a nesting level costs is the implementation's
        # business (and the limit itself is configuration), so such a run has no answer to compare - with anything
        pr = {'n_elements': pr.get('n_elements'), 'stack_limit_reached': True}
        res['probe'] = pr
    if job['probe'].get('invalid'):
        # a malformed selector: every entry point must raise, and the same exception type
        kinds = {k: (v.get('exc') if isinstance(v, dict) else 'returned') for k, v in pr.items()
                 if k != 'n_elements' and not k.endswith('escape')}
        if len(set(kinds.values())) != 1 or 'returned' in kinds.values():
            return {'oracle': 'b-agree', 'detail': 'a malformed selector is not rejected uniformly', 'outcomes': kinds}
        pr = {k: (v if (k == 'n_elements' or k.endswith('escape')) else {'exc': v.get('exc')}) for k, v in pr.items()}
        res['probe'] = pr
    else:
        for k, v in pr.items():
            if isinstance(v, dict) and 'exc' in v:
                return {'oracle': 'b-agree', 'detail': f'{k} raised', 'error': v}
    for a, b in PAIRS:
        if a not in pr and b not in pr:
            continue
        if pr.get(a) != pr.get(b):
            return {'oracle': 'b-agree', 'detail': f'{a} != {b}', 'left': pr.get(a), 'right': pr.get(b)}
    if res.get('submodule_binding_errors'):
        return {'oracle': 'a-imports', 'detail': 'a submodule import form does not hand out the module: the package '
                                                 'attribute differs from sys.modules (or a name in __all__ is missing)',
                'error': {'type': 'WrongBinding', 'bindings': res['submodule_binding_errors']}}
    pkg = os.path.join(env.REPO, 'soupsieve') + os.sep
    f = res['files'].get('soupsieve')
    if not f or not os.path.abspath(f).startswith(pkg):
        return {'oracle': 'e-origin', 'detail': f'soupsieve imported from {f}, expected under {env.REPO}'}
    if res['stdout'] or res['stderr']:
        return {'oracle': 'd-silent', 'detail': 'output during import/probe', 'stdout': res['stdout'][:300],
                'stderr': res['stderr'][:300]}
    if res.get('process_stdout') or res.get('process_stderr'):
        return {'oracle': 'd-silent', 'detail': 'output at interpreter exit', 'stdout': res.get('process_stdout', '')[:300],
                'stderr': res.get('process_stderr', '')[:300]}
    if res.get('state_changed'):
        return {'oracle': 'd-silent', 'detail': 'importing changed process-wide interpreter state',
                'state_changed': {k: [str(v[0])[:160], str(v[1])[:160]] for k, v in res['state_changed'].items()}}
    for wn in res['warnings']:
        fn = wn.get('filename') or ''
        if os.path.abspath(fn).startswith(pkg) or 'soupsieve' in (wn.get('message') or '').lower():
            return {'oracle': 'd-silent', 'detail': 'warning attributed to the package', 'warning': wn}
    return None


def init_signature(res):
    return fp.h(res.get('init_order') or [])


def run_seeded(run_seed):
    rng = random.Random(run_seed)
    job = gen_job(rng)
    res, rc, stderr = run_job(job)
    return job, res, rc, stderr


# ---------------------------------------------------------------------------
# batch interface
# ---------------------------------------------------------------------------

def plan(tier):
    if tier == 'thorough':
        n, budget = 36000, 700
    else:
        n, budget = 2600, 70
    return {'budget_s': budget, 'configs': [{'name': 'imports', 'nruns': n, 'chunk': 20, 'bound': None}],
            'minimise_budget': 40, 'determinism_chunks': 2, 'determinism_runs_per_chunk': 10}


def make_record(job, violation, res, run_seed=None, cfg=None, index=None):
    rec = {
        'property': PROP,
        'config': cfg,
        'index': index,
        'run_seed': run_seed,
        'job': job,
        'violation': violation,
        'init_order': (res or {}).get('init_order'),
        'versions': {'python': sys.version.split()[0]},
        'cost': len(job['program']) * 10 + len(job['blocked']),
    }
    rec['digest'] = fp.h((job, violation['oracle'], _stable(violation)), 12)
    return rec


def _stable(v):
    return json.dumps({k: v[k] for k in sorted(v) if k not in ('stderr',)}, sort_keys=True, default=str)


def run_chunk(task, agg):
    if task.get('kind') == 'minimise':
        agg.extra.append(minimise_record(task['rec'], task.get('budget', 40)))
        return
    from sim import runner
    cfg = task['config']
    for i in task['indices']:
        seed = runner.derive_seed(task['verif_seed'], PROP, cfg['name'], i)
        job, res, rc, stderr = run_seeded(seed)
        agg.runs += 1
        v = judge(job, res, rc, stderr)
        sig = init_signature(res) if res else 'none'
        agg.digests[f"{cfg['name']}:{i}"] = fp.h((job, res.get('probe') if res else None, sig, v['oracle'] if v else None), 12)
        agg.count('statements', len(job['program']))
        agg.count('switches:' + (' '.join(job['switches']) or 'none'))
        for b in job['blocked']:
            agg.count('fault:missing-module:' + b)
        if job.get('stdio'):
            agg.count('fault:standard-streams-' + job['stdio'])
        for ps in set(job.get('prestate') or ()):
            agg.count('fault:non-default-interpreter-state:' + ps)
        if job.get('no_dist_info'):
            agg.count('fault:no-distribution-metadata')
            if res and res.get('dist_info_lookups'):
                agg.count('fault_fired:no-distribution-metadata')
        if res:
            for b in res.get('blocked_hit', ()):
                agg.count('fault_fired:missing-module:' + b)
            agg.add_to_set('init_orders', sig)
            agg.add_to_set('sigs', fp.h((sig, tuple(job['blocked']), tuple(job['switches']), bool(job.get('no_dist_info')))))
            first = (res.get('init_order') or ['?'])[0]
            agg.count('first_initialised:' + first)
            agg.count('parser:' + job['probe']['parser'])
            if res['probe'] and res['probe'].get('stack_limit_reached'):
                agg.count('probe_excluded:interpreter_stack_limit_reached')
            elif not v:
                # oracle c: same probe + same parser => same answers whichever program preceded it
                pk, ph = probe_key(job), fp.h(res['probe'])
                if ph not in agg.sets.get('probe:' + pk, ()):
                    agg.extra.append(['probe', pk, ph, job, res['probe']])
                agg.add_to_set('probe:' + pk, ph)
        if len(agg.samples) < 3 and res and not v:
            agg.samples.append({'program': job['program'], 'blocked': job['blocked'], 'switches': job['switches'],
                                'probe': job['probe'], 'init_order': res['init_order'][:12],
                                'bs4.select': res['probe'].get('bs4.select'), 'run_seed': seed})
        if v:
            agg.violations.append(make_record(job, v, res, seed, cfg, i))
        elif res and res.get('env_reads'):
            # the package was seen reading environment variables: the environment is part of the configuration space,
            # so the same job is repeated with each of them set to awkward values (same oracles, same cross-run groups)
            for name in sorted(res['env_reads'])[:3]:
                for val in ENV_VALUES:
                    job2 = dict(job, env={name: val})
                    res2, rc2, stderr2 = run_job(job2)
                    agg.count('fault:environment-variable-set')
                    v2 = judge(job2, res2, rc2, stderr2)
                    if v2:
                        agg.violations.append(make_record(job2, v2, res2, seed, cfg, i))
                        break
                    if res2['probe'] and res2['probe'].get('stack_limit_reached'):
                        continue
                    pk, ph = probe_key(job2), fp.h(res2['probe'])
                    if ph not in agg.sets.get('probe:' + pk, ()):
                        agg.extra.append(['probe', pk, ph, job2, res2['probe']])
                    agg.add_to_set('probe:' + pk, ph)


PRESTATES = ['gc_off', 'gc_off', 'gc_threshold', 'reclimit', 'switchinterval', 'excepthook', 'unraisablehook', 'logging_disable',
             'signal', 'dont_write_bytecode']
ENV_VALUES = ['', '0', 'unlimited', '1', '-1']


def post_batch(agg):
    """Oracle c over the whole batch: appends violation records to agg.violations."""

    groups = {}
    for item in agg.extra:
        if item and item[0] == 'probe':
            groups.setdefault(item[1], {}).setdefault(item[2], item)
    for pk, by_hash in sorted(groups.items()):
        if len(by_hash) > 1:
            items = [by_hash[h] for h in sorted(by_hash)]
            a, b = items[0], items[1]
            v = {'oracle': 'c-order', 'detail': 'same probe and parser, different answers in different runs (import program, interpreter switches or absent modules differ)',
                 'left': a[4], 'right': b[4], 'other_program': b[3]['program']}
            rec = make_record(a[3], v, None)
            rec['other_job'] = b[3]
            agg.violations.append(rec)
    agg.extra = [x for x in agg.extra if not (x and x[0] == 'probe')]


def replay_record(rec):
    job = rec['job']
    res, rc, stderr = run_job(job)
    v = judge(job, res, rc, stderr)
    if v is None and rec['violation']['oracle'] == 'c-order':
        other = rec.get('other_job')
        res2, rc2, st2 = run_job(other)
        if res and res2 and res['probe'] != res2['probe']:
            v = {'oracle': 'c-order', 'detail': 'same probe, different answers after different import programs',
                 'left': res['probe'], 'right': res2['probe']}
    out = {'violation': v}
    if v:
        out['digest'] = make_record(job, v, res)['digest'] if v['oracle'] != 'c-order' else rec.get('digest')
    else:
        out['digest'] = None
    return out


def signature(rec):
    v = rec['violation']
    o = v['oracle']
    if o == 'a-imports':
        err = v.get('error') or {}
        first = rec['job']['program'][0] if rec.get('job') else ''
        fam = 'bs4-first' if 'bs4' in first.split('soupsieve')[0] and not first.startswith(('import soupsieve', 'from soupsieve')) else 'soupsieve-first'
        return f"a-imports:{err.get('type', 'died')}:{fam}"
    if o == 'b-agree':
        err = v.get('error') or {}
        return f"b-agree:{err.get('exc', 'mismatch')}"
    if o == 'd-silent':
        if 'state_changed' in v:
            return 'd-silent:state:' + '+'.join(sorted(v['state_changed']))
        return 'd-silent:' + ('warning' if 'warning' in v else 'output')
    return o


def describe(rec):
    v = rec['violation']
    j = rec['job']
    lines = ['oracle ' + v['oracle'] + ': ' + json.dumps({k: v[k] for k in v if k != 'oracle'}, default=str)[:700]]
    lines.append('fresh interpreter: ' + ' '.join([PY] + j['switches']) + f"   absent modules: {j['blocked'] or 'none'}"
                 + ('   (no installed distribution metadata for soupsieve)' if j.get('no_dist_info') else '')
                 + (f"   environment: {j['env']}" if j.get('env') else '')
                 + (f"   sys.stdout/sys.stderr: {j['stdio']}" if j.get('stdio') else '')
                 + (f"   interpreter configured beforehand: {j['prestate']}" if j.get('prestate') else ''))
    for i, s in enumerate(j['program']):
        lines.append(f'  {i}: {s}')
    lines.append('probe: ' + json.dumps(j['probe'])[:400])
    if rec.get('init_order'):
        lines.append('initialisation order: ' + ' '.join(rec['init_order'][:16]))
    return '\n'.join(lines)


def minimise_record(rec, budget_n=40):
    """Drop statements, faults and switches while the same oracle clause fails."""

    sig0 = signature(rec)
    used = 0

    def fails(job):
        nonlocal used
        used += 1
        res, rc, stderr = run_job(job)
        v = judge(job, res, rc, stderr)
        if not v:
            return None
        r = make_record(job, v, res, rec.get('run_seed'), rec.get('config'), rec.get('index'))
        return r if signature(r) == sig0 else None

    if rec['violation']['oracle'] == 'c-order':
        return rec
    cur = fails(rec['job'])
    if cur is None:
        rec = dict(rec)
        rec['minimised'] = {'error': 'original record did not reproduce'}
        return rec
    progress = True
    while progress and used < budget_n:
        progress = False
        job = cur['job']
        cands = []
        for i in range(len(job['program'])):
            if len(job['program']) > 1:
                c = json.loads(json.dumps(job))
                del c['program'][i]
                cands.append(c)
        for i in range(len(job['blocked'])):
            c = json.loads(json.dumps(job))
            del c['blocked'][i]
            cands.append(c)
        if job['switches']:
            c = json.loads(json.dumps(job))
            c['switches'] = []
            cands.append(c)
        if job.get('no_dist_info'):
            c = json.loads(json.dumps(job))
            c.pop('no_dist_info')
            cands.append(c)
        if job.get('stdio'):
            c = json.loads(json.dumps(job))
            c.pop('stdio')
            cands.append(c)
        for i in range(len(job.get('prestate') or ())):
            c = json.loads(json.dumps(job))
            del c['prestate'][i]
            cands.append(c)
        if job['probe']['parser'] != 'html.parser' and not job['probe'].get('namespaces'):
            c = json.loads(json.dumps(job))
            c['probe']['parser'] = 'html.parser'
            cands.append(c)
        for c in cands:
            if used >= budget_n:
                break
            out = fails(c)
            if out:
                cur = out
                progress = True
                break
    cur['minimised'] = {'reexecutions': used, 'from': {'statements': len(rec['job']['program']),
                                                       'blocked': len(rec['job']['blocked'])},
                        'to': {'statements': len(cur['job']['program']), 'blocked': len(cur['job']['blocked'])}}
    cur['original_run'] = {'run_seed': rec.get('run_seed'), 'index': rec.get('index')}
    return cur


ASSUMPTIONS = [
    'one run = one fresh /venv/bin/python process with PYTHONPATH=<tree under test>, an empty working directory and '
    'PYTHONHASHSEED=0; sequential import orders only (the statement is about sequential orders in a fresh interpreter; '
    'concurrent imports from two threads and retry after a failed import are deliberately not explored)',
    'in this sealed image importing bs4, lxml and html5lib is silent; any output or package-attributed warning is charged '
    'to soupsieve',
    'absent optional modules are simulated by a sys.meta_path finder raising ModuleNotFoundError',
    'Python initialises a parent package before its submodules, so the number of distinct initialisation orders is small; '
    'the evidence reports how many were reached',
]


def evidence(agg, info, plan_, tier):
    c = agg.counters
    probes_groups = {k: len(v) for k, v in agg.sets.items() if k.startswith('probe:')}
    cov = {
        'evaluations': agg.runs,
        'distinct_nontrivial': len(agg.sets.get('sigs', ())),
        'rule': 'one evaluation = one fresh interpreter running a seeded import program (1-4 statements over bs4/soupsieve '
                'and their submodules, plain/from/importlib forms) + a select probe; every run is non-trivial (both '
                'packages get initialised); distinct = distinct (module initialisation-order signature, set of absent '
                'optional modules, interpreter switches)',
        'samples': agg.samples[:3],
        'seeds': agg.runs,
        'interpreter_restarts': agg.runs,
        'import_statements_executed': c.get('statements', 0),
        'distinct_initialisation_orders': len(agg.sets.get('init_orders', ())),
        'first_module_initialised': {k[18:]: v for k, v in c.items() if k.startswith('first_initialised:')},
        'faults_configured': {k[6:]: v for k, v in c.items() if k.startswith('fault:')},
        'faults_fired': dict({k[12:]: v for k, v in c.items() if k.startswith('fault_fired:')},
                             **{k[6:]: v for k, v in c.items() if k.startswith(('fault:standard-streams', 'fault:non-default',
                                                                                   'fault:environment'))}),
        'interpreter_switches': {k[9:]: v for k, v in c.items() if k.startswith('switches:')},
        'parsers_probed': {k[7:]: v for k, v in c.items() if k.startswith('parser:')},
        'probe_groups_compared_across_programs': len(probes_groups),
        'probe_groups_with_disagreement': sum(1 for v in probes_groups.values() if v > 1),
        'simulated_time': 'none: nothing in the system reads a clock',
        'components_real': ['CPython import system', 'soupsieve (from the working tree)', 'bs4 and the parsers'],
        'components_stubbed': ['availability of lxml / html5lib / chardet / charset_normalizer / cchardet (meta_path finder)',
                               'installed distribution metadata of soupsieve (importlib.metadata lookup made to fail)',
                               'sys.stdout / sys.stderr (None, closed or ASCII-only objects before the import program)',
                               'initial interpreter configuration (gc, recursion limit, switch interval, hooks, signal handler)',
                               'environment variables the package is seen reading (set to awkward values in follow-up runs)'],
        'budget_s': plan_['budget_s'],
        'tasks_cancelled_by_deadline': info['tasks_cancelled'],
    }
    return {'coverage': cov, 'assumptions': ASSUMPTIONS}
