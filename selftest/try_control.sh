#!/bin/bash
# usage: try_control.sh <worktree>    - negative control: a change meant to be CORRECT; all four quick checks must exit 0
wt=$1
cd "$wt" || exit 2
echo "tests: $(PYTHONPATH=$wt /venv/bin/python -m pytest -q -p no:cacheprovider -x 2>&1 | tail -1)"
cd /verif
rm -rf /tmp/ev_backup && cp -r evidence /tmp/ev_backup
for p in C04 C14 C15 C16; do
  VERIF_REPO=$wt timeout 1500 /venv/bin/python check.py $p --tier quick > /tmp/control_$p.log 2>&1; rc=$?
  echo "$p rc=$rc $(grep -c '^VIOLATION' /tmp/control_$p.log) violation lines; $(tail -1 /tmp/control_$p.log | cut -c1-120)"
  if [ $rc -ne 0 ]; then grep -v "^    step\|^  document\|^  thread\|^  probe\|^  init" /tmp/control_$p.log | cut -c1-600 | tail -14; fi
done
rm -rf evidence && mv /tmp/ev_backup evidence; rm -f replays/*.json
