"""Keep a confirmed sub-agent change under seeded/<id>/ (patch.diff, demo.py, NOTES.md, meta.json)."""
import json, os, shutil, sys
wt, sid, prop = sys.argv[1], sys.argv[2], sys.argv[3]
meta_extra = json.loads(sys.argv[4]) if len(sys.argv) > 4 else {}
dst = os.path.join('/verif/seeded', sid)
os.makedirs(dst, exist_ok=True)
for f in ('patch.diff', 'demo.py', 'NOTES.md'):
    if os.path.exists(os.path.join(wt, f)):
        shutil.copy(os.path.join(wt, f), os.path.join(dst, f))
meta = {'id': sid, 'property': prop, 'source': 'independent sub-agent given only the property text and a scratch worktree'}
meta.update(meta_extra)
json.dump(meta, open(os.path.join(dst, 'meta.json'), 'w'), indent=1)
print('kept', dst)
