"""Regenerates selftest/mutants/*.patch (hand-written catalogue) from the current /repo sources.

Each mutant is a list of (file, old, new) string replacements; the patch is the unified diff of
the result against the working tree.  The four/five "orig_*" patches (reverse of the fix: commits)
are produced separately with `git diff <fix> <fix>^` and are not touched here.

usage: /venv/bin/python selftest/make_mutants.py [--repo /repo]
"""
from __future__ import annotations

import difflib
import os
import sys

HERE = os.path.dirname(os.path.abspath(__file__))
OUT = os.path.join(HERE, 'mutants')

MUTANTS = {}


def mutant(name, prop, why):
    def deco(fn):
        MUTANTS[name] = {'property': prop, 'why': why, 'edits': fn()}
        return fn
    return deco


# ---------------------------------------------------------------------------------------------- C14

@mutant('c14_memo_process_custom', 'C14',
        'process_custom() memoised per CustomSelectors: the dict that the parser deletes from / re-inserts into while '
        'compiling an alias becomes shared by every compile using an equal custom map (S6 made shared)')
def _():
    return [('soupsieve/css_parser.py',
             '''def process_custom(custom: ct.CustomSelectors | None) -> dict[str, str | ct.SelectorList]:
    """Process custom."""

    custom_selectors = {}
    if custom is not None:
''',
             '''_PROCESSED_CUSTOM = {}  # type: dict[ct.CustomSelectors, dict[str, str | ct.SelectorList]]


def process_custom(custom: ct.CustomSelectors | None) -> dict[str, str | ct.SelectorList]:
    """Process custom."""

    # Reuse the processed (and progressively compiled) aliases of an equal custom map.
    if custom is not None and custom in _PROCESSED_CUSTOM:
        return _PROCESSED_CUSTOM[custom]
    custom_selectors = {}
    if custom is not None:
        _PROCESSED_CUSTOM[custom] = custom_selectors
''')]


@mutant('c14_front_cache_check_then_act', 'C14',
        'a small hand-written first-level cache in front of the LRU with a check-then-act window: membership test, '
        'then a separate lookup; eviction pops the oldest key between the two')
def _():
    return [('soupsieve/__init__.py',
             '''    return cp._cached_css_compile(
        pattern,
        ct.Namespaces(namespaces) if namespaces is not None else namespaces,
        ct.CustomSelectors(custom) if custom is not None else custom,
        flags
    )


def purge() -> None:
    """Purge cached patterns."""

    cp._purge_cache()
''',
             '''    ns = ct.Namespaces(namespaces) if namespaces is not None else namespaces
    cs = ct.CustomSelectors(custom) if custom is not None else custom
    key = (pattern, ns, cs, flags)
    if key in _RECENT:
        return _RECENT[key]
    compiled = cp._cached_css_compile(pattern, ns, cs, flags)
    if len(_RECENT) >= _RECENT_MAX:
        _RECENT.pop(next(iter(_RECENT)))
    _RECENT[key] = compiled
    return compiled


# Most recently compiled patterns (cheap first-level lookup in front of the LRU cache)
_RECENT = {}  # type: dict[Any, cm.SoupSieve]
_RECENT_MAX = 2


def purge() -> None:
    """Purge cached patterns."""

    _RECENT.clear()
    cp._purge_cache()
''')]


@mutant('c14_lock_order_deadlock', 'C14',
        'two locks added "for safety", taken in opposite orders by compile() and purge(): a peer purging while a '
        'compile is in flight can deadlock')
def _():
    return [('soupsieve/__init__.py',
             '''    return cp._cached_css_compile(
        pattern,
        ct.Namespaces(namespaces) if namespaces is not None else namespaces,
        ct.CustomSelectors(custom) if custom is not None else custom,
        flags
    )


def purge() -> None:
    """Purge cached patterns."""

    cp._purge_cache()
''',
             '''    with _COMPILE_LOCK:
        ns = ct.Namespaces(namespaces) if namespaces is not None else namespaces
        cs = ct.CustomSelectors(custom) if custom is not None else custom
        with _CACHE_LOCK:
            return cp._cached_css_compile(pattern, ns, cs, flags)


_COMPILE_LOCK = threading.Lock()
_CACHE_LOCK = threading.Lock()


def purge() -> None:
    """Purge cached patterns."""

    with _CACHE_LOCK:
        with _COMPILE_LOCK:
            cp._purge_cache()
'''),
            ('soupsieve/__init__.py',
             '''import bs4
from typing import Any, Iterator, Iterable
''',
             '''import bs4
import threading
from typing import Any, Iterator, Iterable
''')]


@mutant('c15_maps_alias_caller_dict', 'C15',
        'ImmutableDict keeps the caller\'s dict instead of copying it when it already is a plain dict: the compiled '
        'selector (and the cache entry) changes when the caller later changes the map it passed to compile()')
def _():
    return [('soupsieve/css_types.py',
             '''        self._d = dict(arg)
''',
             '''        self._d = arg if type(arg) is dict else dict(arg)
''')]


# ---------------------------------------------------------------------------------------------- C04

@mutant('c04_radio_memo_name_caseless', 'C04',
        'the :indeterminate radio-group memo is looked up with a case-insensitive group name: within one call the '
        'answer for a radio named "R1" is taken from the group "r1" examined earlier (memo keyed on too little)')
def _():
    return [('soupsieve/css_match.py',
             '''                if f is form and n == name:
''',
             '''                if f is form and util.lower(n or '') == util.lower(name or ''):
''')]


@mutant('c04_module_level_meta_memo', 'C04',
        'the <meta> language memo outlives the call: module-level dict keyed by id(root); stale after a document is '
        'dropped and another one is created at the same address')
def _():
    return [('soupsieve/css_match.py',
             '''        # Use cached meta language.
        cached = False
        if found_lang is None and self.cached_meta_lang:
            for cache in self.cached_meta_lang:
                if root is cache[0]:
                    cached = True
                    found_lang = cache[1]
''',
             '''        # Use cached meta language.
        cached = False
        if found_lang is None and id(root) in _META_LANG:
            cached = True
            found_lang = _META_LANG[id(root)]
'''),
            ('soupsieve/css_match.py',
             '''                                found_lang = content
                                self.cached_meta_lang.append((cast(str, root), cast(str, found_lang)))
                                break
''',
             '''                                found_lang = content
                                _META_LANG[id(root)] = found_lang
                                break
'''),
            ('soupsieve/css_match.py',
             '''                if found_lang is None:
                    self.cached_meta_lang.append((cast(str, root), None))
''',
             '''                if found_lang is None:
                    _META_LANG[id(root)] = None
'''),
            ('soupsieve/css_match.py',
             '''DAYS_IN_WEEK = 7
''',
             '''DAYS_IN_WEEK = 7

# Document root -> language declared in `<meta http-equiv="content-language">` (or `None`)
_META_LANG = {}  # type: dict[int, str | None]
''')]


@mutant('c04_early_return_skips_restore', 'C04',
        'match_selectors returns early on a hit inside an HTML-only list without restoring the swapped namespace map / '
        'iframe flag: later elements of the same call are evaluated with the internal {html: xhtml} map')
def _():
    return [('soupsieve/css_match.py',
             '''                match = not is_not
                break

        # Restore actual namespaces being used for external selector lists
''',
             '''                match = not is_not
                if match and is_html and self.is_xml:
                    # Fast path: nothing else to evaluate for this list
                    return match
                break

        # Restore actual namespaces being used for external selector lists
''')]


@mutant('c04_classes_written_back', 'C04',
        'get_classes caches the split class list by writing it back into the element\'s attribute dict (only when the '
        'parser left class as a plain string, i.e. XML documents)')
def _():
    return [('soupsieve/css_match.py',
             '''        if isinstance(classes, str):
            classes = RE_NOT_WS.findall(classes)
        return cast(Sequence[str], classes)
''',
             '''        if isinstance(classes, str):
            classes = RE_NOT_WS.findall(classes)
            if 'class' in el.attrs and len(classes) > 1:
                # Split once, reuse on later lookups
                el.attrs['class'] = classes
        return cast(Sequence[str], classes)
''')]


@mutant('c04_text_memo_outlives_edit', 'C04',
        'get_text() memoised across calls in a module-level table keyed by id(el) (entry holds the element, so a '
        'recycled id is harmless): stale once the user edits the text of the subtree between two queries')
def _():
    return [('soupsieve/css_match.py',
             '''        return ''.join(
            [
                node for node in self.get_descendants(el, no_iframe=no_iframe)  # type: ignore[misc]
                if self.is_content_string(node)
            ]
        )
''',
             '''        ent = _TEXT_MEMO.get((id(el), no_iframe))
        if ent is not None and ent[0] is el:
            return ent[1]
        text = ''.join(
            [
                node for node in self.get_descendants(el, no_iframe=no_iframe)  # type: ignore[misc]
                if self.is_content_string(node)
            ]
        )
        if len(_TEXT_MEMO) > 4096:
            _TEXT_MEMO.clear()
        _TEXT_MEMO[(id(el), no_iframe)] = (el, text)
        return text
'''),
            ('soupsieve/css_match.py',
             '''class _FakeParent:
''',
             '''_TEXT_MEMO = {}  # type: dict[tuple[int, bool], tuple[bs4.Tag, str]]


class _FakeParent:
''')]


@mutant('c04_classes_stashed_on_element', 'C04',
        'the split class list is stashed on the element object (a private Python attribute, invisible in attrs and in '
        'the serialisation) and reused by later calls: stale once the user changes the class attribute')
def _():
    return [('soupsieve/css_match.py',
             '''        classes = cls.get_attribute_by_name(el, 'class', [])
        if isinstance(classes, str):
            classes = RE_NOT_WS.findall(classes)
        return cast(Sequence[str], classes)
''',
             '''        stash = el.__dict__.get('_sv_classes')
        if stash is not None:
            return cast(Sequence[str], stash)
        classes = cls.get_attribute_by_name(el, 'class', [])
        if isinstance(classes, str):
            classes = RE_NOT_WS.findall(classes)
        el.__dict__['_sv_classes'] = classes
        return cast(Sequence[str], classes)
''')]


@mutant('c04_fake_parent_not_undone_on_abort', 'C04',
        'match_nth gives a parentless root element a temporary fake parent by assigning el.parent and undoes it at the '
        'end of the loop body - but not when the evaluation is aborted by an exception in between')
def _():
    return [('soupsieve/css_match.py',
             '''            parent = self.get_parent(el)  # type: bs4.Tag | None
            if parent is None:
                parent = self.create_fake_parent(el)
            last = n.last
''',
             '''            parent = self.get_parent(el)  # type: bs4.Tag | None
            fake = False
            if parent is None:
                parent = self.create_fake_parent(el)
                el.parent = parent
                fake = True
            last = n.last
'''),
            ('soupsieve/css_match.py',
             '''                idx = a * count + b if var else a
                if last_idx == idx:
                    break
            if not matched:
                break
        return matched
''',
             '''                idx = a * count + b if var else a
                if last_idx == idx:
                    break
            if fake:
                el.parent = None
            if not matched:
                break
        return matched
''')]


# Tried and dropped (see DESIGN.md section 9): moving a per-call memo table (meta language, default form) to ONE
# class-level list that is emptied whenever a matcher is created is observationally equivalent - the table holds pure
# facts about document nodes compared by identity, so another matcher's entries are either irrelevant or correct.
# The checks rightly stay silent on them.  'maxsize=None' and 'radio memo keyed by name only' are caught by the pinned
# tests already, so they are not "realistic" in the brief's sense.


# ---------------------------------------------------------------------------------------------- C15

@mutant('c15_cache_key_custom_names_only', 'C15',
        'the pattern cache is keyed on the *names* of the custom selectors, not their definitions: two custom maps with '
        'the same names and different definitions collide, so compile returns whichever was compiled first')
def _():
    return [('soupsieve/__init__.py',
             '''    return cp._cached_css_compile(
        pattern,
        ct.Namespaces(namespaces) if namespaces is not None else namespaces,
        ct.CustomSelectors(custom) if custom is not None else custom,
        flags
    )
''',
             '''    cs = ct.CustomSelectors(custom) if custom is not None else custom
    cp._CUSTOM_BY_NAMES.setdefault(frozenset(cs) if cs is not None else None, cs)
    return cp._cached_css_compile(
        pattern,
        ct.Namespaces(namespaces) if namespaces is not None else namespaces,
        cp._CUSTOM_BY_NAMES[frozenset(cs) if cs is not None else None],
        flags
    )
'''),
            ('soupsieve/css_parser.py',
             '''# Maximum cached patterns to store
_MAXCACHE = 500
''',
             '''# Maximum cached patterns to store
_MAXCACHE = 500

# Interned custom selector maps
_CUSTOM_BY_NAMES = {}  # type: dict[Any, Any]
'''),
            ('soupsieve/css_parser.py',
             '''    _cached_css_compile.cache_clear()
''',
             '''    _cached_css_compile.cache_clear()
    _CUSTOM_BY_NAMES.clear()
''')]


@mutant('c15_second_layer_not_purged', 'C15',
        'an extra "hot" dictionary in front of the LRU that purge() does not clear and that is unbounded: after a '
        'purge, compile still returns the old object; combined with flags it returns an object compiled with other flags')
def _():
    return [('soupsieve/__init__.py',
             '''    return cp._cached_css_compile(
        pattern,
        ct.Namespaces(namespaces) if namespaces is not None else namespaces,
        ct.CustomSelectors(custom) if custom is not None else custom,
        flags
    )
''',
             '''    if namespaces is None and custom is None:
        hot = _HOT.get(pattern)
        if hot is not None:
            return hot
    compiled = cp._cached_css_compile(
        pattern,
        ct.Namespaces(namespaces) if namespaces is not None else namespaces,
        ct.CustomSelectors(custom) if custom is not None else custom,
        flags
    )
    if namespaces is None and custom is None and len(pattern) < 16:
        _HOT[pattern] = compiled
    return compiled


# Short, argument-less patterns are by far the most common: keep them at hand.
_HOT = {}  # type: dict[str, cm.SoupSieve]


def _unused() -> None:
    """Placeholder."""
''')]


@mutant('c15_pickle_normalises_empty_maps', 'C15',
        'the pickle reducer of the compiled object "normalises" empty namespace/custom maps to None: pickle/copy/deepcopy '
        'of a selector compiled with namespaces={} or custom={} yields an unequal object')
def _():
    return [('soupsieve/css_match.py',
             '''ct.pickle_register(SoupSieve)
''',
             '''def _pickle_sieve(p: SoupSieve) -> Any:
    return SoupSieve, (p.pattern, p.selectors, p.namespaces or None, p.custom or None, p.flags)


ct.copyreg.pickle(SoupSieve, _pickle_sieve)
''')]


@mutant('c15_setattr_allows_private', 'C15',
        '__setattr__/__delattr__ let names starting with an underscore through ("internal bookkeeping"): the '
        'precomputed _hash of any node can be overwritten or deleted')
def _():
    return [('soupsieve/css_types.py',
             '''    def __setattr__(self, name: str, value: Any) -> None:
        """Prevent mutability."""

        raise AttributeError(f"'{self.__class__.__name__}' is immutable")

    def __delattr__(self, name: str) -> None:
        """Prevent mutability."""

        raise AttributeError(f"'{self.__class__.__name__}' is immutable")
''',
             '''    def __setattr__(self, name: str, value: Any) -> None:
        """Prevent mutability."""

        if name.startswith('_'):
            super().__setattr__(name, value)
            return
        raise AttributeError(f"'{self.__class__.__name__}' is immutable")

    def __delattr__(self, name: str) -> None:
        """Prevent mutability."""

        if name.startswith('_'):
            super().__delattr__(name)
            return
        raise AttributeError(f"'{self.__class__.__name__}' is immutable")
''')]


@mutant('c15_entry_before_parse', 'C15',
        'a registry entry is created before parsing completes and only filled in afterwards: a compile aborted '
        'part-way (exception at an arbitrary step, failing stdout under DEBUG) leaves a half-built entry that later '
        'compiles of the same key return')
def _():
    return [('soupsieve/css_parser.py',
             '''    custom_selectors = process_custom(custom)
    return cm.SoupSieve(
        pattern,
        CSSParser(
            pattern,
            custom=custom_selectors,
            flags=flags
        ).process_selectors(),
        namespaces,
        custom,
        flags
    )
''',
             '''    key = (pattern, namespaces, custom, flags)
    pending = _IN_PROGRESS.get(key)
    if pending is not None:
        # Another compile of the same key already produced (or is producing) the selector list
        return cm.SoupSieve(pattern, ct.SelectorList(pending), namespaces, custom, flags)
    parts = _IN_PROGRESS.setdefault(key, [])
    custom_selectors = process_custom(custom)
    selectors = CSSParser(
        pattern,
        custom=custom_selectors,
        flags=flags
    ).process_selectors()
    parts.extend(selectors)
    del _IN_PROGRESS[key]
    return cm.SoupSieve(
        pattern,
        selectors,
        namespaces,
        custom,
        flags
    )


_IN_PROGRESS = {}  # type: dict[Any, list[Any]]


def _unused_compile() -> None:
    """Placeholder."""
''')]


# ---------------------------------------------------------------------------------------------- C16

@mutant('c16_module_level_tag_types', 'C16',
        'a module-level constant built from bs4 classes in css_match.py: evaluated while bs4 is only partially '
        'initialised when bs4 is imported first')
def _():
    return [('soupsieve/css_match.py',
             '''DAYS_IN_WEEK = 7
''',
             '''DAYS_IN_WEEK = 7

# Types that count as elements
TAG_TYPES = (bs4.Tag,)
''')]


@mutant('c16_eager_from_import', 'C16',
        'soupsieve/__init__ does "from bs4 import Tag": with bs4 imported first this raises ImportError, which bs4.css '
        'swallows ("soupsieve not installed"): import succeeds, with a warning, and Beautiful Soup cannot select')
def _():
    return [('soupsieve/__init__.py',
             '''import bs4
from typing import Any, Iterator, Iterable
''',
             '''import bs4
from bs4 import Tag  # noqa: F401
from typing import Any, Iterator, Iterable
''')]


@mutant('c16_warning_at_import_without_lxml', 'C16',
        'a UserWarning at import time when lxml is not installed ("XML documents need lxml"): silent in the test '
        'environment, noisy in the most common install')
def _():
    return [('soupsieve/css_match.py',
             '''import bs4
from typing import Iterator, Iterable, Any, Callable, Sequence, Any, cast  # noqa: F401, F811
''',
             '''import bs4
import warnings
from typing import Iterator, Iterable, Any, Callable, Sequence, Any, cast  # noqa: F401, F811

try:
    import lxml  # noqa: F401
except ImportError:  # pragma: no cover
    warnings.warn("lxml is not installed: XML documents and namespaces cannot be fully supported")  # noqa: B028
''')]


@mutant('c16_stdout_encoding_at_import', 'C16',
        'pretty.py looks at sys.stdout.encoding at import to choose its indentation glyphs: AttributeError at import when '
        'the process has no standard streams (sys.stdout is None: pythonw, GUI, daemon)')
def _():
    return [('soupsieve/pretty.py',
             '''from __future__ import annotations
import re
from typing import Any
''',
             '''from __future__ import annotations
import re
import sys
from typing import Any

# Use plain ASCII indentation guides unless the terminal can show something nicer
UNICODE_OUTPUT = sys.stdout.encoding.lower().startswith('utf')
''')]


@mutant('c16_assert_docstring_under_OO', 'C16',
        'css_types builds a lookup table from class docstrings at import: under -OO docstrings are None and the import '
        'dies')
def _():
    return [('soupsieve/css_types.py',
             '''pickle_register(Selector)
''',
             '''# Human readable names of the node types (first word of each docstring)
NODE_NAMES = {cls.__name__: cls.__doc__.split()[0] for cls in (Selector, SelectorTag, SelectorList)}

pickle_register(Selector)
''')]


def build(repo):
    os.makedirs(OUT, exist_ok=True)
    meta = {}
    for name, m in MUTANTS.items():
        files = {}
        for path, old, new in m['edits']:
            src = files.get(path)
            if src is None:
                with open(os.path.join(repo, path)) as f:
                    src = f.read()
                files[path] = src
            if old not in files[path]:
                raise SystemExit(f'{name}: anchor not found in {path}: {old[:60]!r}')
            files[path] = files[path].replace(old, new, 1)
        diff = []
        for path, new_src in sorted(files.items()):
            with open(os.path.join(repo, path)) as f:
                orig = f.read()
            diff.extend(difflib.unified_diff(orig.splitlines(True), new_src.splitlines(True), 'a/' + path, 'b/' + path))
        with open(os.path.join(OUT, name + '.patch'), 'w') as f:
            f.write(''.join(diff))
        meta[name] = {'property': m['property'], 'why': m['why']}
    return meta


if __name__ == '__main__':
    import json
    repo = sys.argv[sys.argv.index('--repo') + 1] if '--repo' in sys.argv else '/repo'
    meta = build(repo)
    path = os.path.join(OUT, 'catalogue.json')
    try:
        old = json.load(open(path))
    except Exception:  # noqa: BLE001
        old = {}
    old.update(meta)
    json.dump(old, open(path, 'w'), indent=1, sort_keys=True)
    print('wrote', len(meta), 'patches')
