#!/bin/bash
# usage: try_seeded.sh <worktree> <PROP> [more props...]
# Confirms a sub-agent change (patch matches, pinned tests pass, demo fails with / passes without),
# then runs the quick check(s) against the worktree via VERIF_REPO. Evidence files are preserved.
wt=$1; shift
cd "$wt" || exit 2
if diff <(git diff -- soupsieve/) patch.diff >/dev/null; then echo "patch.diff matches worktree diff"; else echo "NOTE: patch.diff differs from worktree diff"; fi
echo "tests: $(PYTHONPATH=$wt /venv/bin/python -m pytest -q -p no:cacheprovider -x 2>&1 | tail -1)"
PYTHONPATH=$wt timeout 300 /venv/bin/python demo.py >/tmp/demo_with.txt 2>&1; echo "demo with change: rc=$? ($(tail -1 /tmp/demo_with.txt | cut -c1-150))"
git apply -R patch.diff && { PYTHONPATH=$wt timeout 300 /venv/bin/python demo.py >/tmp/demo_without.txt 2>&1; echo "demo without change: rc=$? ($(tail -1 /tmp/demo_without.txt | cut -c1-150))"; git apply patch.diff; }
cd /verif
rm -rf /tmp/ev_backup && cp -r evidence /tmp/ev_backup
for p in "$@"; do
  VERIF_REPO=$wt timeout 1200 /venv/bin/python check.py $p --tier quick 2>&1 | cut -c1-500 | grep -v "^  thread\|^    step\|^  document spec" | tail -12
done
rm -rf evidence && mv /tmp/ev_backup evidence; rm -f replays/*.json
