"""Determinism self-test: the same seed must give the same execution, whoever runs it.

For each simulated engine (C04, C14, C15) N seeds spread over its configurations are executed
  A. in a 16-worker fork pool of this interpreter (PYTHONHASHSEED=0),
  B. in fresh interpreters with PYTHONHASHSEED=12345, several at a time,
  C. a quarter of them again in ONE fresh interpreter, sequentially (1 worker), PYTHONHASHSEED=1,
and the per-run digests (hash of the full event log: operations, switches with their
(function, line) sites, faults fired, results) are compared.  C16 runs 40 jobs twice.

Results go to selftest/results_determinism.json.  Exit 0 = no mismatch, 2 = mismatch.
"""
from __future__ import annotations

import concurrent.futures as cf
import importlib
import json
import os
import sys
import time

HERE = os.path.dirname(os.path.abspath(__file__))
VERIF = os.path.dirname(HERE)
if VERIF not in sys.path:
    sys.path.insert(0, VERIF)


def tasks_for(prop, n, chunk=20):
    from sim import driver
    mod = importlib.import_module(driver.MODULES[prop])
    plan = mod.plan('quick')
    cfgs = [c for c in plan['configs'] if c.get('mode') != 'big']
    per = max(chunk, n // len(cfgs))
    for c in cfgs:
        c['nruns'] = per
        c['chunk'] = chunk
    plan['configs'] = cfgs
    return mod, driver.make_tasks(mod, plan, 0)


def main(n=None):
    from sim import runner
    n = n or 500
    out = {'n_per_engine': n, 'engines': {}}
    bad = 0
    for prop in ('C04', 'C14', 'C15'):
        t0 = time.time()
        mod, tasks = tasks_for(prop, n)
        agg, info = runner.run_tasks(tasks, 3600, workers=16)
        if agg.harness_errors:
            print('HARNESS-ERROR', agg.harness_errors[0].get('trace', '')[-2000:])
            return 2
        a = dict(agg.digests)
        # B: fresh interpreters, other hash seed, 8 at a time
        b = {}
        with cf.ThreadPoolExecutor(max_workers=8) as ex:
            for d in ex.map(lambda t: runner.rerun_in_fresh_interpreter(mod.__name__, t, hashseed='12345'), tasks):
                b.update(d)
        # C: one fresh interpreter, sequentially, a quarter of the chunks merged into one task per config
        c = {}
        quarter = tasks[::4]
        for t in quarter:
            c.update(runner.rerun_in_fresh_interpreter(mod.__name__, t, hashseed='1'))
        mism_b = sorted(k for k in a if b.get(k) != a[k])
        mism_c = sorted(k for k in c if c.get(k) != a.get(k))
        out['engines'][prop] = {
            'runs': len(a), 'compared_fresh_interpreter_hashseed_12345': len(b), 'compared_single_worker_hashseed_1': len(c),
            'mismatches_fresh': len(mism_b), 'mismatches_single_worker': len(mism_c),
            'examples': (mism_b + mism_c)[:5], 'discarded': sum(1 for v in a.values() if v == 'discarded'),
            'wall_s': round(time.time() - t0, 1),
        }
        bad += len(mism_b) + len(mism_c)
        print(prop, out['engines'][prop], flush=True)
    # C16: subprocess engine
    from props import c16
    t0 = time.time()
    import random
    m = 0
    for i in range(40):
        seed = runner.derive_seed(0, 'C16', 'selftest', i)
        r1 = c16.run_seeded(seed)
        r2 = c16.run_seeded(seed)
        if json.dumps(r1[1], sort_keys=True) != json.dumps(r2[1], sort_keys=True) or r1[0] != r2[0]:
            m += 1
    out['engines']['C16'] = {'runs': 40, 'mismatches': m, 'wall_s': round(time.time() - t0, 1)}
    print('C16', out['engines']['C16'], flush=True)
    bad += m
    out['ok'] = bad == 0
    json.dump(out, open(os.path.join(HERE, 'results_determinism.json'), 'w'), indent=1)
    return 0 if bad == 0 else 2


if __name__ == '__main__':
    sys.exit(main(int(sys.argv[1]) if len(sys.argv) > 1 else None))
