"""Sensitivity self-test: break the property on purpose in a scratch copy, expect the quick check to fail.

For every mutant in selftest/mutants/catalogue.json (hand-written catalogue + reversed fix: commits)
and every kept sub-agent change in seeded/<id>/ (patch.diff + meta.json):

  1. copy $VERIF_REPO (soupsieve/, tests/, pyproject.toml) to a scratch directory outside /repo and /verif
  2. apply the patch
  3. run the pinned test suite against the copy (it must still pass - otherwise the mutant is not realistic)
  4. run `check.py <property> --tier quick` with VERIF_REPO pointing at the copy, expect exit 1
  5. delete the copy

Results go to selftest/results.json.  Exit 0 when every realistic mutant was detected.
"""
from __future__ import annotations

import json
import os
import shutil
import subprocess
import sys
import tempfile
import time

HERE = os.path.dirname(os.path.abspath(__file__))
VERIF = os.path.dirname(HERE)
PY = '/venv/bin/python'


def load_catalogue():
    cat = {}
    p = os.path.join(HERE, 'mutants', 'catalogue.json')
    if os.path.exists(p):
        for name, m in json.load(open(p)).items():
            cat[name] = {'property': m['property'], 'why': m.get('why', ''), 'patch': os.path.join(HERE, 'mutants', name + '.patch'),
                         'source': 'catalogue'}
    seeded = os.path.join(VERIF, 'seeded')
    if os.path.isdir(seeded):
        for d in sorted(os.listdir(seeded)):
            mp = os.path.join(seeded, d, 'meta.json')
            pp = os.path.join(seeded, d, 'patch.diff')
            if os.path.exists(mp) and os.path.exists(pp):
                m = json.load(open(mp))
                cat['seeded_' + d] = {'property': m['property'], 'why': m.get('needs', ''), 'patch': pp, 'source': 'sub-agent',
                                      'expect': m.get('expect', 'detect')}
    controls = os.path.join(VERIF, 'controls')
    if os.path.isdir(controls):
        for d in sorted(os.listdir(controls)):
            mp = os.path.join(controls, d, 'meta.json')
            pp = os.path.join(controls, d, 'patch.diff')
            if os.path.exists(mp) and os.path.exists(pp):
                m = json.load(open(mp))
                cat['control_' + d] = {'property': 'ALL', 'why': m.get('what', ''), 'patch': pp,
                                       'source': 'sub-agent (negative control)', 'expect': 'pass'}
    return cat


def run_one(name, m, repo, with_tests=True, budget=None, seed=0):
    scratch = tempfile.mkdtemp(prefix='sens-')
    out = {'name': name, 'property': m['property'], 'source': m['source']}
    try:
        for item in ('soupsieve', 'tests', 'pyproject.toml'):
            src = os.path.join(repo, item)
            if os.path.isdir(src):
                shutil.copytree(src, os.path.join(scratch, item), ignore=shutil.ignore_patterns('__pycache__'))
            elif os.path.exists(src):
                shutil.copy(src, os.path.join(scratch, item))
        p = subprocess.run(['patch', '-s', '-p1', '-i', m['patch']], cwd=scratch, capture_output=True, text=True)
        if p.returncode != 0:
            out['status'] = 'patch-failed'
            out['detail'] = (p.stdout + p.stderr)[-500:]
            return out
        env = dict(os.environ)
        env['PYTHONPATH'] = scratch
        env['PYTHONDONTWRITEBYTECODE'] = '1'
        if with_tests:
            t0 = time.time()
            p = subprocess.run([PY, '-m', 'pytest', '-q', '-p', 'no:cacheprovider', '-x', '--timeout=600'], cwd=scratch,
                               capture_output=True, text=True, env=env)
            out['tests_s'] = round(time.time() - t0, 1)
            out['tests_pass'] = p.returncode == 0
            out['tests_tail'] = p.stdout.strip().splitlines()[-1:] if p.stdout else []
            if not out['tests_pass']:
                out['status'] = 'unrealistic-fails-pinned-tests'
                return out
        env2 = dict(os.environ)
        env2['VERIF_REPO'] = scratch
        env2['VERIF_SEED'] = str(seed)
        if m.get('expect') == 'pass':
            # negative control: a correct change; every check must stay silent
            t0 = time.time()
            out['checks'] = {}
            for prop in os.environ.get('SENS_CONTROL_PROPS', 'C04,C14,C15,C16').split(','):
                p = subprocess.run([PY, os.path.join(VERIF, 'check.py'), prop, '--tier', 'quick'], cwd=VERIF,
                                   capture_output=True, text=True, env=env2)
                out['checks'][prop] = p.returncode
                if p.returncode != 0:
                    out.setdefault('tail', []).extend(p.stdout.splitlines()[-8:])
            out['check_s'] = round(time.time() - t0, 1)
            out['status'] = 'silent-as-expected' if all(v == 0 for v in out['checks'].values()) else 'FALSE-ALARM'
            return out
        cmd = [PY, os.path.join(VERIF, 'check.py'), m['property'], '--tier', 'quick']
        if budget:
            cmd += ['--budget', str(budget)]
        t0 = time.time()
        p = subprocess.run(cmd, cwd=VERIF, capture_output=True, text=True, env=env2)
        out['check_s'] = round(time.time() - t0, 1)
        out['exit'] = p.returncode
        lines = p.stdout.splitlines()
        out['violation_lines'] = [ln for ln in lines if ln.startswith('VIOLATION')][:4]
        out['signatures'] = [ln.strip() for ln in lines if ln.strip().startswith('signature:')][:4]
        runs = [ln for ln in lines if 'violations(raw)' in ln]
        out['runs_line'] = runs[-1] if runs else ''
        out['status'] = 'detected' if p.returncode == 1 and out['violation_lines'] else (
            'harness-error' if p.returncode == 2 else 'MISSED')
        if out['status'] != 'detected':
            out['tail'] = lines[-6:]
        return out
    finally:
        shutil.rmtree(scratch, ignore_errors=True)
        # replay files written for mutants are scratch output, not findings
        for f in os.listdir(os.path.join(VERIF, 'replays')):
            if f.endswith('.json'):
                try:
                    os.remove(os.path.join(VERIF, 'replays', f))
                except OSError:
                    pass


def main(only=None, with_tests=True):
    repo = os.environ.get('VERIF_REPO', '/repo')
    cat = load_catalogue()
    names = sorted(cat)
    if only:
        names = [n for n in names if only in n]
    results = []
    # evidence files belong to runs on the real tree: keep them out of the way
    ev_dir = os.path.join(VERIF, 'evidence')
    backup = tempfile.mkdtemp(prefix='sens-ev-')
    for f in os.listdir(ev_dir):
        shutil.copy(os.path.join(ev_dir, f), backup)
    try:
        for n in names:
            r = run_one(n, cat[n], repo, with_tests)
            r['why'] = cat[n]['why']
            results.append(r)
            print(f"{r['status']:32s} {n:48s} {r['property']}  check={r.get('check_s', '-')}s  "
                  f"{'; '.join(r.get('signatures', []))[:100]}", flush=True)
    finally:
        for f in os.listdir(backup):
            shutil.copy(os.path.join(backup, f), ev_dir)
        shutil.rmtree(backup, ignore_errors=True)
    path = os.path.join(HERE, 'results.json')
    old = {}
    if only and os.path.exists(path):
        try:
            old = {r['name']: r for r in json.load(open(path))['results']}
        except Exception:  # noqa: BLE001
            old = {}
    for r in results:
        old[r['name']] = r
    allr = [old[k] for k in sorted(old)]
    summary = {}
    for r in allr:
        summary[r['status']] = summary.get(r['status'], 0) + 1
    json.dump({'summary': summary, 'results': allr}, open(path, 'w'), indent=1)
    print('summary', summary)
    bad = [r for r in results if r['status'] in ('MISSED', 'harness-error', 'patch-failed', 'FALSE-ALARM')]
    return 0 if not bad else 1


if __name__ == '__main__':
    sys.exit(main(sys.argv[1] if len(sys.argv) > 1 else None))
